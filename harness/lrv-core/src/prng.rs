//! Small deterministic PRNG (SplitMix64 seeding xoshiro256**). No dependency on anything
//! under test; every random choice of every monitor comes from here, seeded by VERIF_SEED.

#[derive(Clone, Debug)]
pub struct Prng {
    s: [u64; 4],
}

fn splitmix(x: &mut u64) -> u64 {
    *x = x.wrapping_add(0x9E37_79B9_7F4A_7C15);
    let mut z = *x;
    z = (z ^ (z >> 30)).wrapping_mul(0xBF58_476D_1CE4_E5B9);
    z = (z ^ (z >> 27)).wrapping_mul(0x94D0_49BB_1331_11EB);
    z ^ (z >> 31)
}

impl Prng {
    pub fn new(seed: u64) -> Self {
        let mut x = seed ^ 0x6c72_7630_7665_7269;
        let s = [splitmix(&mut x), splitmix(&mut x), splitmix(&mut x), splitmix(&mut x)];
        Prng { s }
    }
    /// Independent stream for (seed, stream id, sub id).
    pub fn stream(seed: u64, a: u64, b: u64) -> Self {
        let mut x = seed;
        let s1 = splitmix(&mut x);
        let mut y = s1 ^ a.wrapping_mul(0xD6E8_FEB8_6659_FD93);
        let s2 = splitmix(&mut y);
        let mut z = s2 ^ b.wrapping_mul(0xA076_1D64_78BD_642F);
        Prng::new(splitmix(&mut z))
    }
    pub fn next_u64(&mut self) -> u64 {
        let r = self.s[1].wrapping_mul(5).rotate_left(7).wrapping_mul(9);
        let t = self.s[1] << 17;
        self.s[2] ^= self.s[0];
        self.s[3] ^= self.s[1];
        self.s[1] ^= self.s[2];
        self.s[0] ^= self.s[3];
        self.s[2] ^= t;
        self.s[3] = self.s[3].rotate_left(45);
        r
    }
    pub fn next_u32(&mut self) -> u32 {
        (self.next_u64() >> 32) as u32
    }
    pub fn u8(&mut self) -> u8 {
        (self.next_u64() >> 56) as u8
    }
    pub fn bool(&mut self) -> bool {
        self.next_u64() >> 63 == 1
    }
    /// Uniform in 0..n (n > 0).
    pub fn below(&mut self, n: u64) -> u64 {
        debug_assert!(n > 0);
        ((self.next_u64() as u128 * n as u128) >> 64) as u64
    }
    pub fn range(&mut self, lo: u64, hi_incl: u64) -> u64 {
        lo + self.below(hi_incl - lo + 1)
    }
    pub fn chance(&mut self, num: u64, den: u64) -> bool {
        self.below(den) < num
    }
    pub fn fill(&mut self, buf: &mut [u8]) {
        for c in buf.chunks_mut(8) {
            let v = self.next_u64().to_le_bytes();
            c.copy_from_slice(&v[..c.len()]);
        }
    }
    pub fn bytes(&mut self, n: usize) -> Vec<u8> {
        let mut v = vec![0u8; n];
        self.fill(&mut v);
        v
    }
    /// Random bytes of a random length in 0..max.
    pub fn bytes_below(&mut self, max: u64) -> Vec<u8> {
        let n = self.below(max) as usize;
        self.bytes(n)
    }
    pub fn arr<const N: usize>(&mut self) -> [u8; N] {
        let mut v = [0u8; N];
        self.fill(&mut v);
        v
    }
    pub fn pick<'a, T>(&mut self, xs: &'a [T]) -> &'a T {
        &xs[self.below(xs.len() as u64) as usize]
    }
}

/// FNV-1a 64 for class hashing (stable across runs/toolchains, unlike std's SipHash keys).
pub fn fnv64(bytes: &[u8]) -> u64 {
    let mut h: u64 = 0xcbf2_9ce4_8422_2325;
    for b in bytes {
        h ^= *b as u64;
        h = h.wrapping_mul(0x0000_0100_0000_01B3);
    }
    h
}
