#!/bin/bash
# tools/proc13.sh <Cxx> <variant> [extra props...]
# Round-13 seeds: /tmp/${SEED_BASE:-seed13}-Cxx/OUT/<variant>/{patch.diff,demo.rs,README.md,demo_dest.txt,demo_cmd.txt}.
# 1. confirms the change in a scratch worktree (verify_seed.sh), 2. if confirmed, saves it to /verif/seeded/<Cxx><variant>
# straight away (scratch directories do not survive a restore), 3. runs the quick check of the property (and of the extra
# ones) against it through the real driver (mutant.sh, MUT_CHECK=1). Log: /tmp/p13log/<Cxx><variant>.log
p=$1; v=$2; shift 2; extra="$*"
base=${SEED_BASE:-seed13}
d=/tmp/$base-$p/OUT/$v
mkdir -p /tmp/p13log
{
for f in patch.diff demo.rs README.md demo_dest.txt demo_cmd.txt; do [ -s $d/$f ] || { echo "SEED $p$v: missing $f"; exit 2; }; done
dest=$(head -1 $d/demo_dest.txt | tr -d '\r\n ')
cmd=$(head -1 $d/demo_cmd.txt | sed "s#cd /tmp/[a-zA-Z0-9/-]* && ##")
crate=$(python3 -c "
from importlib.machinery import SourceFileLoader
m = SourceFileLoader('chk', '/verif/check').load_module()
print(m.PROPS['$p']['crate'])")
export SEEDCHECK_BASE=/tmp/sc13-$p$v MUT_BASE=/tmp/mw13-$p$v
ver=$(/verif/tools/verify_seed.sh $d "$dest" "$cmd" 2>&1 | cut -c1-300)
echo "$ver"
ok=1
echo "$ver" | grep -q "suite with patch: [0-9]* passed 0 failed" || ok=0
echo "$ver" | grep "demo WITH patch" | grep -q "FAILED\|error" || ok=0
echo "$ver" | grep "demo WITHOUT patch" | grep -q "test result: ok" || ok=0
echo "$ver" | grep "demo WITHOUT patch" | grep -q "FAILED\|error" && ok=0
echo "CONFIRMED=$ok"
if [ $ok = 1 ]; then
  dst=/verif/seeded/$p$v
  mkdir -p $dst
  cp $d/patch.diff $d/demo.rs $d/README.md $dst/
  python3 - "$p" "$v" "$dest" "$cmd" "$(git -C /repo rev-parse --short HEAD)" <<'EOF'
import sys, json, re
p, v, dest, cmd, rev = sys.argv[1:6]
dst = f"/verif/seeded/{p}{v}"
readme = open(dst + "/README.md").read()
m = re.search(r"## What it needs to manifest\s*(.*?)(?:\n## |\Z)", readme, re.S)
json.dump({
    "id": p + v,
    "breaks_property": p,
    "round": int(__import__("os").environ.get("ROUND", "13")),
    "repo_commit": rev,
    "origin": "independent sub-agent given only the property text and a scratch worktree of /repo (nothing from /verif)",
    "needs_to_manifest": re.sub(r"\s+", " ", (m.group(1) if m else readme))[:1500],
    "demo": {"place_at": dest, "run": cmd},
    "confirmed": "tools/verify_seed.sh in a scratch worktree at /repo HEAD: patch applies; `cargo test --workspace --offline` all passed with the patch; demo FAILS with the patch and PASSES without it",
    "checks_run": "tools/mutant.sh with MUT_CHECK=1 (scratch worktree + scratch copy of the harness, ./check quick tier, seed 1)",
    "caught_by": "?",
    "initially_missed_by": "—",
}, open(dst + "/meta.json", "w"), indent=1)
EOF
  echo "saved $dst"
fi
MUT_CHECK=1 MUT_SHOW=4 /verif/tools/mutant.sh s-$p$v $crate "$p $extra" $d/patch.diff 2>&1 | cut -c1-300
rm -rf $SEEDCHECK_BASE $MUT_BASE
} > /tmp/p13log/$p$v.log 2>&1
grep -E "CONFIRMED=|^C[0-9]+ quick|exit=|VIOLATION property|INCONCLUSIVE" /tmp/p13log/$p$v.log | tr '\n' ' ' | cut -c1-400
echo
