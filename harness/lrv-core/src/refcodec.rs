//! Independent LoRaWAN 1.0.x reference codec, written from the specification
//! (LoRaWAN 1.0.3/1.0.4 sections 4 and 6). It shares no code with /repo.
//!
//! Conventions: all multi-byte fields little-endian on the wire; direction 0 = uplink,
//! 1 = downlink; MIC = first 4 bytes of AES-CMAC(NwkSKey, B0 | msg);
//! B0 = 0x49 | 0000 | dir | DevAddr(LE) | FCnt32(LE) | 00 | len(msg);
//! FRMPayload is XORed with S = aes(K, A1) | aes(K, A2) ... with
//! Ai = 0x01 | 0000 | dir | DevAddr(LE) | FCnt32(LE) | 00 | i (i from 1), K = NwkSKey for
//! FPort 0, AppSKey otherwise; JoinAccept wire = MHDR | aes_decrypt(AppKey, body | MIC),
//! MIC = cmac(AppKey, MHDR | body)[0..4]; session keys = aes(AppKey, 0x01|0x02 | JoinNonce |
//! NetID | DevNonce | pad).

use crate::aes::Aes128;

pub const MT_JOIN_REQUEST: u8 = 0;
pub const MT_JOIN_ACCEPT: u8 = 1;
pub const MT_UNCONF_UP: u8 = 2;
pub const MT_UNCONF_DOWN: u8 = 3;
pub const MT_CONF_UP: u8 = 4;
pub const MT_CONF_DOWN: u8 = 5;

pub fn is_uplink_mtype(mtype: u8) -> bool {
    mtype == MT_UNCONF_UP || mtype == MT_CONF_UP
}

/// A data frame description (the reference's own notion, not the repo's type).
#[derive(Clone, Debug, PartialEq, Eq)]
pub struct DataDesc {
    pub mtype: u8, // 2..=5
    pub dev_addr: u32,
    pub adr: bool,
    pub adr_ack_req: bool, // uplink only
    pub ack: bool,
    pub f_pending: bool, // downlink only
    pub fcnt: u32,
    pub f_opts: Vec<u8>,
    pub f_port: Option<u8>,
    pub frm: Vec<u8>, // plaintext
}

#[derive(Clone, Copy, Debug, PartialEq, Eq)]
pub enum BuildErr {
    FOptsTooLong,
    FOptsWithPortZero,
    PayloadWithoutPort,
}

pub fn b0(dir: u8, dev_addr: u32, fcnt: u32, len: usize) -> [u8; 16] {
    let mut b = [0u8; 16];
    b[0] = 0x49;
    b[5] = dir;
    b[6..10].copy_from_slice(&dev_addr.to_le_bytes());
    b[10..14].copy_from_slice(&fcnt.to_le_bytes());
    b[15] = len as u8;
    b
}

/// MIC of a data frame: `msg` = MHDR..end of FRMPayload (no MIC).
pub fn data_mic(nwk: &[u8; 16], msg: &[u8], dir: u8, dev_addr: u32, fcnt: u32) -> [u8; 4] {
    let mut m = Vec::with_capacity(16 + msg.len());
    m.extend_from_slice(&b0(dir, dev_addr, fcnt, msg.len()));
    m.extend_from_slice(msg);
    let t = Aes128::new(nwk).cmac(&m);
    [t[0], t[1], t[2], t[3]]
}

/// FRMPayload encryption/decryption (an involution).
pub fn crypt_frm(key: &[u8; 16], dir: u8, dev_addr: u32, fcnt: u32, data: &[u8]) -> Vec<u8> {
    let a = Aes128::new(key);
    let mut out = Vec::with_capacity(data.len());
    for (bi, chunk) in data.chunks(16).enumerate() {
        let mut ai = [0u8; 16];
        ai[0] = 0x01;
        ai[5] = dir;
        ai[6..10].copy_from_slice(&dev_addr.to_le_bytes());
        ai[10..14].copy_from_slice(&fcnt.to_le_bytes());
        ai[15] = (bi + 1) as u8;
        let s = a.encrypt(&ai);
        for (j, b) in chunk.iter().enumerate() {
            out.push(b ^ s[j]);
        }
    }
    out
}

pub fn fctrl_byte(d: &DataDesc) -> u8 {
    let up = is_uplink_mtype(d.mtype);
    let mut b = (d.f_opts.len() as u8) & 0x0f;
    if d.adr {
        b |= 0x80;
    }
    if up && d.adr_ack_req {
        b |= 0x40;
    }
    if d.ack {
        b |= 0x20;
    }
    if !up && d.f_pending {
        b |= 0x10;
    }
    b
}

/// Encodes a data frame. `nwk`/`app` are the session keys.
/// `encode_data` with the three RFU bits of the MHDR (bits 4..2) set to `rfu`: still an authentic
/// frame of the same type and direction (the MIC covers the MHDR as sent).
pub fn encode_data_rfu(d: &DataDesc, nwk: &[u8; 16], app: &[u8; 16], rfu: u8) -> Result<Vec<u8>, BuildErr> {
    let mut out = encode_data(d, nwk, app)?;
    let n = out.len();
    out[0] |= (rfu & 7) << 2;
    let dir = if is_uplink_mtype(d.mtype) { 0 } else { 1 };
    let mic = data_mic(nwk, &out[..n - 4], dir, d.dev_addr, d.fcnt);
    out[n - 4..].copy_from_slice(&mic);
    Ok(out)
}

pub fn encode_data(d: &DataDesc, nwk: &[u8; 16], app: &[u8; 16]) -> Result<Vec<u8>, BuildErr> {
    if d.f_port == Some(0) && !d.f_opts.is_empty() {
        return Err(BuildErr::FOptsWithPortZero);
    }
    encode_data_on_the_wire(d, nwk, app)
}

/// Like `encode_data`, but also encodes what a sender is told not to send and a receiver can still be
/// handed: FOpts together with a port-0 FRMPayload (the frame is well formed and its MIC verifies).
pub fn encode_data_on_the_wire(d: &DataDesc, nwk: &[u8; 16], app: &[u8; 16]) -> Result<Vec<u8>, BuildErr> {
    if d.f_opts.len() > 15 {
        return Err(BuildErr::FOptsTooLong);
    }
    if d.f_port.is_none() && !d.frm.is_empty() {
        return Err(BuildErr::PayloadWithoutPort);
    }
    let dir = if is_uplink_mtype(d.mtype) { 0 } else { 1 };
    let mut out = Vec::with_capacity(13 + d.f_opts.len() + d.frm.len());
    out.push(d.mtype << 5);
    out.extend_from_slice(&d.dev_addr.to_le_bytes());
    out.push(fctrl_byte(d));
    out.extend_from_slice(&(d.fcnt as u16).to_le_bytes());
    out.extend_from_slice(&d.f_opts);
    if let Some(p) = d.f_port {
        out.push(p);
        let key = if p == 0 { nwk } else { app };
        out.extend_from_slice(&crypt_frm(key, dir, d.dev_addr, d.fcnt, &d.frm));
    }
    let mic = data_mic(nwk, &out, dir, d.dev_addr, d.fcnt);
    out.extend_from_slice(&mic);
    Ok(out)
}

#[derive(Clone, Copy, Debug, PartialEq, Eq)]
pub enum StructErr {
    Empty,
    Major,
    MType,       // RFU / proprietary
    BadLength,   // join frames of the wrong size, data frame shorter than 12
    FOptsOverrun,
}

/// The structural view of a data frame (nothing decrypted, nothing authenticated).
#[derive(Clone, Debug, PartialEq, Eq)]
pub struct DataView {
    pub mtype: u8,
    pub dev_addr: u32,
    pub fctrl: u8,
    pub fcnt16: u16,
    pub f_opts: Vec<u8>,
    pub f_port: Option<u8>,
    pub frm: Vec<u8>, // as on the wire
    pub mic: [u8; 4],
}

impl DataView {
    pub fn uplink(&self) -> bool {
        is_uplink_mtype(self.mtype)
    }
    pub fn dir(&self) -> u8 {
        if self.uplink() { 0 } else { 1 }
    }
    pub fn adr(&self) -> bool {
        self.fctrl & 0x80 != 0
    }
    pub fn adr_ack_req(&self) -> bool {
        self.uplink() && self.fctrl & 0x40 != 0
    }
    pub fn ack(&self) -> bool {
        self.fctrl & 0x20 != 0
    }
    pub fn f_pending(&self) -> bool {
        !self.uplink() && self.fctrl & 0x10 != 0
    }
    pub fn confirmed(&self) -> bool {
        self.mtype == MT_CONF_UP || self.mtype == MT_CONF_DOWN
    }
}

#[derive(Clone, Debug, PartialEq, Eq)]
pub enum Frame {
    JoinRequest { join_eui: [u8; 8], dev_eui: [u8; 8], dev_nonce: u16, mic: [u8; 4] },
    JoinAccept, // opaque until decrypted
    Data(DataView),
}

/// Strict structural decoder for any PHYPayload.
pub fn classify(bytes: &[u8]) -> Result<Frame, StructErr> {
    if bytes.is_empty() {
        return Err(StructErr::Empty);
    }
    let mhdr = bytes[0];
    if mhdr & 0x03 != 0 {
        return Err(StructErr::Major);
    }
    match mhdr >> 5 {
        0 => {
            if bytes.len() != 23 {
                return Err(StructErr::BadLength);
            }
            Ok(Frame::JoinRequest {
                join_eui: bytes[1..9].try_into().unwrap(),
                dev_eui: bytes[9..17].try_into().unwrap(),
                dev_nonce: u16::from_le_bytes([bytes[17], bytes[18]]),
                mic: bytes[19..23].try_into().unwrap(),
            })
        }
        1 => {
            if bytes.len() != 17 && bytes.len() != 33 {
                return Err(StructErr::BadLength);
            }
            Ok(Frame::JoinAccept)
        }
        2..=5 => decode_data(bytes).map(Frame::Data),
        _ => Err(StructErr::MType),
    }
}

pub fn decode_data(bytes: &[u8]) -> Result<DataView, StructErr> {
    if bytes.is_empty() {
        return Err(StructErr::Empty);
    }
    if bytes.len() < 12 {
        return Err(StructErr::BadLength);
    }
    let mhdr = bytes[0];
    if mhdr & 3 != 0 {
        return Err(StructErr::Major);
    }
    let mtype = mhdr >> 5;
    if !(2..=5).contains(&mtype) {
        return Err(StructErr::MType);
    }
    let fol = (bytes[5] & 0x0f) as usize;
    let body_end = bytes.len() - 4;
    if 8 + fol > body_end {
        return Err(StructErr::FOptsOverrun);
    }
    let rest = &bytes[8 + fol..body_end];
    let (f_port, frm) = if rest.is_empty() { (None, vec![]) } else { (Some(rest[0]), rest[1..].to_vec()) };
    Ok(DataView {
        mtype,
        dev_addr: u32::from_le_bytes(bytes[1..5].try_into().unwrap()),
        fctrl: bytes[5],
        fcnt16: u16::from_le_bytes([bytes[6], bytes[7]]),
        f_opts: bytes[8..8 + fol].to_vec(),
        f_port,
        frm,
        mic: bytes[body_end..].try_into().unwrap(),
    })
}

/// MIC check of a wire data frame under the full counter `fcnt` (frame's own direction).
pub fn verify_data_mic(bytes: &[u8], nwk: &[u8; 16], fcnt: u32) -> Option<bool> {
    let v = decode_data(bytes).ok()?;
    let m = data_mic(nwk, &bytes[..bytes.len() - 4], v.dir(), v.dev_addr, fcnt);
    Some(m == v.mic)
}

/// Plaintext of the FRMPayload under the full counter `fcnt`.
pub fn decrypt_data(v: &DataView, nwk: &[u8; 16], app: &[u8; 16], fcnt: u32) -> Vec<u8> {
    match v.f_port {
        None => vec![],
        Some(0) => crypt_frm(nwk, v.dir(), v.dev_addr, fcnt, &v.frm),
        Some(_) => crypt_frm(app, v.dir(), v.dev_addr, fcnt, &v.frm),
    }
}

// ---- join ---------------------------------------------------------------------------------

pub fn join_mic(app_key: &[u8; 16], msg: &[u8]) -> [u8; 4] {
    let t = Aes128::new(app_key).cmac(msg);
    [t[0], t[1], t[2], t[3]]
}

/// JoinRequest: EUIs given in wire order (LSB first).
pub fn encode_join_request(app_key: &[u8; 16], join_eui_wire: &[u8; 8], dev_eui_wire: &[u8; 8], dev_nonce: u16) -> Vec<u8> {
    let mut out = vec![0x00];
    out.extend_from_slice(join_eui_wire);
    out.extend_from_slice(dev_eui_wire);
    out.extend_from_slice(&dev_nonce.to_le_bytes());
    let mic = join_mic(app_key, &out);
    out.extend_from_slice(&mic);
    out
}

#[derive(Clone, Debug, PartialEq, Eq)]
pub struct JoinAcceptDesc {
    pub join_nonce: u32, // 24 bit
    pub net_id: u32,     // 24 bit
    pub dev_addr: u32,
    pub dl_settings: u8,
    pub rx_delay: u8,
    pub cf_list: Option<[u8; 16]>,
}

impl JoinAcceptDesc {
    pub fn body(&self) -> Vec<u8> {
        let mut b = Vec::with_capacity(28);
        b.extend_from_slice(&self.join_nonce.to_le_bytes()[..3]);
        b.extend_from_slice(&self.net_id.to_le_bytes()[..3]);
        b.extend_from_slice(&self.dev_addr.to_le_bytes());
        b.push(self.dl_settings);
        b.push(self.rx_delay);
        if let Some(c) = &self.cf_list {
            b.extend_from_slice(c);
        }
        b
    }
}

pub fn encode_join_accept(app_key: &[u8; 16], d: &JoinAcceptDesc) -> Vec<u8> {
    encode_join_accept_mhdr(app_key, d, 0x20)
}

/// The same with an arbitrary MHDR octet (RFU / Major bits set): the MIC covers the MHDR as sent.
pub fn encode_join_accept_mhdr(app_key: &[u8; 16], d: &JoinAcceptDesc, mhdr: u8) -> Vec<u8> {
    let mut clear = vec![mhdr];
    clear.extend_from_slice(&d.body());
    let mic = join_mic(app_key, &clear);
    clear.extend_from_slice(&mic);
    let a = Aes128::new(app_key);
    let mut out = vec![mhdr];
    for c in clear[1..].chunks(16) {
        out.extend_from_slice(&a.decrypt(c.try_into().unwrap()));
    }
    out
}

/// Device-side view of a received JoinAccept: returns (clear frame incl. MHDR and MIC, mic ok).
pub fn open_join_accept(app_key: &[u8; 16], wire: &[u8]) -> Option<(Vec<u8>, bool)> {
    if wire.len() != 17 && wire.len() != 33 {
        return None;
    }
    if wire[0] & 3 != 0 || wire[0] >> 5 != 1 {
        return None;
    }
    let a = Aes128::new(app_key);
    let mut clear = vec![wire[0]];
    for c in wire[1..].chunks(16) {
        clear.extend_from_slice(&a.encrypt(c.try_into().unwrap()));
    }
    let n = clear.len();
    let ok = join_mic(app_key, &clear[..n - 4]) == clear[n - 4..];
    Some((clear, ok))
}

pub fn parse_join_accept_clear(clear: &[u8]) -> JoinAcceptDesc {
    JoinAcceptDesc {
        join_nonce: u32::from_le_bytes([clear[1], clear[2], clear[3], 0]),
        net_id: u32::from_le_bytes([clear[4], clear[5], clear[6], 0]),
        dev_addr: u32::from_le_bytes(clear[7..11].try_into().unwrap()),
        dl_settings: clear[11],
        rx_delay: clear[12],
        cf_list: if clear.len() == 33 { Some(clear[13..29].try_into().unwrap()) } else { None },
    }
}

/// (NwkSKey, AppSKey)
pub fn derive_session_keys(app_key: &[u8; 16], join_nonce: u32, net_id: u32, dev_nonce: u16) -> ([u8; 16], [u8; 16]) {
    let a = Aes128::new(app_key);
    let mut blk = [0u8; 16];
    blk[1..4].copy_from_slice(&join_nonce.to_le_bytes()[..3]);
    blk[4..7].copy_from_slice(&net_id.to_le_bytes()[..3]);
    blk[7..9].copy_from_slice(&dev_nonce.to_le_bytes());
    blk[0] = 0x01;
    let nwk = a.encrypt(&blk);
    blk[0] = 0x02;
    let app = a.encrypt(&blk);
    (nwk, app)
}

/// Self test with the public third-party vector (brocaar/lorawan, also quoted in LoRaWAN
/// tutorials): "hello" on port 1, DevAddr 01020304, FCnt 1, NwkSKey 02.., AppSKey 01...
pub fn self_test() -> Result<(), String> {
    crate::aes::self_test()?;
    let d = DataDesc {
        mtype: MT_UNCONF_UP,
        dev_addr: 0x01020304,
        adr: true,
        adr_ack_req: false,
        ack: false,
        f_pending: false,
        fcnt: 1,
        f_opts: vec![],
        f_port: Some(1),
        frm: b"hello".to_vec(),
    };
    let w = encode_data(&d, &[2; 16], &[1; 16]).map_err(|e| format!("{:?}", e))?;
    let exp = crate::aes::unhex("40 04030201 80 0100 01 a6946426 15d6c3b582");
    if w != exp {
        return Err(format!("LoRaWAN vector mismatch: {}", crate::aes::hex(&w)));
    }
    let v = decode_data(&w).map_err(|e| format!("{:?}", e))?;
    if verify_data_mic(&w, &[2; 16], 1) != Some(true) || decrypt_data(&v, &[2; 16], &[1; 16], 1) != b"hello" {
        return Err("LoRaWAN vector decode".into());
    }
    // join accept wrap/unwrap consistency and a derivation sanity check
    let ja = JoinAcceptDesc { join_nonce: 0x030201, net_id: 0x060504, dev_addr: 0x0a090807, dl_settings: 0x12, rx_delay: 3, cf_list: None };
    let w = encode_join_accept(&[7; 16], &ja);
    let (clear, ok) = open_join_accept(&[7; 16], &w).ok_or("ja open")?;
    if !ok || parse_join_accept_clear(&clear) != ja {
        return Err("join accept wrap".into());
    }
    Ok(())
}
