//! C20 — a persisted session restores losslessly and never rewinds counters
//! (crash-point enumeration: snapshot/restore at every step of every history).

use crate::net::*;
use crate::regions::{self, Reg};
use crate::sim::*;
use lrv_core::*;
use serde_json::Value as J;

pub struct C20;

impl Monitor for C20 {
    fn prop(&self) -> &'static str {
        "C20"
    }
    fn scalable(&self, g: &str) -> bool {
        let _ = g;
        true
    }
    fn gens(&self, tier: Tier) -> Vec<Gen> {
        vec![gen("histories", tier.pick(2_000, 1_000_000, 4)), gen("malformed", tier.pick(400, 200_000, 2))]
    }
    fn rule(&self) -> String {
        "histories: a device runs a history of 4-12 transactions (MAC downlinks filling the pending answers to 0..15 bytes, confirmed downlinks, silent uplinks, rejected frames, Class C downlinks) from chosen counters (0, 0xFFFF, 0x10000, 2^32-2, None) and ADR counters (0, 63, 64, 95, 96); after EVERY step the session is serialised with serde_json, deserialised, re-serialised (must be identical text) and installed in a second device (nb: set_session in place, set_session on a device object that lived through a session with other keys, and fresh device; async: new_with_session) which then runs the rest of the history plus a tail of 3 uplinks and a batch of fresh/replayed/stale downlinks in lock-step with the original: uplink bytes, responses, delivered payloads and the serialised session after every step must be identical. malformed: structural mutations of a valid document (drop/duplicate/rename field, wrong type, short/long arrays, pending_len 0..255, numbers at the u8/u16/u32 limits +-1, nesting, truncation at every byte, well-typed fields in combinations no history produces): from_str must fail or yield a session on which a fixed operation battery never unwinds. Class = (session-state class at snapshot, mutation class, verdict).".into()
    }
    fn assumptions(&self) -> Vec<String> {
        vec![
            "MAC configuration (data rate, ADR enable, RX parameters) is not part of the persisted session; the application restores the data rate it had (set_datarate) and leaves the rest at defaults, so only uplink bytes, responses, payloads and the session document are compared, not radio configurations".into(),
            "histories contain no LinkADRReq (it would change unpersisted configuration that influences the ADRACKReq bit)".into(),
        ]
    }
    fn required_events(&self, tier: Tier) -> Vec<&'static str> {
        if tier == Tier::Sanitizer {
            vec!["restores_compared"]
        } else {
            vec!["restores_compared", "pending_full_15", "pending_empty", "pending_partial", "ack_owed_at_snapshot", "fcnt_down_none_at_snapshot", "counter_at_16bit_boundary", "adr_cnt_ge_64", "malformed_rejected", "malformed_accepted_battery_ok", "steps_compared", "restored_over_another_session", "mid_transaction_snapshots", "positional_restores_compared", "cbor_restores_compared"]
        }
    }

    fn run_case(&self, g: &str, idx: u64, rng: &mut Prng, col: &mut Collector) {
        let front = FRONTS[(idx % 3) as usize];
        let reg = regions::ALL[((idx / 3) % 9) as usize];
        match g {
            "histories" => history_case(front, reg, rng, col),
            _ => malformed_case(front, reg, idx, rng, col),
        }
    }
}

#[derive(Clone)]
struct Step {
    data: Vec<u8>,
    port: u8,
    confirmed: bool,
    script: Script,
    note: &'static str,
}

#[derive(Clone, PartialEq, Debug)]
struct Obs {
    resp: Resp,
    tx: Vec<Vec<u8>>,
    downlinks: Vec<(u8, Vec<u8>)>,
    session: Option<String>,
    /// the session's derived Debug form
    debug: Option<String>,
    /// accessor view: (fcnt_up, fcnt_down incl. the None / Some(0) distinction)
    counters: (Option<u32>, Option<Option<u32>>),
}

fn run_steps(dev: &mut Dev, steps: &[Step]) -> Vec<Obs> {
    let mut mid = vec![];
    run_steps_mid(dev, steps, &mut mid)
}

/// `mid` collects what the application read of the session in the middle of transactions.
fn run_steps_mid(dev: &mut Dev, steps: &[Step], mid: &mut Vec<String>) -> Vec<Obs> {
    let mut out = vec![];
    for st in steps {
        let ev0 = dev.ev_len();
        let resp = dev.transact(Action::Send { data: &st.data, port: st.port, confirmed: st.confirmed }, &st.script);
        mid.extend(dev.window_notes.iter().filter(|n| n.starts_with("snap@")).cloned());
        let tx: Vec<Vec<u8>> = dev.tx_since(ev0).into_iter().filter_map(|e| if let Ev::Tx { bytes, .. } = e { Some(bytes) } else { None }).collect();
        let downlinks = dev.take_downlinks();
        let session = dev.session_json().map(|j| serde_json::to_string(&j).unwrap());
        let debug = dev.session_debug();
        let stop = matches!(resp, Resp::Panic(..));
        let counters = (dev.fcnt_up(), dev.fcnt_down());
        out.push(Obs { resp, tx, downlinks, session, debug, counters });
        if stop {
            break;
        }
    }
    out
}

fn state_class(j: &J) -> String {
    let pl = j["uplink"]["pending_len"].as_u64().unwrap_or(99);
    let up = j["fcnt_up"].as_u64().unwrap_or(0);
    let down = &j["fcnt_down"];
    let adr = j["adr_ack_cnt"].as_u64().unwrap_or(0);
    format!(
        "pend={}|ack={}|up={}|down={}|adr={}",
        match pl {
            0 => "0",
            15 => "15",
            1..=7 => "1-7",
            _ => "8-14",
        },
        j["uplink"]["confirmed"].as_bool().unwrap_or(false),
        match up {
            0 => "0",
            0xFFFE..=0x1_0001 => "16bit-edge",
            0xFFFF_FFF0..=0xFFFF_FFFF => "max",
            _ => "mid",
        },
        if down.is_null() { "none".to_string() } else { (if down.as_u64().unwrap_or(0) & 0xFFFF >= 0xFFF0 { "edge" } else { "mid" }).to_string() },
        match adr {
            0 => "0",
            1..=63 => "<64",
            64..=95 => "64-95",
            _ => ">=96",
        }
    )
}

fn history_case(front: Front, reg: Reg, rng: &mut Prng, col: &mut Collector) {
    let seed = rng.next_u64();
    let start_up = *rng.pick(&[0u32, 0, 0xFFFE, 0xFFFF, 0x1_0000, 0xFFFF_FFF0, 77]);
    let start_down: Option<u32> = *rng.pick(&[None, None, Some(0), Some(0xFFFE), Some(0xFFFF), Some(0x1_0000), Some(0xFFFF_FFF0), Some(300)]);
    // (also long silences: connectivity counts at and beyond the 16-bit limit)
    let start_adr = *rng.pick(&[0u32, 0, 62, 63, 64, 94, 95, 96, 127, 65_534, 65_535, 65_536, 70_000, 1_000_000]);
    let dr = *rng.pick(&crate::c12::uplink_drs(reg));
    // one session in twelve has a key of sixteen equal octets (all 0x00 or all 0xFF: any sixteen octets are a key)
    let blank: Option<(bool, bool, u8)> = if rng.chance(1, 12) { Some((rng.bool(), rng.bool(), if rng.bool() { 0x00 } else { 0xFF })) } else { None };
    let blank = blank.map(|(n, a, f)| if !n && !a { (true, false, f) } else { (n, a, f) });
    let set_keys = move |sj: &mut J| {
        if let Some((n, a, f)) = blank {
            if n {
                sj["nwkskey"] = json!(vec![f; 16]);
            }
            if a {
                sj["appskey"] = json!(vec![f; 16]);
            }
        }
    };
    let fix_net = move |net: &mut Net| {
        if let Some((n, a, f)) = blank {
            if n {
                net.nwk = [f; 16];
            }
            if a {
                net.app = [f; 16];
            }
        }
    };
    let mk = |r: &mut Prng| -> Option<(Dev, Net)> {
        let opts = DevOpts { rng_seed: Some(seed), ..Default::default() };
        abp_dev(front, reg, r, &opts, |sj| {
            sj["fcnt_up"] = json!(start_up);
            // "no downlink yet" keeps whatever representation the crate itself produced for it
            if let Some(d) = start_down {
                sj["fcnt_down"] = json!(d);
            }
            sj["adr_ack_cnt"] = json!(start_adr);
            set_keys(sj);
        })
        .ok()
        .map(|(d, mut n)| {
            fix_net(&mut n);
            (d, n)
        })
    };
    if blank.is_some() {
        col.event("sessions_with_blank_keys");
    }
    let mut r0 = Prng::new(seed);
    let Some((mut a, net)) = mk(&mut r0) else {
        if blank.is_some() {
            // the counters aside: does a session with such a key come back at all?
            let opts = DevOpts { rng_seed: Some(seed), ..Default::default() };
            let keyed: Result<(Dev, Net), String> = abp_dev(front, reg, &mut Prng::new(seed), &opts, |sj| set_keys(sj));
            if let Err(e) = keyed {
                let plain_ok = abp_dev::<20, 0>(front, reg, &mut Prng::new(seed), &opts, |_| {}).is_ok();
                if plain_ok {
                    col.violation("C20|restore-fails|key-of-equal-octets", "a session whose key consists of sixteen equal octets, in the crate's own serialised form, does not deserialise", json!({"front": front.name(), "region": reg.name(), "keys": format!("{:?}", blank), "error": e}));
                    return;
                }
            }
        }
        // is it the harness' edit of the counters, or does not even the crate's own document of a
        // freshly activated session come back?
        let opts = DevOpts { rng_seed: Some(seed), ..Default::default() };
        let plain: Result<(Dev, Net), String> = abp_dev(front, reg, &mut Prng::new(seed), &opts, |_| {});
        match plain {
            Err(e) => col.violation("C20|restore-fails|fresh-abp-session", "the session of a freshly activated device, serialised by the crate, does not deserialise", json!({"front": front.name(), "region": reg.name(), "error": e})),
            Ok(_) => col.event("harness_session_json_rejected"),
        }
        return;
    };
    a.set_datarate(dr);
    // ---- steps (concrete frames; the network's counters are fixed in advance) --------------------------
    let mut fdown: u32 = start_down.map(|d| d.saturating_add(1)).unwrap_or(0);
    let n = rng.range(4, 12);
    let mut steps: Vec<Step> = vec![];
    for _ in 0..n {
        let kind = rng.below(9);
        let mut script = Script::silent();
        let mut note = "silent";
        let data = rng.bytes_below(6);
        let port = rng.range(1, 200) as u8;
        match kind {
            0 | 1 => {
                // MAC downlink filling the pending answers: k x DevStatusReq (3 bytes each) and/or
                // sticky RXTimingSetupReq (1 byte answers)
                let k = rng.range(1, 6);
                let mut cmds = vec![];
                for _ in 0..k {
                    if rng.bool() {
                        cmds.extend(dev_status_req());
                    } else {
                        cmds.extend(rx_timing_setup_req(rng.below(16) as u8));
                    }
                }
                // one time in three the frame ends with a request the device has to refuse in every respect
                // (DlChannelReq for a channel that does not exist, on a frequency nobody has): its answer,
                // the last octet of the queue, is 0x00 - queued answers may end in any octet
                if rng.chance(1, 3) {
                    cmds.extend(dl_channel_req(15, 1_000_000));
                }
                script.rx1.push(net.mac_downlink(fdown, &cmds, rng.bool()));
                fdown = fdown.saturating_add(1);
                note = "mac-downlink";
            }
            2 => {
                script.rx2.push(net.downlink(&Down { fcnt: fdown, confirmed: true, port: Some(3), payload: &[1, 2, 3], ..Default::default() }));
                fdown = fdown.saturating_add(1);
                note = "confirmed-downlink";
            }
            3 => {
                script.rx1.push(net.downlink(&Down { fcnt: fdown, port: Some(4), payload: &rng.bytes_below(9), ..Default::default() }));
                fdown = fdown.saturating_add(1);
                note = "downlink";
            }
            4 => {
                let mut f = net.downlink(&Down { fcnt: fdown, port: Some(4), payload: &[9], ..Default::default() });
                let l = f.len();
                f[l - 1] ^= 1;
                script.rx1.push(f);
                note = "bad-mic";
            }
            5 => {
                if front == Front::AsyncC {
                    script.pre_rx1.push(net.downlink(&Down { fcnt: fdown, confirmed: rng.bool(), port: Some(6), payload: &[6], ..Default::default() }));
                    fdown = fdown.saturating_add(1);
                    note = "classc-downlink";
                }
            }
            7 => {
                // fill the pending answers to the brim with sticky ones (15 x RXTimingSetupAns)
                let k = *rng.pick(&[13u32, 14, 15, 15, 16]);
                let mut cmds = vec![];
                for _ in 0..k {
                    cmds.extend(rx_timing_setup_req(rng.below(16) as u8));
                }
                script.rx1.push(net.mac_downlink(fdown, &cmds, false));
                fdown = fdown.saturating_add(1);
                note = "mac-downlink-full";
            }
            6 => {
                // big jump of the downlink counter (crosses 16-bit epochs)
                let j = *rng.pick(&[1u32, 2, 16_383, 16_384, 0x100]);
                fdown = fdown.saturating_add(j - 1);
                script.rx1.push(net.downlink(&Down { fcnt: fdown, port: Some(4), payload: &[7], ..Default::default() }));
                fdown = fdown.saturating_add(1);
                note = "downlink-jump";
            }
            _ => {}
        }
        // (state-machine front-end: the application may read the session while the transaction runs)
        let mut script = script;
        if front == Front::Nb && rng.bool() {
            script.intrude.push((rng.range(1, 6) as u32, Intrusion::SessionSnapshot));
        }
        steps.push(Step { data, port: if rng.chance(1, 8) { 0 } else { port }, confirmed: rng.chance(1, 4), script, note });
        // port 0 uplinks must carry no application payload
        if steps.last().unwrap().port == 0 {
            steps.last_mut().unwrap().data.clear();
        }
    }
    // tail: three uplinks, then a batch of downlink verdicts: replay of the last, a stale one, a fresh one
    for _ in 0..2 {
        steps.push(Step { data: vec![0xAA], port: 9, confirmed: false, script: Script::silent(), note: "tail" });
    }
    let first_again = net.downlink(&Down { fcnt: start_down.map(|d| d.saturating_add(1)).unwrap_or(0), port: Some(5), payload: &[4], ..Default::default() });
    steps.push(Step { data: vec![0xA9], port: 9, confirmed: false, script: Script::rx2(first_again), note: "tail-first-again" });
    let replay = net.downlink(&Down { fcnt: fdown.saturating_sub(1), port: Some(5), payload: &[5], confirmed: true, ..Default::default() });
    steps.push(Step { data: vec![0xAB], port: 9, confirmed: false, script: Script::rx1(replay), note: "tail-replay" });
    let stale = net.downlink(&Down { fcnt: fdown.saturating_sub(3), port: Some(5), payload: &[5], ..Default::default() });
    steps.push(Step { data: vec![0xAC], port: 9, confirmed: false, script: Script::rx2(stale), note: "tail-stale" });
    let fresh = net.downlink(&Down { fcnt: fdown, port: Some(5), payload: &[8, 8], confirmed: true, ..Default::default() });
    steps.push(Step { data: vec![0xAD], port: 9, confirmed: false, script: Script::rx1(fresh), note: "tail-fresh" });
    steps.push(Step { data: vec![0xAE], port: 9, confirmed: true, script: Script::silent(), note: "tail" });

    // ---- the original's run, with the session document after every step -------------------------------
    let j0 = a.session_json().map(|j| serde_json::to_string(&j).unwrap());
    let d0 = a.session_debug();
    let c0 = (a.fcnt_up(), a.fcnt_down());
    let mut mid: Vec<String> = vec![];
    let obs_a = run_steps_mid(&mut a, &steps, &mut mid);
    // "at any point of any history": what was read in the middle of a transaction is a session of
    // the same keys and address that deserialises
    for m in &mid {
        col.event("mid_transaction_snapshots");
        let body = m.splitn(2, ':').nth(1).unwrap_or("");
        let ok = serde_json::from_str::<lorawan_device::mac::Session>(body).is_ok();
        if !ok {
            col.violation(
                &format!("C20|no-session-mid-transaction|{}", if body == "NONE" { "none" } else { "unusable" }),
                "in the middle of a transaction the device has no session to persist (or one that does not round-trip)",
                json!({"front": front.name(), "region": reg.name(), "read": body}),
            );
            break;
        }
    }
    if let Some(Obs { resp: Resp::Panic(m, l), .. }) = obs_a.last() {
        col.violation(&format!("C20|panic|original|{}", short_loc(l)), "the original device panicked during the history", json!({"msg": m, "loc": l, "steps": steps.iter().map(|s| s.note).collect::<Vec<_>>()}));
        return;
    }
    // snapshots: before step 0 and after every step
    let mut docs: Vec<Option<String>> = vec![j0];
    docs.extend(obs_a.iter().map(|o| o.session.clone()));
    let mut debugs: Vec<Option<String>> = vec![d0];
    debugs.extend(obs_a.iter().map(|o| o.debug.clone()));
    let mut counters_at: Vec<(Option<u32>, Option<Option<u32>>)> = vec![c0];
    counters_at.extend(obs_a.iter().map(|o| o.counters));
    let notes: Vec<&str> = steps.iter().map(|s| s.note).collect();
    for k in 0..steps.len() {
        let Some(doc) = &docs[k] else { continue };
        let jv: J = serde_json::from_str(doc).unwrap();
        let sc = state_class(&jv);
        col.eval(&format!("{}|{}|{}", front.name(), sc, if k == 0 { "start" } else { notes[k - 1] }));
        col.event("restores_compared");
        match jv["uplink"]["pending_len"].as_u64() {
            Some(0) => col.event("pending_empty"),
            Some(15) => col.event("pending_full_15"),
            _ => col.event("pending_partial"),
        }
        if jv["uplink"]["confirmed"].as_bool() == Some(true) {
            col.event("ack_owed_at_snapshot");
        }
        if jv["fcnt_down"].is_null() {
            col.event("fcnt_down_none_at_snapshot");
        }
        let up = jv["fcnt_up"].as_u64().unwrap_or(0);
        if (0xFFFF..=0x1_0000).contains(&up) || jv["fcnt_down"].as_u64().map(|d| (0xFFFF..=0x1_0000).contains(&d)).unwrap_or(false) {
            col.event("counter_at_16bit_boundary");
        }
        if jv["adr_ack_cnt"].as_u64().unwrap_or(0) >= 64 {
            col.event("adr_cnt_ge_64");
        }
        let ctx = |what: &str, extra: J| json!({"what": what, "front": front.name(), "region": reg.name(), "snapshot_after_step": k, "steps": notes, "document": doc, "state_class": sc, "extra": extra});
        // ---- (1) text round trip ---------------------------------------------------------------------
        let restored: lorawan_device::mac::Session = match serde_json::from_str(doc) {
            Ok(s) => s,
            Err(e) => {
                col.violation(&format!("C20|restore-fails|{}", sc.split('|').next().unwrap_or("")), "a serialised session does not deserialise", ctx("from_str", json!(e.to_string())));
                continue;
            }
        };
        // equal in every field, also one a serialised form might not carry: the derived Debug forms
        // of the original's session and of the restored one are the same text
        if let Some(dbg) = &debugs[k] {
            let got = format!("{:?}", restored);
            if &got != dbg {
                col.violation(
                    &format!("C20|restored-field-differs|debug-form|{}", sc.split('|').next().unwrap_or("")),
                    "the restored session is not equal to the original in every field (their Debug forms differ)",
                    ctx("debug", json!({"original": dbg, "restored": got})),
                );
            }
        }
        // ---- (1b) the same document through a positional format -------------------------------------
        // compact formats an embedded application persists with hand a struct's fields over as a
        // sequence in declaration order, without names (seqform.rs): the session must come back from
        // that as well, equal in every field
        match trap(|| crate::seqform::from_value::<lorawan_device::mac::Session>(&jv)) {
            Err(t) => {
                col.violation(&format!("C20|restore-panics|positional-format|{}", short_loc(&t.loc)), "deserialising a serialised session from a positional format panicked", ctx("positional", json!({"msg": t.msg, "loc": t.loc})));
            }
            Ok(Err(e)) => {
                col.violation(
                    "C20|restore-fails|positional-format",
                    "a serialised session does not deserialise from a format that hands structs over as sequences of their fields (postcard, bincode, ...)",
                    ctx("positional", json!(e.to_string())),
                );
            }
            Ok(Ok(r2)) => {
                col.event("positional_restores_compared");
                if let Some(dbg) = &debugs[k] {
                    let got = format!("{:?}", r2);
                    if &got != dbg {
                        col.violation(
                            &format!("C20|restored-field-differs|positional-format|{}", sc.split('|').next().unwrap_or("")),
                            "the session restored from a positional format is not equal to the original in every field (their Debug forms differ)",
                            ctx("positional-debug", json!({"original": dbg, "restored": got})),
                        );
                    }
                }
            }
        }
        // ---- (1c) ... and through a binary self-describing format (CBOR) -------------------------------
        let cbor = trap(|| {
            let mut bytes: Vec<u8> = Vec::new();
            ciborium::into_writer(&restored, &mut bytes).map_err(|e| format!("write: {}", e))?;
            let back: lorawan_device::mac::Session = ciborium::from_reader(bytes.as_slice()).map_err(|e| format!("read: {}", e))?;
            Ok::<_, String>((bytes.len(), back))
        });
        match cbor {
            Err(t) => col.violation(&format!("C20|restore-panics|cbor|{}", short_loc(&t.loc)), "a CBOR round trip of a session panicked", ctx("cbor", json!({"msg": t.msg, "loc": t.loc}))),
            Ok(Err(e)) => col.violation("C20|restore-fails|cbor", "a session written as CBOR does not read back", ctx("cbor", json!(e))),
            Ok(Ok((_, r3))) => {
                col.event("cbor_restores_compared");
                if let Some(dbg) = &debugs[k] {
                    let got = format!("{:?}", r3);
                    if &got != dbg {
                        col.violation(
                            &format!("C20|restored-field-differs|cbor|{}", sc.split('|').next().unwrap_or("")),
                            "the session restored from CBOR is not equal to the original in every field (their Debug forms differ)",
                            ctx("cbor-debug", json!({"original": dbg, "restored": got})),
                        );
                    }
                }
            }
        }
        // (compared as JSON values: the harness' own document went through serde_json::Value,
        // which orders keys alphabetically)
        let again = serde_json::to_string(&restored).unwrap();
        let j2: J = serde_json::from_str(&again).unwrap();
        if j2 != jv {
            // which field?
            let mut field = "?".to_string();
            if let (Some(o1), Some(o2)) = (jv.as_object(), j2.as_object()) {
                for (k1, v1) in o1 {
                    if o2.get(k1) != Some(v1) {
                        field = k1.clone();
                        break;
                    }
                }
            }
            col.violation(&format!("C20|roundtrip-differs|{}", field), "serialise -> deserialise -> serialise does not give the same document", ctx("roundtrip", json!({"again": again})));
            continue;
        }
        // ---- (2) restored twin(s) run the rest of the history -----------------------------------------
        let variants: &[&str] = if front == Front::Nb { &["fresh", "in-place", "in-place-after-other-session", "in-place-after-unanswered-join"] } else { &["fresh"] };
        for variant in variants {
            let mut rb = Prng::new(seed);
            let mut b: Dev = if *variant == "fresh" {
                let opts = DevOpts { rng_seed: Some(seed), ..Default::default() };
                let creds = default_creds(&mut rb);
                Dev::new_with_session(front, reg, creds, &opts, restored.clone())
            } else if *variant == "in-place-after-other-session" {
                // a device object that has lived through another session (other keys, one uplink built,
                // one downlink checked) before the persisted one is installed in it
                let opts = DevOpts { rng_seed: Some(seed), ..Default::default() };
                let creds = default_creds(&mut rb);
                let mut b2: Dev = Dev::new(front, reg, creds, &opts);
                // (half of the time under the same device address, as after a re-activation, and further
                // along in its uplink counter than the persisted session)
                let other = Net { nwk: rb.arr(), app: rb.arr(), addr: if rb.bool() { net.addr } else { rb.next_u32() } };
                b2.join_abp(other.nwk, other.app, other.addr);
                if let (Some(mut oj), Some(up)) = (b2.session_json(), counters_at[k].0) {
                    if up < 0xFFFF_FF00 {
                        oj["fcnt_up"] = json!(up + 1 + rb.below(40) as u32);
                        let _ = b2.set_session_json(&oj);
                    }
                }
                let f = other.downlink(&Down { fcnt: 1, port: Some(3), payload: &[1, 2], ..Default::default() });
                let _ = b2.transact(Action::Send { data: &[7], port: 2, confirmed: false }, &Script::rx1(f));
                let _ = b2.take_downlinks();
                if b2.set_session_json(&jv).is_err() {
                    continue;
                }
                col.event("restored_over_another_session");
                b2
            } else if *variant == "in-place-after-unanswered-join" {
                // a device object whose last act was a join attempt nobody answered: the persisted session
                // is installed in it all the same
                let opts = DevOpts { rng_seed: Some(seed), ..Default::default() };
                let creds = default_creds(&mut rb);
                let mut b2: Dev = Dev::new(front, reg, creds, &opts);
                let _ = b2.transact(Action::Join, &Script::silent());
                if b2.set_session_json(&jv).is_err() {
                    continue;
                }
                b2.set_datarate(dr);
                col.event("restored_after_an_unanswered_join");
                b2
            } else {
                // a second original brought to the same point, then the session replaced in place
                let Some((mut b2, _)) = mk(&mut rb) else { continue };
                b2.set_datarate(dr);
                let _ = run_steps(&mut b2, &steps[..k]);
                if b2.set_session_json(&jv).is_err() {
                    continue;
                }
                b2
            };
            // field equality through the accessors (None vs Some(0) must be distinguished)
            let got = (b.fcnt_up(), b.fcnt_down());
            if got != counters_at[k] {
                col.violation(
                    &format!("C20|restored-field-differs|{}|{}", if got.0 != counters_at[k].0 { "fcnt_up" } else { "fcnt_down" }, if counters_at[k].1 == Some(Some(0)) { "Some(0)" } else if counters_at[k].1 == Some(None) { "None" } else { "other" }),
                    "a field of the restored session differs from the original's",
                    ctx("field", json!({"variant": variant, "original": format!("{:?}", counters_at[k]), "restored": format!("{:?}", got)})),
                );
                break;
            }
            // the application restores the data rate it had
            let a_dr_at_k = {
                // re-run a shadow of A up to k to read its data rate (A itself has moved on)
                let mut rs = Prng::new(seed);
                match mk(&mut rs) {
                    Some((mut s, _)) => {
                        s.set_datarate(dr);
                        let _ = run_steps(&mut s, &steps[..k]);
                        s.snapshot().data_rate
                    }
                    None => dr,
                }
            };
            b.set_datarate(a_dr_at_k);
            let obs_b = run_steps(&mut b, &steps[k..]);
            for (i, ob) in obs_b.iter().enumerate() {
                col.event("steps_compared");
                let oa = &obs_a[k + i];
                if let Resp::Panic(m, l) = &ob.resp {
                    col.violation(&format!("C20|panic|restored|{}", short_loc(l)), "the restored device panicked", ctx("panic", json!({"msg": m, "loc": l, "variant": variant, "step": k + i})));
                    break;
                }
                if oa != ob {
                    let what = if oa.tx != ob.tx {
                        let (x, y) = (oa.tx.first(), ob.tx.first());
                        match (x, y) {
                            (Some(x), Some(y)) if x.len() != y.len() => "uplink-length",
                            (Some(x), Some(y)) if x.get(6..8) != y.get(6..8) => "uplink-fcnt",
                            (Some(x), Some(y)) if x.get(5) != y.get(5) => "uplink-fctrl",
                            _ => "uplink-bytes",
                        }
                    } else if oa.resp != ob.resp {
                        "downlink-verdict"
                    } else if oa.downlinks != ob.downlinks {
                        "delivered-payload"
                    } else {
                        "session-document"
                    };
                    col.violation(
                        &format!("C20|restored-behaves-differently|{}|{}|{}", what, variant, sc.split('|').next().unwrap_or("")),
                        "a device restored from the persisted session does not behave like the original",
                        ctx("diverge", json!({"variant": variant, "step": k + i, "step_note": notes[k + i], "original": format!("{:?}", oa), "restored": format!("{:?}", ob)})),
                    );
                    break;
                }
            }
        }
        if col.want_sample() && k == 2 {
            col.sample(json!({"front": front.name(), "region": reg.name(), "steps": notes, "snapshot_after_step": k, "document": doc}));
        }
    }
}

// ---- malformed documents --------------------------------------------------------------------------------

fn mutate(doc: &str, kind: u64, rng: &mut Prng) -> (String, &'static str) {
    let mut v: J = serde_json::from_str(doc).unwrap();
    let fields = ["uplink", "confirmed", "nwkskey", "appskey", "devaddr", "fcnt_up", "fcnt_down", "adr_ack_cnt"];
    match kind {
        0 => {
            let f = *rng.pick(&fields);
            v.as_object_mut().unwrap().remove(f);
            (v.to_string(), "drop-field")
        }
        1 => {
            // duplicate a field textually
            let f = *rng.pick(&fields);
            let val = v[f].to_string();
            let s = v.to_string();
            (format!("{},\"{}\":{}}}", &s[..s.len() - 1], f, val), "duplicate-field")
        }
        2 => {
            let f = *rng.pick(&fields);
            // (a field the document does not have is simply added under the misspelt name)
            let val = v.as_object_mut().unwrap().remove(f).unwrap_or(json!(0));
            v[format!("{}x", f)] = val;
            (v.to_string(), "rename-field")
        }
        3 => {
            let f = *rng.pick(&fields);
            v[f] = match rng.below(6) {
                0 => json!("text"),
                1 => json!(null),
                2 => json!(-1),
                3 => json!(1.5),
                4 => json!([1, 2, 3]),
                _ => json!({"a": 1}),
            };
            (v.to_string(), "wrong-type")
        }
        4 => {
            // arrays short / long
            let f = *rng.pick(&["nwkskey", "appskey", "devaddr"]);
            let n = rng.below(40) as usize;
            v[f] = json!(vec![7u8; n]);
            (v.to_string(), "array-length")
        }
        5 => {
            let n = rng.below(256);
            v["uplink"]["pending_len"] = json!(n);
            (v.to_string(), "pending-len")
        }
        6 => {
            let n = rng.below(40) as usize;
            v["uplink"]["pending_data"] = json!((0..n).map(|_| rng.u8()).collect::<Vec<u8>>());
            (v.to_string(), "pending-data-length")
        }
        7 => {
            let f = *rng.pick(&["fcnt_up", "fcnt_down", "adr_ack_cnt"]);
            v[f] = json!(*rng.pick(&[255i64, 256, 65535, 65536, 4294967295, 4294967296, -1, 0]));
            (v.to_string(), "number-limit")
        }
        8 => {
            // full pending buffer of arbitrary bytes (unknown CIDs, truncated commands)
            v["uplink"]["pending_len"] = json!(rng.below(16));
            v["uplink"]["pending_data"] = json!((0..15).map(|_| rng.u8()).collect::<Vec<u8>>());
            (v.to_string(), "pending-garbage")
        }
        9 => {
            let f = *rng.pick(&["uplink", "nwkskey"]);
            let inner = v[f].clone();
            v[f] = json!({ "x": inner });
            (v.to_string(), "nesting")
        }
        10 => {
            let s = v.to_string();
            let cut = rng.below(s.len() as u64) as usize;
            (s[..cut].to_string(), "truncation")
        }
        12 => {
            // every field well-typed and plausible on its own; the combination is one no history of
            // the stack produces (an owed ACK without any downlink, counters at their ends, ...)
            v["uplink"]["confirmed"] = json!(rng.bool());
            v["fcnt_down"] = if rng.bool() { json!(null) } else { json!(*rng.pick(&[0u32, 1, 0xFFFF, 0xFFFF_FFFF])) };
            v["fcnt_up"] = json!(*rng.pick(&[0u32, 1, 0xFFFF, 0x1_0000, 0xFFFF_FFFE, 0xFFFF_FFFF]));
            v["adr_ack_cnt"] = json!(*rng.pick(&[0u32, 63, 64, 96, 4_000_000_000]));
            (v.to_string(), "cross-field")
        }
        _ => {
            // element values out of u8 range
            v["nwkskey"] = json!([256, 1, 2, 3, 4, 5, 6, 7, 8, 9, 10, 11, 12, 13, 14, 15]);
            (v.to_string(), "element-range")
        }
    }
}

fn malformed_case(front: Front, reg: Reg, idx: u64, rng: &mut Prng, col: &mut Collector) {
    let opts = DevOpts { rng_seed: Some(rng.next_u64()), ..Default::default() };
    let (mut dev, net): (Dev, Net) = match abp_dev(front, reg, rng, &opts, |_| {}) {
        Ok(x) => x,
        Err(e) => {
            col.violation("C20|restore-fails|fresh-abp-session", "the session of a freshly activated device, serialised by the crate, does not deserialise", json!({"front": front.name(), "region": reg.name(), "error": e}));
            return;
        }
    };
    // reach a non-trivial valid document first
    let cmds = [dev_status_req(), rx_timing_setup_req(3)].concat();
    let f = net.mac_downlink(1, &cmds, true);
    let _ = dev.transact(Action::Send { data: &[1], port: 1, confirmed: false }, &Script::rx1(f));
    let doc = serde_json::to_string(&dev.session_json().unwrap()).unwrap();
    let per_case = col.tier.pick(120, 120, 12);
    for m in 0..per_case {
        let kind = (idx + m) % 13;
        let (text, class) = mutate(&doc, kind, rng);
        // the same malformed document as a format that does not describe itself hands it over: the
        // fields in declaration order, as a sequence (seqform.rs) - failing is fine, unwinding is not
        if let Ok(v) = serde_json::from_str::<serde_json::Value>(&text) {
            match trap(|| crate::seqform::from_value::<lorawan_device::mac::Session>(&v)) {
                Err(t) if t.loc.contains("lrv-") || t.loc.starts_with("/verif/") => col.event("malformed_positional_view_not_applicable"),
                Err(t) => {
                    col.violation(&format!("C20|malformed|positional-panic|{}|{}", class, short_loc(&t.loc)), "deserialising a malformed document from a positional format panicked", json!({"document": text, "msg": t.msg, "loc": t.loc}));
                }
                Ok(Err(_)) => col.event("malformed_positional_rejected"),
                Ok(Ok(_)) => col.event("malformed_positional_accepted"),
            }
        }
        let parsed = trap(|| serde_json::from_str::<lorawan_device::mac::Session>(&text));
        match parsed {
            Err(t) => {
                col.violation(&format!("C20|malformed|from_str-panic|{}|{}", class, short_loc(&t.loc)), "deserialising a malformed document panicked", json!({"document": text, "msg": t.msg, "loc": t.loc}));
            }
            Ok(Err(_)) => {
                col.event("malformed_rejected");
                col.eval(&format!("malformed|{}|rejected", class));
            }
            Ok(Ok(session)) => {
                // accepted: every operation must stay panic-free
                let creds = default_creds(rng);
                let mut b: Dev = Dev::new_with_session(front, reg, creds, &opts, session);
                let keys = b.session_keys();
                let mut ok = true;
                for i in 0..5 {
                    let mut script = Script::silent();
                    if let Some((nk, ak, addr)) = keys {
                        let n2 = Net { nwk: nk, app: ak, addr };
                        let fd = b.fcnt_down().flatten().map(|d| d.saturating_add(1)).unwrap_or(0);
                        match i {
                            1 => script.rx1.push(n2.mac_downlink(fd, &dev_status_req(), true)),
                            2 => script.rx2.push(rng.bytes(20)),
                            3 => script.rx1.push(n2.downlink(&Down { fcnt: fd, confirmed: true, port: Some(2), payload: &[1], ..Default::default() })),
                            _ => {}
                        }
                    }
                    let payload = [i as u8];
                    let (data, port): (&[u8], u8) = if i == 4 { (&[], 0) } else { (&payload, 1) };
                    let r = b.transact(Action::Send { data, port, confirmed: i == 2 }, &script);
                    if let Resp::Panic(msg, loc) = &r {
                        col.violation(&format!("C20|malformed|accepted-then-panic|{}|{}", class, short_loc(loc)), "a document accepted by from_str yields a session on which an operation panics", json!({"document": text, "msg": msg, "loc": loc, "operation": i}));
                        ok = false;
                        break;
                    }
                    let s2 = trap(|| b.session_json().map(|j| j.to_string()));
                    if let Err(t) = s2 {
                        col.violation(&format!("C20|malformed|serialise-panic|{}", class), "serialising the session panicked", json!({"document": text, "msg": t.msg}));
                        ok = false;
                        break;
                    }
                }
                if ok {
                    col.event("malformed_accepted_battery_ok");
                    col.eval(&format!("malformed|{}|accepted", class));
                }
            }
        }
    }
    if col.want_sample() {
        col.sample(json!({"valid_document": doc}));
    }
}
