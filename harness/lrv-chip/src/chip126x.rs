//! Behavioural SPI-level model of the SX1261/SX1262, written from the data sheet
//! (DS.SX1261-2.W.APP rev 2.x, chapters 8 "Digital interface", 9 "Operational modes",
//! 13 "Commands", 15 "Known limitations"). Opcodes and register addresses below are this
//! file's own constants; nothing is shared with the driver under test.
//!
//! Modelled: command decoding, 256-byte circular data buffer with TX/RX base addresses, IRQ
//! status / enable mask / DIO1..3 masks, the mode machine, the BUSY line, loss of configuration
//! on NRESET and on cold sleep, retention on warm sleep, "the first access to a sleeping chip
//! only wakes it", scripted outcome of the next TX/RX/CAD, hostile RX buffer status and packet
//! status bytes, and a transcript of every transaction.

use crate::bus::*;
use std::collections::VecDeque;

// ---- command set (data sheet table 11-1 .. 11-5) --------------------------------------------
pub const SET_SLEEP: u8 = 0x84;
pub const SET_STANDBY: u8 = 0x80;
pub const SET_FS: u8 = 0xC1;
pub const SET_TX: u8 = 0x83;
pub const SET_RX: u8 = 0x82;
pub const STOP_TIMER_ON_PREAMBLE: u8 = 0x9F;
pub const SET_RX_DUTY_CYCLE: u8 = 0x94;
pub const SET_CAD: u8 = 0xC5;
pub const SET_TX_CONTINUOUS_WAVE: u8 = 0xD1;
pub const SET_TX_INFINITE_PREAMBLE: u8 = 0xD2;
pub const SET_REGULATOR_MODE: u8 = 0x96;
pub const CALIBRATE: u8 = 0x89;
pub const CALIBRATE_IMAGE: u8 = 0x98;
pub const SET_PA_CONFIG: u8 = 0x95;
pub const SET_RX_TX_FALLBACK_MODE: u8 = 0x93;
pub const WRITE_REGISTER: u8 = 0x0D;
pub const READ_REGISTER: u8 = 0x1D;
pub const WRITE_BUFFER: u8 = 0x0E;
pub const READ_BUFFER: u8 = 0x1E;
pub const SET_DIO_IRQ_PARAMS: u8 = 0x08;
pub const GET_IRQ_STATUS: u8 = 0x12;
pub const CLEAR_IRQ_STATUS: u8 = 0x02;
pub const SET_DIO2_AS_RF_SWITCH_CTRL: u8 = 0x9D;
pub const SET_DIO3_AS_TCXO_CTRL: u8 = 0x97;
pub const SET_RF_FREQUENCY: u8 = 0x86;
pub const SET_PACKET_TYPE: u8 = 0x8A;
pub const GET_PACKET_TYPE: u8 = 0x11;
pub const SET_TX_PARAMS: u8 = 0x8E;
pub const SET_MODULATION_PARAMS: u8 = 0x8B;
pub const SET_PACKET_PARAMS: u8 = 0x8C;
pub const SET_CAD_PARAMS: u8 = 0x88;
pub const SET_BUFFER_BASE_ADDRESS: u8 = 0x8F;
pub const SET_LORA_SYMB_NUM_TIMEOUT: u8 = 0xA0;
pub const GET_STATUS: u8 = 0xC0;
pub const GET_RSSI_INST: u8 = 0x15;
pub const GET_RX_BUFFER_STATUS: u8 = 0x13;
pub const GET_PACKET_STATUS: u8 = 0x14;
pub const GET_DEVICE_ERRORS: u8 = 0x17;
pub const CLEAR_DEVICE_ERRORS: u8 = 0x07;
pub const GET_STATS: u8 = 0x10;
pub const RESET_STATS: u8 = 0x00;

// ---- IRQ bits (table 13-29) -----------------------------------------------------------------
pub const IRQ_TX_DONE: u16 = 1 << 0;
pub const IRQ_RX_DONE: u16 = 1 << 1;
pub const IRQ_PREAMBLE_DETECTED: u16 = 1 << 2;
pub const IRQ_SYNC_WORD_VALID: u16 = 1 << 3;
pub const IRQ_HEADER_VALID: u16 = 1 << 4;
pub const IRQ_HEADER_ERR: u16 = 1 << 5;
pub const IRQ_CRC_ERR: u16 = 1 << 6;
pub const IRQ_CAD_DONE: u16 = 1 << 7;
pub const IRQ_CAD_DETECTED: u16 = 1 << 8;
pub const IRQ_TIMEOUT: u16 = 1 << 9;

// ---- registers (table 12-1) -----------------------------------------------------------------
pub const REG_LORA_SYNC_WORD_MSB: u16 = 0x0740;
pub const REG_LORA_SYNC_WORD_LSB: u16 = 0x0741;
pub const REG_PAYLOAD_LENGTH: u16 = 0x0702;
pub const REG_IQ_POLARITY: u16 = 0x0736;
pub const REG_TX_MODULATION: u16 = 0x0889;
pub const REG_RX_GAIN: u16 = 0x08AC;
pub const REG_TX_CLAMP_CONFIG: u16 = 0x08D8;
pub const REG_OCP: u16 = 0x08E7;
pub const REG_XTA_TRIM: u16 = 0x0911;
pub const REG_XTB_TRIM: u16 = 0x0912;

pub const PACKET_TYPE_GFSK: u8 = 0;
pub const PACKET_TYPE_LORA: u8 = 1;

const NREGS: usize = 0x1000;

pub struct Chip126x {
    pub mode: Mode,
    /// meaningful while asleep: configuration retained
    pub sleep_warm: bool,
    pub rx_continuous: bool,
    /// SetRxDutyCycle is running: between its listening windows the chip sleeps (with retention),
    /// and the model is adversarial about it: the rig decides when the host finds it in the sleep
    /// phase (see `duty_asleep_next`)
    pub rx_duty: bool,
    /// one-shot, armed by the rig at the start of an API call that begins a new activity: the next
    /// transaction finds a duty-cycling chip in its sleep phase (time has passed since it started)
    pub duty_asleep_next: bool,
    pub buf: [u8; 256],
    pub tx_base: u8,
    pub rx_base: u8,
    /// PayloadLengthRx / RxStartBufferPointer returned by GetRxBufferStatus
    pub rx_len: u8,
    pub rx_start: u8,
    /// RssiPkt, SnrPkt, SignalRssiPkt
    pub pkt_status: [u8; 3],
    pub rssi_inst: u8,
    pub irq: u16,
    pub irq_mask: u16,
    pub dio_mask: [u16; 3],
    regs: Vec<u8>,
    sync_written: u8,
    /// items programmed since the last loss of configuration (bus::item bits)
    pub prog: u16,
    pub packet_type: u8,
    pub freq_word: u32,
    pub mod_params: [u8; 4],
    pub pkt_params: [u8; 6],
    pub symb_timeout: u8,
    pub fallback_mode: Mode,
    pub device_errors: u16,
    busy_left: u32,
    pub busy_per_cmd: u32,
    /// outcome of the next operations, one entry per TX/RX/CAD start
    pub script: VecDeque<Vec<Ev>>,
    /// used when the script is empty
    pub default_outcome: Vec<Ev>,
    pending: VecDeque<Ev>,
    pub op: Option<OpKind>,
    pulse: bool,
    /// Model time stands still between GetIrqStatus and the next other command, so that no
    /// interrupt is raised in the window in which a "read, then clear all" driver would lose it.
    pub irq_safe: bool,
    hold: bool,
    cmd_status: u8,
    /// status byte forced onto GetRxBufferStatus / GetPacketStatus / GetRssiInst answers
    pub status_override: Option<u8>,
    /// (PayloadLengthRx, RxStartBufferPointer) forced at the next RxDone
    pub report_override: Option<(u8, u8)>,
    /// packet written into the data buffer at the RX base address on the next RxDone
    pub next_packet: Option<Vec<u8>>,
    pub transcript: Vec<Txn>,
    pub alarms: Vec<Alarm>,
    pub op_starts: Vec<OpStart>,
    pub tx_payloads: Vec<Vec<u8>>,
    pub unknown_opcodes: u32,
    /// number of configuration losses (reset, cold sleep)
    pub losses: u32,
    /// what caused the last loss of configuration
    pub last_loss: &'static str,
    pub keep_transcript: bool,
}

impl Chip126x {
    /// A chip as it is after power-on reset.
    pub fn new() -> Self {
        let mut c = Chip126x {
            mode: Mode::Stdby,
            sleep_warm: false,
            rx_continuous: false,
            rx_duty: false,
            duty_asleep_next: false,
            buf: [0; 256],
            tx_base: 0,
            rx_base: 0,
            rx_len: 0,
            rx_start: 0,
            pkt_status: [0; 3],
            rssi_inst: 0,
            irq: 0,
            irq_mask: 0,
            dio_mask: [0; 3],
            regs: vec![0; NREGS],
            sync_written: 0,
            prog: 0,
            packet_type: PACKET_TYPE_GFSK,
            freq_word: 0,
            mod_params: [0; 4],
            pkt_params: [0; 6],
            symb_timeout: 0,
            fallback_mode: Mode::Stdby,
            device_errors: 0,
            busy_left: 0,
            busy_per_cmd: 1,
            script: VecDeque::new(),
            default_outcome: vec![ev(EvKind::Done, 2)],
            pending: VecDeque::new(),
            op: None,
            pulse: false,
            irq_safe: true,
            hold: false,
            cmd_status: 1,
            status_override: None,
            report_override: None,
            next_packet: None,
            transcript: Vec::new(),
            alarms: Vec::new(),
            op_starts: Vec::new(),
            tx_payloads: Vec::new(),
            unknown_opcodes: 0,
            losses: 0,
            last_loss: "power-on",
            keep_transcript: true,
        };
        c.lose_configuration();
        c.losses = 0;
        c
    }

    /// Everything the data sheet says is gone after NRESET or a cold-start sleep.
    fn lose_configuration(&mut self) {
        self.losses += 1;
        self.prog = 0;
        self.sync_written = 0;
        for r in self.regs.iter_mut() {
            *r = 0;
        }
        // reset values of the documented registers (table 12-1)
        self.regs[REG_LORA_SYNC_WORD_MSB as usize] = 0x14;
        self.regs[REG_LORA_SYNC_WORD_LSB as usize] = 0x24;
        self.regs[REG_IQ_POLARITY as usize] = 0x0D;
        self.regs[REG_TX_MODULATION as usize] = 0x01;
        self.regs[REG_RX_GAIN as usize] = 0x94;
        self.regs[REG_TX_CLAMP_CONFIG as usize] = 0xC8;
        self.regs[REG_OCP as usize] = 0x18;
        self.regs[REG_XTA_TRIM as usize] = 0x05;
        self.regs[REG_XTB_TRIM as usize] = 0x05;
        self.packet_type = PACKET_TYPE_GFSK;
        self.freq_word = 0;
        self.mod_params = [0; 4];
        self.pkt_params = [0; 6];
        self.symb_timeout = 0;
        self.tx_base = 0;
        self.rx_base = 0;
        self.rx_len = 0;
        self.rx_start = 0;
        self.irq = 0;
        self.irq_mask = 0;
        self.dio_mask = [0; 3];
        self.fallback_mode = Mode::Stdby;
        self.device_errors = 0;
    }

    fn clear_data_buffer(&mut self) {
        self.buf = [0; 256];
    }

    fn abort_op(&mut self) {
        self.op = None;
        self.pending.clear();
        self.rx_duty = false;
    }

    pub fn reg(&self, addr: u16) -> u8 {
        self.regs[addr as usize % NREGS]
    }

    fn write_reg(&mut self, addr: u16, v: u8) {
        self.regs[addr as usize % NREGS] = v;
        if addr == REG_LORA_SYNC_WORD_MSB {
            self.sync_written |= 1;
        }
        if addr == REG_LORA_SYNC_WORD_LSB {
            self.sync_written |= 2;
        }
        if self.sync_written == 3 {
            self.prog |= item::SYNC;
        }
    }

    fn status(&self) -> u8 {
        let m = match self.mode {
            Mode::Sleep => 0,
            Mode::Stdby => 2,
            Mode::StdbyXosc => 3,
            Mode::Fs => 4,
            Mode::Rx | Mode::Cad => 5,
            Mode::Tx => 6,
        };
        (m << 4) | (self.cmd_status << 1)
    }

    fn raise(&mut self, bits: u16) {
        self.irq |= bits & self.irq_mask;
    }

    fn start_op(&mut self, kind: OpKind) {
        self.abort_op();
        let missing = item::ALL & !self.prog;
        let sync = (self.reg(REG_LORA_SYNC_WORD_MSB) as u16) << 8 | self.reg(REG_LORA_SYNC_WORD_LSB) as u16;
        self.op_starts.push(OpStart { kind, from: self.mode, missing, txn: self.transcript.len(), sync });
        let outcome = self.script.pop_front().unwrap_or_else(|| self.default_outcome.clone());
        self.pending = outcome.into();
        self.op = Some(kind);
        self.mode = match kind {
            OpKind::Tx => Mode::Tx,
            OpKind::Rx => Mode::Rx,
            OpKind::Cad => Mode::Cad,
        };
        self.cmd_status = 1;
        self.fire_due();
    }

    fn fire_due(&mut self) {
        while let Some(f) = self.pending.front().copied() {
            if f.after != 0 || self.op.is_none() {
                break;
            }
            self.pending.pop_front();
            self.fire(f.kind);
        }
    }

    fn fire(&mut self, kind: EvKind) {
        let Some(op) = self.op else { return };
        match (op, kind) {
            (_, EvKind::Spurious) => self.pulse = true,
            (OpKind::Tx, EvKind::Done) => {
                let n = self.pkt_params[3] as usize;
                let p: Vec<u8> = (0..n).map(|i| self.buf[(self.tx_base as usize + i) & 0xFF]).collect();
                self.tx_payloads.push(p);
                self.raise(IRQ_TX_DONE);
                self.mode = self.fallback_mode;
                self.cmd_status = 6;
                self.abort_op();
            }
            (OpKind::Tx, EvKind::Timeout) => {
                self.raise(IRQ_TIMEOUT);
                self.mode = Mode::Stdby;
                self.abort_op();
            }
            (OpKind::Tx, _) => {}
            (OpKind::Rx, EvKind::Done) | (OpKind::Rx, EvKind::CrcError) => {
                let explicit = self.pkt_params[2] == 0;
                if let Some(p) = self.next_packet.take() {
                    for (i, b) in p.iter().enumerate() {
                        self.buf[(self.rx_base as usize + i) & 0xFF] = *b;
                    }
                    self.rx_start = self.rx_base;
                    self.rx_len = p.len().min(255) as u8;
                }
                if let Some((l, s)) = self.report_override {
                    self.rx_len = l;
                    self.rx_start = s;
                }
                let mut bits = IRQ_PREAMBLE_DETECTED | IRQ_RX_DONE;
                if explicit {
                    bits |= IRQ_HEADER_VALID;
                }
                if kind == EvKind::CrcError {
                    bits |= IRQ_CRC_ERR;
                }
                self.raise(bits);
                self.cmd_status = 2;
                if !self.rx_continuous {
                    self.mode = self.fallback_mode;
                    self.abort_op();
                }
            }
            (OpKind::Rx, EvKind::HeaderError) => self.raise(IRQ_PREAMBLE_DETECTED | IRQ_HEADER_ERR),
            (OpKind::Rx, EvKind::Preamble) => self.raise(IRQ_PREAMBLE_DETECTED | IRQ_HEADER_VALID),
            (OpKind::Rx, EvKind::Timeout) => {
                if !self.rx_continuous {
                    self.raise(IRQ_TIMEOUT);
                    self.mode = Mode::Stdby;
                    self.abort_op();
                }
            }
            (OpKind::Rx, EvKind::DoneDetected) => {}
            (OpKind::Cad, EvKind::Done) | (OpKind::Cad, EvKind::DoneDetected) => {
                self.raise(if kind == EvKind::DoneDetected { IRQ_CAD_DONE | IRQ_CAD_DETECTED } else { IRQ_CAD_DONE });
                self.mode = Mode::Stdby;
                self.abort_op();
            }
            (OpKind::Cad, _) => {}
        }
    }

    fn exec(&mut self, mosi: &[u8], miso: &mut [u8]) -> &'static str {
        let g = |i: usize| mosi.get(i).copied().unwrap_or(0);
        let st = self.status();
        let mut put = |i: usize, v: u8| {
            if let Some(m) = miso.get_mut(i) {
                *m = v;
            }
        };
        let op = mosi[0];
        self.hold = self.irq_safe && op == GET_IRQ_STATUS;
        match op {
            GET_STATUS => put(1, st),
            SET_SLEEP => {
                let warm = g(1) & 0x04 != 0;
                self.abort_op();
                self.mode = Mode::Sleep;
                self.sleep_warm = warm;
                if !warm {
                    self.lose_configuration();
                    self.last_loss = "cold-sleep";
                }
                // the data buffer is not retained in sleep mode, warm or cold
                self.clear_data_buffer();
                return if warm { "sleep(warm)" } else { "sleep(cold)" };
            }
            SET_STANDBY => {
                self.abort_op();
                self.mode = if g(1) & 1 == 1 { Mode::StdbyXosc } else { Mode::Stdby };
            }
            SET_FS => {
                self.abort_op();
                self.mode = Mode::Fs;
            }
            SET_TX => {
                self.start_op(OpKind::Tx);
                return "TX-START";
            }
            SET_TX_CONTINUOUS_WAVE | SET_TX_INFINITE_PREAMBLE => {
                self.abort_op();
                self.mode = Mode::Tx;
            }
            SET_RX => {
                let t = (g(1) as u32) << 16 | (g(2) as u32) << 8 | g(3) as u32;
                self.rx_continuous = t == 0xFF_FFFF;
                self.start_op(OpKind::Rx);
                return "RX-START";
            }
            SET_RX_DUTY_CYCLE => {
                self.rx_continuous = false;
                self.start_op(OpKind::Rx);
                self.rx_duty = true;
                return "RX-START(duty)";
            }
            SET_CAD => {
                self.start_op(OpKind::Cad);
                return "CAD-START";
            }
            STOP_TIMER_ON_PREAMBLE => {}
            SET_REGULATOR_MODE => self.prog |= item::REGULATOR,
            CALIBRATE => self.busy_left += 2,
            CALIBRATE_IMAGE => self.busy_left += 2,
            SET_PA_CONFIG => self.prog |= item::PA,
            SET_RX_TX_FALLBACK_MODE => {
                self.fallback_mode = match g(1) {
                    0x40 => Mode::Fs,
                    0x30 => Mode::StdbyXosc,
                    _ => Mode::Stdby,
                }
            }
            WRITE_REGISTER => {
                let a = (g(1) as u16) << 8 | g(2) as u16;
                for (i, b) in mosi.iter().enumerate().skip(3) {
                    self.write_reg(a.wrapping_add(i as u16 - 3), *b);
                }
            }
            READ_REGISTER => {
                let a = (g(1) as u16) << 8 | g(2) as u16;
                put(3, st);
                for i in 4..mosi.len() {
                    let v = self.reg(a.wrapping_add(i as u16 - 4));
                    put(i, v);
                }
            }
            WRITE_BUFFER => {
                let off = g(1) as usize;
                for (i, b) in mosi.iter().enumerate().skip(2) {
                    self.buf[(off + i - 2) & 0xFF] = *b;
                }
            }
            READ_BUFFER => {
                let off = g(1) as usize;
                put(2, st);
                for i in 3..mosi.len() {
                    let v = self.buf[(off + i - 3) & 0xFF];
                    put(i, v);
                }
            }
            SET_DIO_IRQ_PARAMS => {
                let w = |i: usize| (g(i) as u16) << 8 | g(i + 1) as u16;
                self.irq_mask = w(1);
                self.dio_mask = [w(3), w(5), w(7)];
                // flags that are no longer enabled do not stay latched on a DIO
                self.prog |= item::IRQ;
            }
            GET_IRQ_STATUS => {
                put(1, st);
                put(2, (self.irq >> 8) as u8);
                put(3, self.irq as u8);
            }
            CLEAR_IRQ_STATUS => {
                let m = (g(1) as u16) << 8 | g(2) as u16;
                self.irq &= !m;
            }
            SET_DIO2_AS_RF_SWITCH_CTRL => {}
            SET_DIO3_AS_TCXO_CTRL => self.prog |= item::TCXO,
            SET_RF_FREQUENCY => {
                self.freq_word = (g(1) as u32) << 24 | (g(2) as u32) << 16 | (g(3) as u32) << 8 | g(4) as u32;
                self.prog |= item::FREQ;
            }
            SET_PACKET_TYPE => {
                let t = g(1);
                if t != self.packet_type {
                    // "the parameters from the previous mode are not kept internally"
                    self.prog &= !(item::MODULATION | item::PKT_PARAMS);
                }
                self.packet_type = t;
                self.prog |= item::PKT_TYPE;
            }
            GET_PACKET_TYPE => {
                put(1, st);
                put(2, self.packet_type);
            }
            SET_TX_PARAMS => {}
            SET_MODULATION_PARAMS => {
                self.mod_params = [g(1), g(2), g(3), g(4)];
                self.prog |= item::MODULATION;
            }
            SET_PACKET_PARAMS => {
                self.pkt_params = [g(1), g(2), g(3), g(4), g(5), g(6)];
                self.regs[REG_PAYLOAD_LENGTH as usize] = g(4);
                self.prog |= item::PKT_PARAMS;
            }
            SET_CAD_PARAMS => {}
            SET_BUFFER_BASE_ADDRESS => {
                self.tx_base = g(1);
                self.rx_base = g(2);
                self.prog |= item::BUF_BASE;
            }
            SET_LORA_SYMB_NUM_TIMEOUT => self.symb_timeout = g(1),
            GET_RSSI_INST => {
                put(1, self.status_override.unwrap_or(st));
                put(2, self.rssi_inst);
            }
            GET_RX_BUFFER_STATUS => {
                put(1, self.status_override.unwrap_or(st));
                put(2, self.rx_len);
                put(3, self.rx_start);
            }
            GET_PACKET_STATUS => {
                put(1, self.status_override.unwrap_or(st));
                put(2, self.pkt_status[0]);
                put(3, self.pkt_status[1]);
                put(4, self.pkt_status[2]);
            }
            GET_DEVICE_ERRORS => {
                put(1, st);
                put(2, (self.device_errors >> 8) as u8);
                put(3, self.device_errors as u8);
            }
            CLEAR_DEVICE_ERRORS => {
                put(1, st);
                self.device_errors = 0;
            }
            GET_STATS => put(1, st),
            RESET_STATS => {}
            _ => {
                self.unknown_opcodes += 1;
                return "UNKNOWN-OPCODE";
            }
        }
        ""
    }
}

impl ChipModel for Chip126x {
    fn spi(&mut self, mosi: &[u8]) -> Vec<u8> {
        let before = self.mode;
        let mut miso = vec![0u8; mosi.len()];
        let note;
        let duty_asleep = std::mem::replace(&mut self.duty_asleep_next, false);
        if duty_asleep && self.rx_duty && self.op.is_some() && self.mode == Mode::Rx {
            // sleep phase of the duty cycle: NSS wakes the chip into standby (the duty cycle ends);
            // the bytes clocked meanwhile are not a command
            let first = mosi.first().copied().unwrap_or(GET_STATUS);
            if first != GET_STATUS {
                self.alarms.push(Alarm::CommandWhileAsleep(first));
                note = "WAKE-UP from duty-cycle sleep (command lost)";
            } else {
                note = "WAKE-UP from duty-cycle sleep";
            }
            self.abort_op();
            self.mode = Mode::Stdby;
            self.cmd_status = 1;
        } else if self.mode == Mode::Sleep {
            // NSS going low wakes the chip; the bytes clocked meanwhile are not a command
            let first = mosi.first().copied().unwrap_or(GET_STATUS);
            if first != GET_STATUS {
                self.alarms.push(Alarm::CommandWhileAsleep(first));
                note = "WAKE-UP(command lost)";
            } else {
                note = "WAKE-UP";
            }
            self.mode = Mode::Stdby;
            self.cmd_status = 1;
        } else if mosi.is_empty() {
            note = "";
        } else {
            note = self.exec(mosi, &mut miso);
        }
        self.busy_left = self.busy_left.max(self.busy_per_cmd);
        if self.keep_transcript {
            self.transcript.push(Txn { mosi: mosi.to_vec(), miso: miso.clone(), before, after: self.mode, note });
        }
        miso
    }

    fn tick(&mut self) {
        if self.busy_left > 0 {
            self.busy_left -= 1;
        }
        if self.op.is_some() && !self.hold {
            if let Some(f) = self.pending.front_mut() {
                if f.after > 0 {
                    f.after -= 1;
                }
            }
            self.fire_due();
        }
    }

    fn busy(&self) -> bool {
        self.mode == Mode::Sleep || self.busy_left > 0
    }

    fn irq_line(&mut self) -> bool {
        self.hold = false;
        if self.pulse {
            self.pulse = false;
            return true;
        }
        self.irq & self.dio_mask[0] != 0
    }

    fn hard_reset(&mut self) {
        self.abort_op();
        self.lose_configuration();
        self.last_loss = "reset";
        self.clear_data_buffer();
        self.mode = Mode::Stdby;
        self.pulse = false;
        self.cmd_status = 1;
        self.busy_left = self.busy_per_cmd;
        if self.keep_transcript {
            self.transcript.push(Txn { mosi: vec![], miso: vec![], before: self.mode, after: Mode::Stdby, note: "NRESET" });
        }
    }

    fn mode(&self) -> Mode {
        self.mode
    }

    fn transcript(&self) -> &Vec<Txn> {
        &self.transcript
    }

    fn log_lost(&mut self, mosi: &[u8], note: &'static str) {
        if self.keep_transcript {
            self.transcript.push(Txn { mosi: mosi.to_vec(), miso: vec![], before: self.mode, after: self.mode, note });
        }
    }
}
