//! C14 — the PHY driver and the radio chip never disagree about the radio's state.
//!
//! Fault enumeration: every API sequence up to a depth bound x chip interrupt outcomes x one
//! fault at every SPI / BUSY / IRQ position x a drop at every await point of the droppable
//! waits, on emulated SX1261/62 and SX1276/72, directly on `lora_phy::LoRa` and through the
//! LoRaWAN adapter `LorawanRadio` in the call order `async_device` uses.
//!
//! Oracle = the four clauses of the statement, each judged where the bad state becomes
//! observable:
//!  (a) a call made in the wrong mode returns an error and adds nothing to the chip transcript;
//!  (b) no transaction other than the wake-up access reaches a sleeping chip, no TX/RX/CAD is
//!      started from sleep (flagged by the chip model);
//!  (c) at every TX/RX/CAD start each item that operation depends on has been programmed since
//!      the last reset / cold sleep (per-item bits kept by the chip model);
//!  (d) after tx/rx/complete_rx/cad (and the other calls that start an operation) returned an
//!      error or a time-out, the chip is in STDBY and the driver's mode is Standby (documented
//!      exception: errors while in continuous receive).

use crate::bus::*;
use crate::exec;
use crate::rig::*;
use lora_modulation::BaseBandModulationParams;
use lora_phy::lorawan_radio::LorawanRadio;
use lora_phy::mod_params::{Bandwidth, CodingRate, DutyCycleParams, ModulationParams, PacketParams, RadioError, RadioMode, RxMode, SpreadingFactor};
use lora_phy::mod_traits::RadioKind;
use lora_phy::LoRa;
use lorawan_device::async_device::radio::{PhyRxTx, RfConfig, RxConfig, RxMode as WanRxMode, RxStatus, TxConfig};
use lrv_core::*;

pub struct C14;

// ---- API alphabet ---------------------------------------------------------------------------

#[derive(Clone, Copy, Debug, PartialEq, Eq, Hash)]
enum Call {
    Init,
    SleepWarm,
    SleepCold,
    PrepTx,
    Tx,
    PrepRxSingle,
    PrepRxCont,
    PrepRxDuty,
    StartRx,
    CompleteRx,
    Rx,
    RxSwitch,
    Listen,
    PrepCad,
    Cad,
    SetSync,
    GetRssi,
    // only used by the drop generator (manual receive flow around the droppable wait)
    WaitIrq,
    WaitIrqCut(u32),
    ProcessIrq,
    GetRxResult,
}

const ALPHA: [Call; 17] = [
    Call::Init,
    Call::SleepWarm,
    Call::SleepCold,
    Call::PrepTx,
    Call::Tx,
    Call::PrepRxSingle,
    Call::PrepRxCont,
    Call::PrepRxDuty,
    Call::StartRx,
    Call::CompleteRx,
    Call::Rx,
    Call::RxSwitch,
    Call::Listen,
    Call::PrepCad,
    Call::Cad,
    Call::SetSync,
    Call::GetRssi,
];
const NA: u64 = ALPHA.len() as u64;

impl Call {
    fn name(self) -> String {
        match self {
            Call::Init => "init".into(),
            Call::SleepWarm => "sleep(warm)".into(),
            Call::SleepCold => "sleep(cold)".into(),
            Call::PrepTx => "prepare_for_tx".into(),
            Call::Tx => "tx".into(),
            Call::PrepRxSingle => "prepare_for_rx(single)".into(),
            Call::PrepRxCont => "prepare_for_rx(continuous)".into(),
            Call::PrepRxDuty => "prepare_for_rx(duty)".into(),
            Call::StartRx => "start_rx".into(),
            Call::CompleteRx => "complete_rx".into(),
            Call::Rx => "rx".into(),
            Call::RxSwitch => "rx_switch_channel".into(),
            Call::Listen => "listen".into(),
            Call::PrepCad => "prepare_for_cad".into(),
            Call::Cad => "cad".into(),
            Call::SetSync => "set_lora_sync_word".into(),
            Call::GetRssi => "get_rssi".into(),
            Call::WaitIrq => "wait_for_irq".into(),
            Call::WaitIrqCut(k) => format!("wait_for_irq[dropped after {} polls]", k),
            Call::ProcessIrq => "process_irq_event".into(),
            Call::GetRxResult => "get_rx_result".into(),
        }
    }
    /// short stable name for signatures
    fn api(self) -> &'static str {
        match self {
            Call::Init => "init",
            Call::SleepWarm | Call::SleepCold => "sleep",
            Call::PrepTx => "prepare_for_tx",
            Call::Tx => "tx",
            Call::PrepRxSingle | Call::PrepRxCont | Call::PrepRxDuty => "prepare_for_rx",
            Call::StartRx => "start_rx",
            Call::CompleteRx => "complete_rx",
            Call::Rx => "rx",
            Call::RxSwitch => "rx_switch_channel",
            Call::Listen => "listen",
            Call::PrepCad => "prepare_for_cad",
            Call::Cad => "cad",
            Call::SetSync => "set_lora_sync_word",
            Call::GetRssi => "get_rssi",
            Call::WaitIrq | Call::WaitIrqCut(_) => "wait_for_irq",
            Call::ProcessIrq => "process_irq_event",
            Call::GetRxResult => "get_rx_result",
        }
    }
    /// the driver mode a mode-guarded call requires (None: the call is legal in every mode)
    fn requires(self) -> Option<&'static str> {
        match self {
            Call::Tx => Some("Transmit"),
            Call::StartRx | Call::CompleteRx | Call::Rx | Call::RxSwitch | Call::GetRxResult => Some("Receive"),
            Call::Cad => Some("ChannelActivityDetection"),
            _ => None,
        }
    }
    /// calls after whose failure clause (d) is judged: they start and/or complete a TX/RX/CAD
    fn is_operation(self) -> bool {
        matches!(self, Call::Tx | Call::Rx | Call::CompleteRx | Call::Cad | Call::StartRx | Call::RxSwitch | Call::Listen)
    }
    /// part of the statement's own API alphabet
    fn in_statement(self) -> bool {
        !matches!(self, Call::GetRssi | Call::ProcessIrq | Call::GetRxResult)
    }
}

// ---- chip outcome profiles --------------------------------------------------------------------

#[derive(Clone, Copy, Debug, PartialEq, Eq, Hash)]
enum Profile {
    DoneSoon,
    DoneAtStart,
    DoneLate,
    TimeoutSoon,
    TimeoutLate,
    CrcError,
    HeaderError,
    SpuriousThenDoneSoon,
    SpuriousThenDoneLate,
}

const PROFILES: [Profile; 9] = [
    Profile::DoneSoon,
    Profile::DoneAtStart,
    Profile::DoneLate,
    Profile::TimeoutSoon,
    Profile::TimeoutLate,
    Profile::CrcError,
    Profile::HeaderError,
    Profile::SpuriousThenDoneSoon,
    Profile::SpuriousThenDoneLate,
];
const NP: u64 = PROFILES.len() as u64;

impl Profile {
    fn name(self) -> &'static str {
        match self {
            Profile::DoneSoon => "done@1",
            Profile::DoneAtStart => "done@0",
            Profile::DoneLate => "done@12",
            Profile::TimeoutSoon => "timeout@1",
            Profile::TimeoutLate => "timeout@12",
            Profile::CrcError => "crc-error@1",
            Profile::HeaderError => "header-error@1",
            Profile::SpuriousThenDoneSoon => "spurious,done+1",
            Profile::SpuriousThenDoneLate => "spurious x12,done+6",
        }
    }
    fn class(self) -> &'static str {
        match self {
            Profile::DoneSoon | Profile::DoneAtStart | Profile::DoneLate => "done",
            Profile::TimeoutSoon | Profile::TimeoutLate => "timeout",
            Profile::CrcError => "crc-error",
            Profile::HeaderError => "header-error",
            Profile::SpuriousThenDoneSoon | Profile::SpuriousThenDoneLate => "spurious",
        }
    }
    /// Chip events for an operation of the given kind. Latencies avoid the window between the
    /// driver's "read IRQ status" and "clear all IRQs" (an interrupt raised there is lost by the
    /// driver and the call never returns; that is recorded as an observation, not a clause).
    fn events(self, _is_126x: bool, _continuous: bool) -> Vec<Ev> {
        // a chip can not time out in continuous receive; SX127x has no TX time-out: the model
        // ignores such events, so give those operations a completion instead of nothing
        match self {
            Profile::DoneSoon => vec![ev(EvKind::Done, 1)],
            Profile::DoneAtStart => vec![ev(EvKind::Done, 0)],
            Profile::DoneLate => vec![ev(EvKind::Done, 12)],
            Profile::TimeoutSoon => vec![ev(EvKind::Timeout, 1), ev(EvKind::DoneDetected, 0), ev(EvKind::Done, 0)],
            Profile::TimeoutLate => vec![ev(EvKind::Timeout, 12), ev(EvKind::DoneDetected, 0), ev(EvKind::Done, 0)],
            Profile::CrcError => vec![ev(EvKind::CrcError, 1), ev(EvKind::Done, 0)],
            Profile::HeaderError => vec![ev(EvKind::HeaderError, 1), ev(EvKind::Timeout, 6), ev(EvKind::Done, 0)],
            Profile::SpuriousThenDoneSoon => vec![ev(EvKind::Spurious, 1), ev(EvKind::Done, 1)],
            // a burst of a dozen interrupts without any flag, then the completion: the operation is still
            // running all the while, and ends when it ends
            Profile::SpuriousThenDoneLate => {
                let mut v = vec![ev(EvKind::Spurious, 1); 12];
                v.push(ev(EvKind::Done, 6));
                v
            }
        }
    }
}

// ---- one run ----------------------------------------------------------------------------------

#[derive(Clone, Debug)]
enum Res {
    Ok,
    Err(String),
    Panic(String, String, String),
    NoReturn,
    Dropped,
}

impl Res {
    fn name(&self) -> String {
        match self {
            Res::Ok => "Ok".into(),
            Res::Err(e) => format!("Err({})", e),
            Res::Panic(m, l, _) => format!("panic({} at {})", m, l),
            Res::NoReturn => "no return within the poll budget".into(),
            Res::Dropped => "future dropped".into(),
        }
    }
    fn failed(&self) -> bool {
        matches!(self, Res::Err(_) | Res::Panic(..))
    }
}

#[derive(Clone)]
struct Plan {
    var: Var,
    calls: Vec<Call>,
    /// profile index offset: call j gets PROFILES[(ovar + j) % NP]
    ovar: u64,
    fault: Option<Fault>,
    /// probe suffix appended (prepare_for_tx, tx, prepare_for_rx, rx) to make bad state observable
    suffix: bool,
    /// per call of the fault-free run of the same plan: did it fail (chip outcome alone)?
    baseline_failed: Vec<bool>,
    /// the SPI transaction following the planned fault is lost too; only clauses (a) and (b) are
    /// judged then (after a double failure nothing can be demanded of the recovery's result)
    double: bool,
}

struct RunOut {
    /// one line per executed call (for the evidence samples)
    log: Vec<String>,
    /// per executed call: did it return an error / panic
    failed: Vec<bool>,
    n_spi: u32,
    n_busy: u32,
    n_irq: u32,
    /// index of the call during which the fault was delivered
    fault_call: Option<usize>,
    fault_cmd: u8,
}

struct Found {
    sig: String,
    what: String,
    detail: Value,
}

struct Driver<'a, RK: RadioKind, C: Probe> {
    var: Var,
    lora: LoRa<RK, Delay<C>>,
    bus: Bus<C>,
    mdl: ModulationParams,
    tx_pkt: PacketParams,
    rx_pkt: PacketParams,
    rxbuf: [u8; 255],
    /// how much of it the caller offers (one plan in five: less than the packets the chip delivers)
    rxlen: usize,
    col: &'a mut Collector,
    found: Vec<Found>,
    log: Vec<String>,
    /// configuration losses of the chip before the sequence started (construction resets once)
    losses_base: u32,
    /// an explicit init() has failed and no later init() has succeeded: the history class that
    /// goes into the signatures of clauses (b) and (c)
    failed_init: bool,
    baseline_failed: Vec<bool>,
    failed: Vec<bool>,
    /// what the chip's sync word registers held right after the last successful
    /// set_lora_sync_word, or by construction while it was never set (a failed attempt changes nothing)
    sync_expected: Option<u16>,
    /// the word set_lora_sync_word is called with in this plan
    sync_word: u16,
    /// configuration losses the chip had seen when set_lora_sync_word was last attempted
    sync_mark: u32,
}

impl<'a, RK: RadioKind, C: Probe> Driver<'a, RK, C> {
    fn mode(&self) -> RadioMode {
        self.lora.verif_radio_mode()
    }

    fn exec_raw(&mut self, call: Call) -> Res {
        let budget = exec::POLL_BUDGET;
        let lora = &mut self.lora;
        let mdl = &self.mdl;
        let tx_pkt = &mut self.tx_pkt;
        let rx_pkt = &self.rx_pkt;
        let rxbuf = &mut self.rxbuf[..self.rxlen];
        let sync_word = self.sync_word;
        let r: Result<Result<Option<Result<(), RadioError>>, u64>, Trapped> = trap(|| {
            let full = |x: Result<(Result<(), RadioError>, u64), u64>| x.map(|(r, _)| Some(r));
            match call {
                Call::Init => full(exec::run(lora.init(), budget)),
                Call::SleepWarm => full(exec::run(lora.sleep(true), budget)),
                Call::SleepCold => full(exec::run(lora.sleep(false), budget)),
                Call::PrepTx => full(exec::run(lora.prepare_for_tx(mdl, tx_pkt, 14, &[0xA1, 0xB2, 0xC3, 0xD4, 0xE5]), budget)),
                Call::Tx => full(exec::run(lora.tx(), budget)),
                Call::PrepRxSingle => full(exec::run(lora.prepare_for_rx(RxMode::Single(12), mdl, rx_pkt), budget)),
                Call::PrepRxCont => full(exec::run(lora.prepare_for_rx(RxMode::Continuous, mdl, rx_pkt), budget)),
                Call::PrepRxDuty => full(exec::run(lora.prepare_for_rx(RxMode::DutyCycle(DutyCycleParams { rx_time: 1000, sleep_time: 2000 }), mdl, rx_pkt), budget)),
                Call::StartRx => full(exec::run(lora.start_rx(), budget)),
                Call::CompleteRx => full(exec::run(async { lora.complete_rx(rx_pkt, rxbuf).await.map(|_| ()) }, budget)),
                Call::Rx => full(exec::run(async { lora.rx(rx_pkt, rxbuf).await.map(|_| ()) }, budget)),
                Call::RxSwitch => full(exec::run(lora.rx_switch_channel(868_300_000), budget)),
                Call::Listen => full(exec::run(lora.listen(868_100_000, Bandwidth::_125KHz), budget)),
                Call::PrepCad => full(exec::run(lora.prepare_for_cad(mdl), budget)),
                Call::Cad => full(exec::run(async { lora.cad(mdl).await.map(|_| ()) }, budget)),
                // (the rig constructs the driver with the public sync word 0x3444: a value other than that, so that a stale copy shows)
                // every other plan: a word outside the 0xX4Y4 form the LoRaWAN words have
                Call::SetSync => full(exec::run(lora.set_lora_sync_word(sync_word), budget)),
                Call::GetRssi => full(exec::run(async { lora.get_rssi().await.map(|_| ()) }, budget)),
                Call::WaitIrq => full(exec::run(lora.wait_for_irq(), budget)),
                Call::WaitIrqCut(k) => Ok(exec::run_cut(lora.wait_for_irq(), k as u64)),
                Call::ProcessIrq => full(exec::run(async { lora.process_irq_event().await.map(|_| ()) }, budget)),
                Call::GetRxResult => full(exec::run(async { lora.get_rx_result(rx_pkt, rxbuf).await.map(|_| ()) }, budget)),
            }
        });
        match r {
            Err(t) => Res::Panic(t.msg.clone(), t.loc.clone(), format!("{}|{}", t.file(), t.kind())),
            Ok(Err(_)) => Res::NoReturn,
            Ok(Ok(None)) => Res::Dropped,
            Ok(Ok(Some(Ok(())))) => Res::Ok,
            Ok(Ok(Some(Err(e)))) => Res::Err(format!("{:?}", e)),
        }
    }

    /// Executes one API call and judges it. Returns false when the run must stop.
    fn step(&mut self, j: usize, call: Call, profile: Profile, plan_json: &dyn Fn() -> Value) -> bool {
        let before = self.mode();
        let before_name = mode_name(before);
        let continuous = before == RadioMode::Receive(RxMode::Continuous) || call == Call::Listen;
        let (t0, a0, o0, chip_before) = {
            let mut sh = self.bus.borrow_mut();
            sh.chip.set_default_outcome(profile.events(self.var.is_126x(), continuous));
            sh.chip.set_next_packet(Some(vec![0x60, 1, 2, 3, 4, 5, 6]));
            // a call that begins a new activity comes some time after the previous one: a chip left
            // in duty-cycled reception is then in a sleep phase (calls that go on with the running
            // reception - complete_rx, status reads - find it listening or just woken by its own IRQ)
            if matches!(call, Call::Init | Call::SleepWarm | Call::SleepCold | Call::PrepTx | Call::PrepRxSingle | Call::PrepRxCont | Call::PrepRxDuty | Call::StartRx | Call::Rx | Call::RxSwitch | Call::Listen | Call::PrepCad | Call::SetSync) {
                sh.chip.arm_duty_sleep(true);
            }
            (sh.chip.transcript().len(), sh.chip.alarms().len(), sh.chip.op_starts().len(), sh.chip.mode())
        };
        let fault_before = self.bus.borrow().fault_hit.is_some();
        let res = self.exec_raw(call);
        // a cold sleep that the driver carried out (a sleep() on a driver that is asleep already is a no-op
        // and puts nothing to sleep anew)
        if call == Call::SleepCold && matches!(res, Res::Ok) && before != RadioMode::Sleep {
            self.bus.borrow_mut().chip.api_cold_sleep();
        }
        self.bus.borrow_mut().chip.arm_duty_sleep(false);
        let after = self.mode();
        let after_name = mode_name(after);
        let sh = self.bus.borrow();
        let chip_mode = sh.chip.mode();
        let t1 = sh.chip.transcript().len();
        let fault_now = sh.fault_hit.is_some() && !fault_before;
        let fault_kind = if fault_now { sh.fault.map(|f| f.kind) } else { None };
        self.log.push(format!("{} [{}] -> {} | driver {} -> {} | chip {}", call.name(), profile.name(), res.name(), before_name, after_name, chip_mode.name()));
        // evidence: distinct (driver mode, chip mode, programmed items, cold_start)
        self.col.state(fnv64(format!("{}|{}|{:x}|{}", after_name, chip_mode.name(), sh.chip.prog(), self.lora.verif_cold_start()).as_bytes()));
        if call == Call::Init {
            self.failed_init = !matches!(res, Res::Ok);
        }
        if call == Call::SetSync {
            // (a refused or failed request is not in force: the word that was in force before stays the
            // one a later cold start has to program)
            if matches!(res, Res::Ok) {
                self.sync_expected = Some(sh.chip.sync_value());
            }
            // what the chip holds right after an attempt (also a failed one that got as far as the
            // registers) is not 'programmed again': only a loss after this point counts
            self.sync_mark = sh.chip.losses();
        }
        self.failed.push(res.failed());
        let tainted = self.failed_init && call != Call::Init;
        let fam = self.var.family();
        let mk_detail = |extra: Value| -> Value {
            json!({
                "plan": plan_json(), "failing_call_index": j, "failing_call": call.name(), "outcome_profile": profile.name(),
                "result": res.name(), "driver_mode_before": before_name, "driver_mode_after": after_name,
                "driver_cold_start_flag": self.lora.verif_cold_start(), "chip_mode_after": chip_mode.name(),
                "chip_items_programmed": item::names(sh.chip.prog()), "observed": extra, "history": self.log,
                "transcript_of_call": transcript_json(&sh.chip.transcript()[..t1.min(t0 + 80)], t0),
            })
        };
        let mut stop = false;

        // ---- (a) wrong-mode call --------------------------------------------------------------
        let mut refused = false;
        if let Some(req) = call.requires() {
            if !before_name.starts_with(req) {
                let is_refusal = matches!(&res, Res::Err(e) if e == "InvalidRadioMode");
                refused = is_refusal && t1 == t0;
                self.col.event("wrong_mode_calls");
                if !is_refusal {
                    self.found.push(Found {
                        sig: format!("C14|lora|a-not-refused|{}|{}|mode={}", fam, call.api(), before_name),
                        what: "a call made in the wrong mode was not refused with an error".into(),
                        detail: mk_detail(json!({"required_mode": req})),
                    });
                } else if t1 != t0 {
                    self.found.push(Found {
                        sig: format!("C14|lora|a-refused-but-commanded-chip|{}|{}|mode={}", fam, call.api(), before_name),
                        what: "a call refused for its mode still sent transactions to the chip".into(),
                        detail: mk_detail(json!({"required_mode": req, "transactions": t1 - t0})),
                    });
                }
            }
        }

        // ---- (b) chip commanded while asleep ----------------------------------------------------
        for al in sh.chip.alarms()[a0..].iter() {
            if !call.in_statement() {
                // get_rssi / process_irq_event are not in the statement's API alphabet: observation only
                self.col.event(if call == Call::GetRssi { "observed_get_rssi_reaching_a_sleeping_chip" } else { "observed_process_irq_event_reaching_a_sleeping_chip" });
                stop = true;
                continue;
            }
            let kind = match al {
                Alarm::CommandWhileAsleep(op) => format!("command-0x{:02x}-while-asleep", op),
                Alarm::OpStartFromSleep(k) => format!("{:?}-start-from-sleep", k).to_lowercase(),
                Alarm::FifoInSleep => "fifo-access-in-sleep".into(),
            };
            self.col.event("alarm_b");
            self.found.push(Found {
                sig: if tainted { format!("C14|lora|after-failed-init|{}|b-{}", fam, kind) } else { format!("C14|lora|b-{}|{}|driver={}", kind, fam, before_name) },
                what: "the chip was commanded while asleep without being woken first".into(),
                detail: mk_detail(json!({"chip_alarm": format!("{:?}", al)})),
            });
        }

        // ---- agreement after a successful call -------------------------------------------------------
        // (the statement's heading: driver and chip never disagree; judged at the quiescent point after
        // a call that returned Ok: a driver that records Standby or Sleep while the chip transmits,
        // receives or scans, or Sleep on one side only)
        // (only while no bus fault has been injected: once a transaction was lost the driver cannot know
        // what reached the chip, and what the statement demands then is clause (d))
        if matches!(res, Res::Ok) && !tainted && call.in_statement() && sh.fault_hit.is_none() && !self.failed.iter().any(|f| *f) {
            let chip_busy = matches!(chip_mode, Mode::Tx | Mode::Rx | Mode::Cad);
            let bad = match after {
                RadioMode::Standby => chip_busy || chip_mode == Mode::Sleep,
                RadioMode::Sleep => chip_mode != Mode::Sleep,
                _ => chip_mode == Mode::Sleep,
            };
            self.col.event("agreement_checked");
            if bad {
                self.found.push(Found {
                    sig: format!("C14|lora|state-disagreement|{}|driver={}|chip={}", call.api(), after_name, chip_mode.name()),
                    what: "after a call that returned Ok the mode the driver records and the chip's mode contradict each other".into(),
                    detail: mk_detail(json!({"driver_mode": after_name, "chip_mode": chip_mode.name()})),
                });
            }
        }

        // ---- (c) everything programmed before an operation starts --------------------------------
        for os in sh.chip.op_starts()[o0..].iter() {
            self.col.event(match os.kind {
                OpKind::Tx => "tx_starts",
                OpKind::Rx => "rx_starts",
                OpKind::Cad => "cad_starts",
            });
            let board = self.var.board_items();
            let required = match (call, os.kind) {
                // an RSSI listen depends on the band/bandwidth only
                (Call::Listen, _) => item::PKT_TYPE | item::MODULATION | item::FREQ | board,
                (_, OpKind::Cad) => item::PKT_TYPE | item::MODULATION | item::IRQ | item::FREQ | board,
                _ => item::PKT_TYPE | item::SYNC | item::BUF_BASE | item::MODULATION | item::PKT_PARAMS | item::IRQ | item::FREQ | board,
            };
            let missing = os.missing & required;
            if sh.chip.losses() > self.losses_base {
                self.col.event("op_starts_after_a_configuration_loss");
            }
            // "programmed again" means with what the application last asked for: after a loss the
            // sync word on the chip must be the one set_lora_sync_word left there
            if let Some(exp) = self.sync_expected {
                if os.missing & item::SYNC == 0 && os.sync != exp && call.in_statement() && call != Call::Listen && os.kind != OpKind::Cad && !tainted && sh.chip.losses() > self.losses_base.max(self.sync_mark) {
                    self.col.event("alarm_c");
                    self.found.push(Found {
                        sig: format!("C14|lora|c-sync-word-value|{}|after-{}", fam, sh.chip.last_loss()),
                        what: "after a reset / cold sleep the sync word was programmed again, but not with the value last set by set_lora_sync_word".into(),
                        detail: mk_detail(json!({"operation": format!("{:?}", os.kind), "sync_registers_at_start": format!("{:#06x}", os.sync), "registers_after_set_lora_sync_word": format!("{:#06x}", exp)})),
                    });
                }
            }
            if missing != 0 && call.in_statement() {
                self.col.event("alarm_c");
                self.found.push(Found {
                    sig: if tainted {
                        format!("C14|lora|after-failed-init|{}|c-{}-start", fam, format!("{:?}", os.kind).to_lowercase())
                    } else {
                        format!("C14|lora|c-{}-start|{}|after-{}{}", format!("{:?}", os.kind).to_lowercase(), fam, sh.chip.last_loss(), if call == Call::Listen { "|listen" } else { "" })
                    },
                    what: "an operation was started although configuration it depends on had not been programmed since the last reset / cold sleep".into(),
                    detail: mk_detail(json!({"operation": format!("{:?}", os.kind), "missing_items": item::names(missing), "chip_mode_at_start": os.from.name(), "last_loss_of_configuration": sh.chip.last_loss()})),
                });
            }
        }

        // ---- (d) after a failed or timed-out operation --------------------------------------------
        if call.is_operation() && res.failed() && !refused {
            // the driver-documented exception: a reception problem reported while the interrupt is
            // processed in continuous receive (CRC / header error, or the bus failing in that step or
            // before the reception is under way) leaves the decision to the caller. It does not cover
            // a failure while the packet is fetched or while the interrupt is waited for
            let phase_now = match (fault_kind, fault_now) {
                (Some(k), true) => {
                    let started_before_fault = if call == Call::CompleteRx { true } else { sh.chip.op_starts()[o0..].iter().any(|o| Some(o.txn) < sh.fault_hit) };
                    Some(fault_phase(self.var, k, &sh.fault_mosi, started_before_fault))
                }
                _ => None,
            };
            // (a packet that does not fit the caller's buffer fails while it is fetched, whatever the chip reported)
            let fetch_refused = matches!(&res, Res::Err(e) if e.starts_with("PayloadSizeMismatch"));
            if fetch_refused {
                self.col.event("packets_longer_than_the_callers_buffer");
            }
            let documented_exception = before == RadioMode::Receive(RxMode::Continuous) && matches!(call, Call::CompleteRx | Call::Rx) && !matches!(phase_now, Some("fetch") | Some("irq-wait")) && !fetch_refused;
            self.col.event("failed_operations");
            if documented_exception {
                self.col.event("failed_operations_in_continuous_rx(exception)");
            } else {
                let chip_ok = chip_mode.is_standby();
                let driver_ok = after == RadioMode::Standby;
                // did the driver try to force standby after the failure point?
                // (after the fault, and after the last start of an operation within this call)
                let last_start = sh.chip.op_starts()[o0..].last().map(|o| o.txn + 1).unwrap_or(t0);
                let from = sh.fault_hit.filter(|_| fault_now).unwrap_or(t0).max(t0).max(last_start);
                let attempted = sh.chip.transcript()[from.min(t1)..t1].iter().any(|x| is_standby_cmd(self.var, &x.mosi));
                // where the failure came from: the phase the injected fault fell in, or the chip outcome
                // (for calls that start an operation themselves: "before the start command of this call")
                let started_before_fault = if call == Call::CompleteRx { true } else { sh.chip.op_starts()[o0..].iter().any(|o| Some(o.txn) < sh.fault_hit || !fault_now) };
                let cause = match (&res, fault_kind) {
                    (Res::Panic(_, _, k), _) => format!("panic:{}", k),
                    (_, Some(k)) => format!("fault-in:{}{}", fault_phase(self.var, k, &sh.fault_mosi, started_before_fault), if attempted { "|standby-attempted" } else { "" }),
                    (Res::Err(e), None) => format!("chip:{}->{}{}", profile.class(), e.split('(').next().unwrap_or(""), if attempted { "|standby-attempted" } else { "" }),
                    _ => String::new(),
                };
                let origin = match (&res, fault_kind) {
                    (Res::Err(_), Some(k)) => format!("{:?} fault", k),
                    (Res::Err(e), None) => format!("chip outcome {} -> {}", profile.class(), e),
                    _ => "panic".to_string(),
                };
                // a single fault that hits the driver's own attempt to force standby: the bus
                // failed in the recovery itself, nothing can be demanded
                let fault_in_recovery = fault_now
                    && (
                        // the forced-standby command itself was lost, or the BUSY wait right after it failed
                        (fault_kind != Some(FaultKind::Irq) && is_standby_cmd(self.var, &sh.fault_mosi))
                        // the operation fails on the chip's outcome alone (fault-free run of the same
                        // plan): the fault fell into the handling of an already failed operation
                        || self.baseline_failed.get(j).copied().unwrap_or(false)
                        // the call failed before it delivered a single transaction: the chip is in
                        // whatever mode it legitimately was in before the call
                        // (not for listen(): the driver documents that whatever step of it fails,
                        // chip and driver go back to standby - it may be called on a running reception)
                        || (sh.fault_hit == Some(t0) && call != Call::Listen)
                    );
                // the strict "driver says Standby" half is judged for the calls the statement's
                // anchors name (tx, rx/complete_rx, cad); for calls that only start an operation
                // the driver's mode legitimately keeps denoting the prepared receive
                // and only when an operation was running on the chip during the call (started by
                // it or before it): if the failure came before anything started, the chip is still
                // in the prepared state and the driver's unchanged Transmit/Receive/CAD mode says so
                let op_ran = !sh.chip.op_starts()[o0..].is_empty() || matches!(chip_before, Mode::Tx | Mode::Rx | Mode::Cad);
                let judge_driver = matches!(call, Call::Tx | Call::Rx | Call::CompleteRx | Call::Cad) && (op_ran || after != before);
                if fault_in_recovery {
                    self.col.event("failed_operations_exempt(fault_in_recovery)");
                } else if !chip_ok {
                    self.col.event("alarm_d_chip");
                    self.found.push(Found {
                        sig: format!("C14|lora|d-chip-not-in-standby|{}|{}", call.api(), cause),
                        what: "after a failed or timed-out operation the chip was not left in standby".into(),
                        detail: mk_detail(json!({"chip_mode": chip_mode.name(), "error_origin": origin})),
                    });
                } else if !driver_ok && judge_driver {
                    self.col.event("alarm_d_driver");
                    self.found.push(Found {
                        sig: format!("C14|lora|d-driver-not-standby|{}|{}", call.api(), cause),
                        what: "after a failed or timed-out operation the chip is in standby but the driver's mode is not Standby".into(),
                        detail: mk_detail(json!({"chip_mode": chip_mode.name(), "error_origin": origin})),
                    });
                } else {
                    self.col.event("failed_operations_left_in_standby");
                }
            }
        }
        match &res {
            Res::NoReturn => {
                // not one of the four clauses: recorded as an observation, the run ends here
                self.col.event("no_return_within_poll_budget");
                let key = format!("no_return|{}|{}|chip={}", call.api(), before_name, chip_mode.name());
                if !self.col.notes.contains_key(&key) && self.col.notes.len() < 40 {
                    let d = mk_detail(json!(null));
                    self.col.notes.insert(key, d);
                }
                stop = true;
            }
            Res::Panic(msg, loc, kind) => {
                self.col.event("panics");
                if loc.starts_with("lrv-") || loc.contains("/harness/lrv-") || loc.starts_with("/verif/") {
                    self.col.event("harness_panic");
                } else {
                    // whatever the call was asked to do in whatever mode, the statement leaves it two ways
                    // out: carry it out, or refuse it / fail and say so. Unwinding out of the driver is neither
                    // (the driver's mode and the chip are left wherever the unwinding found them)
                    
                    self.found.push(Found {
                        sig: format!("C14|lora|panic|{}|{}|{}", call.api(), before_name, kind),
                        what: "a physical-layer call neither carried the operation out nor refused it: it panicked".into(),
                        detail: mk_detail(json!({"panic": msg, "at": loc})),
                    });
                }
                stop = true;
            }
            Res::Err(_) => self.col.event("calls_err"),
            Res::Ok => self.col.event("calls_ok"),
            Res::Dropped => self.col.event("waits_dropped"),
        }
        !stop
    }
}

/// the commands with which the driver reads / clears interrupt flags (incl. the SX126x
/// implicit-header workaround that is part of its IRQ processing)
fn is_irq_cmd(var: Var, mosi: &[u8]) -> bool {
    use crate::chip126x as c;
    if var.is_126x() {
        match mosi.first() {
            Some(&c::GET_IRQ_STATUS) | Some(&c::CLEAR_IRQ_STATUS) => true,
            Some(&c::WRITE_REGISTER) | Some(&c::READ_REGISTER) => mosi.len() >= 3 && mosi[1] == 0x09 && (mosi[2] == 0x02 || mosi[2] == 0x44),
            _ => false,
        }
    } else {
        mosi.first().map(|b| b & 0x7F == crate::chip127x::REG_IRQ_FLAGS).unwrap_or(false)
    }
}

fn is_start_cmd(var: Var, mosi: &[u8]) -> bool {
    use crate::chip126x as c;
    if var.is_126x() {
        matches!(mosi.first(), Some(&c::SET_TX) | Some(&c::SET_RX) | Some(&c::SET_RX_DUTY_CYCLE) | Some(&c::SET_CAD))
    } else {
        mosi.len() >= 2 && mosi[0] == (crate::chip127x::REG_OP_MODE | 0x80) && matches!(mosi[1] & 7, 3 | 5 | 6 | 7)
    }
}

/// Phase of the failed call in which the injected fault fell.
fn fault_phase(var: Var, kind: FaultKind, mosi: &[u8], started_before_fault: bool) -> &'static str {
    if kind == FaultKind::Irq {
        "irq-wait"
    } else if is_standby_cmd(var, mosi) {
        "forced-standby"
    } else if is_start_cmd(var, mosi) || !started_before_fault {
        "start"
    } else if is_irq_cmd(var, mosi) {
        "irq-processing"
    } else {
        "fetch"
    }
}

fn is_standby_cmd(var: Var, mosi: &[u8]) -> bool {
    if var.is_126x() {
        mosi.first() == Some(&crate::chip126x::SET_STANDBY)
    } else {
        mosi.len() >= 2 && mosi[0] == (crate::chip127x::REG_OP_MODE | 0x80) && mosi[1] & 7 == crate::chip127x::MODE_STDBY
    }
}

const SUFFIX: [Call; 4] = [Call::PrepTx, Call::Tx, Call::PrepRxSingle, Call::Rx];

struct RunPlan<'a> {
    plan: &'a Plan,
    col: &'a mut Collector,
}

impl<'a> Visitor for RunPlan<'a> {
    type Out = Option<RunOut>;
    fn visit<RK: RadioKind, C: Probe>(self, var: Var, rk: RK, bus: Bus<C>) -> Option<RunOut> {
        let RunPlan { plan, col } = self;
        let mut lora = match new_lora(rk, &bus) {
            Ok(l) => l,
            Err(e) => {
                col.event("harness_setup_failed");
                col.notes.entry("harness_setup_failed".into()).or_insert(json!(e));
                return None;
            }
        };
        let params = (|| {
            let mdl = lora.create_modulation_params(SpreadingFactor::_7, Bandwidth::_125KHz, CodingRate::_4_5, 868_100_000)?;
            let tx = lora.create_tx_packet_params(8, false, true, false, &mdl)?;
            let rx = lora.create_rx_packet_params(8, false, 255, true, true, &mdl)?;
            Ok::<_, RadioError>((mdl, tx, rx))
        })();
        let Ok((mdl, tx_pkt, rx_pkt)) = params else {
            col.event("harness_setup_failed");
            return None;
        };
        {
            let mut sh = bus.borrow_mut();
            sh.chip.clear_transcript();
            sh.arm(plan.fault);
            sh.also_next_spi = plan.double;
        }
        let losses_base = bus.borrow().chip.losses();
        let mut d = Driver { var, lora, bus: bus.clone(), mdl, tx_pkt, rx_pkt, rxbuf: [0; 255], rxlen: if plan.ovar % 5 == 3 { 4 } else { 255 }, col, found: vec![], log: vec![], losses_base, failed_init: false, baseline_failed: plan.baseline_failed.clone(), failed: vec![], sync_expected: Some(bus.borrow().chip.sync_value()), sync_word: if plan.ovar % 2 == 0 { 0x1424 } else { 0x1F38 }, sync_mark: 0 };
        let plan_json = || {
            json!({
                "chip": plan.var.name(),
                "calls": plan.calls.iter().map(|c| c.name()).collect::<Vec<_>>(),
                "profiles": (0..plan.calls.len()).map(|j| PROFILES[((plan.ovar + j as u64) % NP) as usize].name()).collect::<Vec<_>>(),
                "fault": plan.fault.map(|f| format!("{:?} fault at #{} (counted from the first call of the sequence)", f.kind, f.at)),
                "probe_suffix": plan.suffix,
            })
        };
        let mut fault_call = None;
        let mut alive = true;
        for (j, c) in plan.calls.iter().enumerate() {
            let p = PROFILES[((plan.ovar + j as u64) % NP) as usize];
            alive = d.step(j, *c, p, &plan_json);
            if fault_call.is_none() && d.bus.borrow().fault_hit.is_some() {
                fault_call = Some(j);
            }
            if !alive {
                break;
            }
        }
        if alive && plan.suffix {
            for (k, c) in SUFFIX.iter().enumerate() {
                let j = plan.calls.len() + k;
                if !d.step(j, *c, Profile::DoneSoon, &plan_json) {
                    break;
                }
                if fault_call.is_none() && d.bus.borrow().fault_hit.is_some() {
                    fault_call = Some(j);
                }
            }
        }
        let found = std::mem::take(&mut d.found);
        let out = {
            let sh = d.bus.borrow();
            RunOut { log: d.log.clone(), failed: d.failed.clone(), n_spi: sh.n_spi, n_busy: sh.n_busy, n_irq: sh.n_irq, fault_call, fault_cmd: sh.last_cmd }
        };
        let col = d.col;
        for f in found {
            if plan.double && !(f.sig.contains("|a-") || f.sig.contains("|b-")) {
                continue;
            }
            col.violation(&f.sig, &f.what, f.detail);
        }
        Some(out)
    }
}

fn seq_from_index(mut i: u64, depth: u32) -> Vec<Call> {
    let mut v = Vec::with_capacity(depth as usize);
    for _ in 0..depth {
        v.push(ALPHA[(i % NA) as usize]);
        i /= NA;
    }
    v.reverse();
    v
}

fn seq_name(calls: &[Call]) -> String {
    calls.iter().map(|c| c.name()).collect::<Vec<_>>().join(",")
}

fn unsupported(var: Var, calls: &[Call]) -> bool {
    // (receive duty cycle does not exist on SX127x: the driver has to refuse it somewhere, like any
    // other operation it cannot carry out - the sequences contain it all the same)
    let _ = (var, calls);
    false
}

fn run_plain(plan: &Plan, col: &mut Collector) -> Option<RunOut> {
    let out = with_var(plan.var, RunPlan { plan, col });
    let fc = match (&plan.fault, &out) {
        (Some(f), Some(o)) => format!("{:?}@call{}:{:02x}", f.kind, o.fault_call.map(|x| x as i64).unwrap_or(-1), o.fault_cmd),
        _ => "none".into(),
    };
    col.eval(&format!("{}|{}|{}|{}", plan.var.name(), seq_name(&plan.calls), plan.ovar, fc));
    if col.want_sample() {
        if let Some(o) = &out {
            col.sample(json!({"chip": plan.var.name(), "calls": plan.calls.iter().map(|c| c.name()).collect::<Vec<_>>(), "outcome_rotation": plan.ovar, "fault": plan.fault.map(|f| format!("{:?}#{}", f.kind, f.at)), "calls_and_results_incl_probe_suffix": o.log, "bus_events": {"spi": o.n_spi, "busy_waits": o.n_busy, "irq_waits": o.n_irq}}));
        }
    }
    out
}

/// One base sequence, then one run per fault position of every kind.
fn run_with_all_faults(base: &Plan, col: &mut Collector, stride: u32) {
    let Some(k) = run_plain(base, col) else { return };
    let kinds: &[(FaultKind, u32)] = &[(FaultKind::Spi, k.n_spi), (FaultKind::Busy, if base.var.is_126x() { k.n_busy } else { 0 }), (FaultKind::Irq, k.n_irq)];
    for (kind, n) in kinds {
        let mut at = 1;
        while at <= *n {
            let mut p = base.clone();
            p.fault = Some(Fault { kind: *kind, at });
            p.baseline_failed = k.failed.clone();
            // the same with the next bus transaction lost as well
            if col.tier != Tier::Sanitizer {
                let mut p2 = p.clone();
                p2.double = true;
                if run_plain(&p2, col).is_some() {
                    col.event("double_faults_injected");
                }
            }
            if let Some(o) = run_plain(&p, col) {
                col.event(match kind {
                    FaultKind::Spi => "spi_faults_injected",
                    FaultKind::Busy => "busy_faults_injected",
                    FaultKind::Irq => "irq_faults_injected",
                });
                if o.fault_call.is_none() {
                    col.event("fault_not_reached");
                }
            }
            at += stride;
        }
    }
}

// ---- droppable wait: manual receive flow --------------------------------------------------------

const DROP_PRE: [&[Call]; 4] = [&[Call::PrepRxSingle, Call::StartRx], &[Call::PrepRxCont, Call::StartRx], &[Call::PrepTx], &[Call::SleepCold]];
const DROP_POST: [&[Call]; 7] = [
    &[Call::ProcessIrq, Call::GetRxResult],
    &[Call::CompleteRx],
    &[Call::PrepTx, Call::Tx],
    &[Call::SleepCold, Call::PrepTx, Call::Tx],
    &[Call::RxSwitch, Call::CompleteRx],
    &[Call::WaitIrq, Call::ProcessIrq, Call::GetRxResult],
    &[Call::SleepWarm, Call::PrepRxSingle, Call::Rx],
];
const DROP_KS: u64 = 16;

// ---- through the LoRaWAN adapter ----------------------------------------------------------------

#[derive(Clone, Copy, Debug, PartialEq, Eq)]
enum Wan {
    Tx,
    LowPower,
    SetupRx1,
    SetupRx2,
    SetupRxc,
    RxSingle,
    /// rx_continuous, dropped after this many polls (as `select` with the window timer does)
    RxContinuousCut(u32),
    /// rx_continuous that completes with a frame
    RxContinuous,
}

impl Wan {
    fn name(self) -> String {
        match self {
            Wan::Tx => "tx".into(),
            Wan::LowPower => "low_power".into(),
            Wan::SetupRx1 => "setup_rx(RX1 single)".into(),
            Wan::SetupRx2 => "setup_rx(RX2 single)".into(),
            Wan::SetupRxc => "setup_rx(RXC continuous)".into(),
            Wan::RxSingle => "rx_single".into(),
            Wan::RxContinuousCut(k) => format!("rx_continuous[dropped after {} polls]", k),
            Wan::RxContinuous => "rx_continuous".into(),
        }
    }
    fn api(self) -> &'static str {
        match self {
            Wan::Tx => "tx",
            Wan::LowPower => "low_power",
            Wan::SetupRx1 | Wan::SetupRx2 | Wan::SetupRxc => "setup_rx",
            Wan::RxSingle => "rx_single",
            Wan::RxContinuousCut(_) | Wan::RxContinuous => "rx_continuous",
        }
    }
}

/// Class A: uplink, sleep, RX1, sleep, RX2, sleep — twice.
const FLOW_A: [Wan; 14] = [
    Wan::Tx, Wan::LowPower, Wan::SetupRx1, Wan::RxSingle, Wan::LowPower, Wan::SetupRx2, Wan::RxSingle, Wan::LowPower,
    Wan::Tx, Wan::LowPower, Wan::SetupRx1, Wan::RxSingle, Wan::LowPower, Wan::Tx,
];

/// Class C: uplink, RXC (cut by the window timer), RX1, RXC (cut), RX2, RXC (frame), RXC (cut by the next uplink), uplink.
fn flow_c(cuts: [u32; 3]) -> Vec<Wan> {
    vec![
        Wan::Tx, Wan::SetupRxc, Wan::RxContinuousCut(cuts[0]), Wan::SetupRx1, Wan::RxSingle, Wan::SetupRxc, Wan::RxContinuousCut(cuts[1]), Wan::SetupRx2, Wan::RxSingle,
        Wan::SetupRxc, Wan::RxContinuous, Wan::RxContinuousCut(cuts[2]), Wan::Tx, Wan::SetupRxc, Wan::RxContinuous, Wan::LowPower, Wan::Tx,
    ]
}

struct WanPlan {
    var: Var,
    steps: Vec<Wan>,
    ovar: u64,
    fault: Option<Fault>,
    baseline_failed: Vec<bool>,
}

struct RunWan<'a> {
    plan: &'a WanPlan,
    col: &'a mut Collector,
}

impl<'a> Visitor for RunWan<'a> {
    type Out = Option<RunOut>;
    fn visit<RK: RadioKind, C: Probe>(self, var: Var, rk: RK, bus: Bus<C>) -> Option<RunOut> {
        let RunWan { plan, col } = self;
        let lora = match new_lora(rk, &bus) {
            Ok(l) => l,
            Err(_) => {
                col.event("harness_setup_failed");
                return None;
            }
        };
        let mut radio: LorawanRadio<RK, Delay<C>, 22> = lora.into();
        {
            let mut sh = bus.borrow_mut();
            sh.chip.clear_transcript();
            sh.arm(plan.fault);
        }
        let bb = BaseBandModulationParams::new(SpreadingFactor::_7, Bandwidth::_125KHz, CodingRate::_4_5);
        let bb2 = BaseBandModulationParams::new(SpreadingFactor::_9, Bandwidth::_125KHz, CodingRate::_4_5);
        let rf1 = RfConfig { frequency: 868_100_000, bb, max_payload_len: 255 };
        let rf2 = RfConfig { frequency: 869_525_000, bb: bb2, max_payload_len: 255 };
        let fam = var.family();
        let losses_base = bus.borrow().chip.losses();
        let mut log: Vec<String> = vec![];
        let mut buf = [0u8; 255];
        let mut fault_call = None;
        let mut failed_steps = vec![false; plan.steps.len()];
        let mut last_setup_continuous = false;
        // async_device aborts the current procedure on any radio error (`?`); the application's
        // next action is another uplink, so the flow resumes at the next tx step
        let mut skip_to_tx = false;
        for (j, st) in plan.steps.iter().enumerate() {
            if skip_to_tx {
                if *st != Wan::Tx {
                    continue;
                }
                skip_to_tx = false;
            }
            let profile = PROFILES[((plan.ovar + j as u64) % NP) as usize];
            let (t0, a0, o0, chip_before) = {
                let mut sh = bus.borrow_mut();
                let evs = if matches!(st, Wan::RxContinuousCut(_)) { vec![] } else { profile.events(var.is_126x(), last_setup_continuous) };
                sh.chip.set_default_outcome(evs);
                sh.chip.set_next_packet(Some(vec![0x60, 9, 8, 7, 6, 5, 4, 3]));
                (sh.chip.transcript().len(), sh.chip.alarms().len(), sh.chip.op_starts().len(), sh.chip.mode())
            };
            let fault_before = bus.borrow().fault_hit.is_some();
            let budget = exec::POLL_BUDGET;
            // Ok(Some(text)) finished; Ok(None) dropped; Err(..) no return
            let r: Result<Result<Option<Result<&'static str, String>>, u64>, Trapped> = trap(|| match st {
                Wan::Tx => exec::run(radio.tx(TxConfig { pw: 14, rf: rf1 }, &[0x40, 1, 2, 3, 4, 5, 6, 7, 8, 9, 10, 11, 12]), budget).map(|(r, _)| Some(r.map(|_| "Ok").map_err(|e| format!("{:?}", e)))),
                Wan::LowPower => exec::run(radio.low_power(), budget).map(|(r, _)| Some(r.map(|_| "Ok").map_err(|e| format!("{:?}", e)))),
                Wan::SetupRx1 => exec::run(radio.setup_rx(RxConfig { rf: rf1, mode: WanRxMode::Single { ms: 20 } }), budget).map(|(r, _)| Some(r.map(|_| "Ok").map_err(|e| format!("{:?}", e)))),
                Wan::SetupRx2 => exec::run(radio.setup_rx(RxConfig { rf: rf2, mode: WanRxMode::Single { ms: 20 } }), budget).map(|(r, _)| Some(r.map(|_| "Ok").map_err(|e| format!("{:?}", e)))),
                Wan::SetupRxc => exec::run(radio.setup_rx(RxConfig { rf: rf2, mode: WanRxMode::Continuous }), budget).map(|(r, _)| Some(r.map(|_| "Ok").map_err(|e| format!("{:?}", e)))),
                Wan::RxSingle => exec::run(radio.rx_single(&mut buf), budget).map(|(r, _)| {
                    Some(match r {
                        Ok(RxStatus::Rx(..)) => Ok("Rx"),
                        Ok(RxStatus::RxTimeout) => Ok("RxTimeout"),
                        Err(e) => Err(format!("{:?}", e)),
                    })
                }),
                Wan::RxContinuous => exec::run(radio.rx_continuous(&mut buf), budget).map(|(r, _)| Some(r.map(|_| "Rx").map_err(|e| format!("{:?}", e)))),
                Wan::RxContinuousCut(k) => Ok(exec::run_cut(radio.rx_continuous(&mut buf), *k as u64).map(|r| r.map(|_| "Rx").map_err(|e| format!("{:?}", e)))),
            });
            match st {
                Wan::SetupRxc => last_setup_continuous = true,
                Wan::SetupRx1 | Wan::SetupRx2 => last_setup_continuous = false,
                _ => {}
            }
            // (the adapter's low_power() is a cold sleep)
            if matches!(st, Wan::LowPower) && matches!(&r, Ok(Ok(Some(Ok(_))))) {
                bus.borrow_mut().chip.api_cold_sleep();
            }
            let sh = bus.borrow();
            let chip_mode = sh.chip.mode();
            let t1 = sh.chip.transcript().len();
            let fault_now = sh.fault_hit.is_some() && !fault_before;
            if fault_now {
                fault_call = Some(j);
            }
            let res_name = match &r {
                Err(t) => format!("panic({} at {})", t.msg, t.loc),
                Ok(Err(_)) => "no return within the poll budget".into(),
                Ok(Ok(None)) => "future dropped".into(),
                Ok(Ok(Some(Ok(s)))) => format!("Ok({})", s),
                Ok(Ok(Some(Err(e)))) => format!("Err({})", e),
            };
            log.push(format!("{} [{}] -> {} | chip {}", st.name(), profile.name(), res_name, chip_mode.name()));
            col.state(fnv64(format!("wan|{}|{:x}", chip_mode.name(), sh.chip.prog()).as_bytes()));
            let mk_detail = |extra: Value| -> Value {
                json!({
                    "chip": var.name(), "adapter_steps": plan.steps.iter().map(|s| s.name()).collect::<Vec<_>>(),
                    "profiles": (0..plan.steps.len()).map(|j| PROFILES[((plan.ovar + j as u64) % NP) as usize].name()).collect::<Vec<_>>(),
                    "fault": plan.fault.map(|f| format!("{:?} fault at #{}", f.kind, f.at)),
                    "failing_step_index": j, "failing_step": st.name(), "result": res_name, "chip_mode_after": chip_mode.name(),
                    "chip_items_programmed": item::names(sh.chip.prog()), "observed": extra, "history": log,
                    "transcript_of_step": transcript_json(&sh.chip.transcript()[..t1.min(t0 + 80)], t0),
                })
            };
            for al in sh.chip.alarms()[a0..].iter() {
                let kind = match al {
                    Alarm::CommandWhileAsleep(op) => format!("command-0x{:02x}-while-asleep", op),
                    Alarm::OpStartFromSleep(k) => format!("{:?}-start-from-sleep", k).to_lowercase(),
                    Alarm::FifoInSleep => "fifo-access-in-sleep".into(),
                };
                col.event("alarm_b");
                col.violation(&format!("C14|adapter|b-{}|{}", kind, fam), "the chip was commanded while asleep without being woken first (through the LoRaWAN adapter)", mk_detail(json!({"chip_alarm": format!("{:?}", al)})));
            }
            for os in sh.chip.op_starts()[o0..].iter() {
                col.event(match os.kind {
                    OpKind::Tx => "tx_starts",
                    OpKind::Rx => "rx_starts",
                    OpKind::Cad => "cad_starts",
                });
                col.event("adapter_op_starts");
                if sh.chip.losses() > losses_base {
                    col.event("op_starts_after_a_configuration_loss");
                }
                let required = item::PKT_TYPE | item::SYNC | item::BUF_BASE | item::MODULATION | item::PKT_PARAMS | item::IRQ | item::FREQ | var.board_items();
                let missing = os.missing & required;
                if missing != 0 {
                    col.event("alarm_c");
                    col.violation(
                        &format!("C14|adapter|c-{}-start|{}|after-{}", format!("{:?}", os.kind).to_lowercase(), fam, sh.chip.last_loss()),
                        "an operation was started although configuration it depends on had not been programmed since the last reset / cold sleep (through the LoRaWAN adapter)",
                        mk_detail(json!({"missing_items": item::names(missing)})),
                    );
                }
            }
            // (d): only the chip side is observable through the adapter
            let failed = matches!(&r, Err(_) | Ok(Ok(Some(Err(_))))) || matches!(&r, Ok(Ok(Some(Ok("RxTimeout")))));
            failed_steps[j] = failed;
            if failed && matches!(st, Wan::Tx | Wan::RxSingle) {
                col.event("failed_operations");
                if !chip_mode.is_standby() {
                    let last_start = sh.chip.op_starts()[o0..].last().map(|o| o.txn + 1).unwrap_or(t0);
                    let from = sh.fault_hit.filter(|_| fault_now).unwrap_or(t0).max(t0).max(last_start);
                    let attempted = sh.chip.transcript()[from.min(t1)..t1].iter().any(|x| is_standby_cmd(var, &x.mosi));
                    let started_before_fault = sh.chip.op_starts()[o0..].iter().any(|o| Some(o.txn) < sh.fault_hit || !fault_now);
                    let _ = chip_before;
                    let cause = match (&r, fault_now) {
                        (Err(t), _) => format!("panic:{}|{}", t.file(), t.kind()),
                        (_, true) => format!("fault-in:{}{}", fault_phase(var, plan.fault.map(|f| f.kind).unwrap_or(FaultKind::Spi), &sh.fault_mosi, started_before_fault), if attempted { "|standby-attempted" } else { "" }),
                        _ => format!("chip:{}{}", profile.class(), if attempted { "|standby-attempted" } else { "" }),
                    };
                    let fault_in_recovery = fault_now
                        && ((plan.fault.map(|f| f.kind) != Some(FaultKind::Irq) && is_standby_cmd(var, &sh.fault_mosi))
                            || plan.baseline_failed.get(j).copied().unwrap_or(false)
                            || sh.fault_hit == Some(t0));
                    if fault_in_recovery {
                        col.event("failed_operations_exempt(fault_in_recovery)");
                    } else {
                        col.event("alarm_d_chip");
                        col.violation(
                            &format!("C14|adapter|d-chip-not-in-standby|{}|{}", st.api(), cause),
                            "after a failed or timed-out operation the chip was not left in standby (through the LoRaWAN adapter)",
                            mk_detail(json!({"chip_mode": chip_mode.name(), "fault_in_this_step": fault_now, "profile": profile.class()})),
                        );
                    }
                } else {
                    col.event("failed_operations_left_in_standby");
                }
            }
            let stop = match &r {
                Err(_) => {
                    col.event("panics");
                    true
                }
                Ok(Err(_)) => {
                    col.event("no_return_within_poll_budget");
                    let key = format!("no_return|adapter.{}|chip={}", st.api(), chip_mode.name());
                    if !col.notes.contains_key(&key) && col.notes.len() < 40 {
                        let d = mk_detail(json!(null));
                        col.notes.insert(key, d);
                    }
                    true
                }
                Ok(Ok(None)) => {
                    col.event("waits_dropped");
                    false
                }
                Ok(Ok(Some(Ok(_)))) => {
                    col.event("calls_ok");
                    false
                }
                Ok(Ok(Some(Err(_)))) => {
                    col.event("calls_err");
                    skip_to_tx = true;
                    false
                }
            };
            drop(sh);
            if stop {
                break;
            }
        }
        let sh = bus.borrow();
        Some(RunOut { log: log.clone(), failed: failed_steps, n_spi: sh.n_spi, n_busy: sh.n_busy, n_irq: sh.n_irq, fault_call, fault_cmd: sh.last_cmd })
    }
}

fn run_wan(plan: &WanPlan, col: &mut Collector) -> Option<RunOut> {
    let out = with_var(plan.var, RunWan { plan, col });
    let fc = match (&plan.fault, &out) {
        (Some(f), Some(o)) => format!("{:?}@step{}:{:02x}", f.kind, o.fault_call.map(|x| x as i64).unwrap_or(-1), o.fault_cmd),
        _ => "none".into(),
    };
    let steps: Vec<String> = plan.steps.iter().map(|s| s.name()).collect();
    col.eval(&format!("wan|{}|{}|{}|{}", plan.var.name(), steps.join(","), plan.ovar, fc));
    if col.want_sample() {
        if let Some(o) = &out {
            col.sample(json!({"chip": plan.var.name(), "outcome_rotation": plan.ovar, "fault": plan.fault.map(|f| format!("{:?}#{}", f.kind, f.at)), "adapter_steps_and_results": o.log, "bus_events": {"spi": o.n_spi, "busy_waits": o.n_busy, "irq_waits": o.n_irq}}));
        }
    }
    out
}

fn run_wan_with_all_faults(base: &WanPlan, col: &mut Collector) {
    let Some(k) = run_wan(base, col) else { return };
    let kinds: &[(FaultKind, u32)] = &[(FaultKind::Spi, k.n_spi), (FaultKind::Busy, if base.var.is_126x() { k.n_busy } else { 0 }), (FaultKind::Irq, k.n_irq)];
    for (kind, n) in kinds {
        for at in 1..=*n {
            let p = WanPlan { var: base.var, steps: base.steps.clone(), ovar: base.ovar, fault: Some(Fault { kind: *kind, at }), baseline_failed: k.failed.clone() };
            if run_wan(&p, col).is_some() {
                col.event(match kind {
                    FaultKind::Spi => "spi_faults_injected",
                    FaultKind::Busy => "busy_faults_injected",
                    FaultKind::Irq => "irq_faults_injected",
                });
                col.event("adapter_faults_injected");
            }
        }
    }
}

// ---- the monitor ----------------------------------------------------------------------------------

fn pow(d: u32) -> u64 {
    NA.pow(d)
}

/// Outcome rotations used for sequences of depth d: all 9, except 3 at the deepest level of the quick tier.
fn seq_rotations(tier: Tier, d: u32) -> u64 {
    if tier == Tier::Quick && d >= 4 {
        3
    } else {
        NP
    }
}

impl Monitor for C14 {
    fn prop(&self) -> &'static str {
        "C14"
    }
    fn gens(&self, tier: Tier) -> Vec<Gen> {
        let mut v = vec![];
        // all sequences of exactly d calls x 4 chips x 9 outcome rotations, no fault
        for (name, d) in [("seq-d1", 1u32), ("seq-d2", 2), ("seq-d3", 3), ("seq-d4", 4), ("seq-d5", 5)] {
            let maxd = tier.pick(4, 5, 2) as u32;
            if d <= maxd {
                let full = pow(d) * 4 * seq_rotations(tier, d);
                v.push(gen(name, if tier == Tier::Sanitizer { full.min(40) } else { full }));
            }
        }
        // base sequence x chip x outcome rotation, each with one run per fault position
        for (name, d) in [("fault-d1", 1u32), ("fault-d2", 2), ("fault-d3", 3)] {
            let maxd = tier.pick(2, 3, 1) as u32;
            if d <= maxd {
                let full = pow(d) * 4 * NP;
                v.push(gen(name, if tier == Tier::Sanitizer { 6 } else { full }));
            }
        }
        v.push(gen("drop", tier.pick(1, 1, 0) * (DROP_PRE.len() * DROP_POST.len()) as u64 * 4 * NP * DROP_KS));
        v.push(gen("wan-fault", tier.pick(1, 1, 0) * 4 * NP * 2));
        v.push(gen("wan-drop", tier.pick(60, 400, 2) * 4 * NP));
        v
    }
    fn rule(&self) -> String {
        "seq-dN: every sequence of exactly N calls over {init, sleep(warm), sleep(cold), prepare_for_tx, tx, prepare_for_rx(single|continuous|duty), start_rx, complete_rx, rx, rx_switch_channel, listen, prepare_for_cad, cad, set_lora_sync_word, get_rssi} on a freshly constructed LoRa, x {sx1261,sx1262,sx1276,sx1272} x 9 rotations (quick tier, depth 4: 3 rotations) of the chip outcome profiles {done@0/1/12, timeout@1/12, CRC error, header error, spurious+done@1/6}, followed by the probe suffix prepare_for_tx, tx, prepare_for_rx, rx; fault-dN: the same bases, and for each base with K_spi/K_busy/K_irq bus events one run per position with an SPI fault (transaction lost), a BUSY-wait fault (SX126x) or an IRQ-wait fault there, and each of these once more with the SPI transaction that follows the fault lost as well (judged for clauses (a) and (b) only); drop: manual receive flows in which wait_for_irq is dropped after k=0..15 polls, with 7 continuations; wan-fault: Class A and Class C call orders of async_device through LorawanRadio with a fault at every position; wan-drop: Class C flow with rx_continuous dropped after every poll count. Class = (chip, call sequence, outcome rotation, fault kind + call index + command byte).".into()
    }
    fn assumptions(&self) -> Vec<String> {
        vec![
            "clause (a) takes the driver's own radio mode (verif hook) as 'the mode'; mode-guarded calls are tx, start_rx, complete_rx, rx, rx_switch_channel, get_rx_result, cad".into(),
            "clause (b), SX126x: the wake-up access is a GetStatus transaction (or an empty NSS pulse); any other first byte reaching a sleeping chip is a violation and its command is lost (data sheet 9.3 / 13.1.1: the falling edge of NSS wakes the chip, BUSY stays high until it is ready). SX127x: registers are accessible in sleep mode, so only FIFO access and a TX/RX/CAD request while in sleep mode are flagged".into(),
            "clause (c): items = packet type (SX127x: LongRangeMode bit), sync word, regulator mode (boards that use DC-DC: both SX126x boards here), TCXO control (boards with a TCXO: the SX1261 and SX1276 boards here), buffer base addresses, modulation, packet parameters, IRQ/DIO parameters, RF frequency. PA configuration is tracked but not asserted (not listed by the statement). An RSSI listen() only depends on packet type, modulation and frequency; CAD on packet type, modulation, IRQ parameters and frequency".into(),
            "loss of configuration: SX126x on NRESET and on SetSleep without warm start (everything incl. registers; warm start retains everything except the data buffer); SX127x only on NRESET (registers are retained in sleep mode, the FIFO is not). SetPacketType to a different packet type discards modulation and packet parameters (data sheet 13.4.2)".into(),
            "clause (d) is judged after tx, rx, complete_rx, cad, start_rx, rx_switch_channel and listen returned Err (incl. time-outs) or panicked, unless the call was refused for its mode; the driver-documented exception is honoured: errors of complete_rx/rx while the driver is in continuous receive leave the mode to the caller. Exempt are double failures, where nothing can be demanded of the recovery: the single injected fault hits the driver's own forced-standby command (or the BUSY wait right after it); the fault falls into a call whose operation fails on the chip's outcome alone in the fault-free run of the same plan; the call fails before it delivered a single transaction (the chip then is in the mode it legitimately had before the call)".into(),
            "clause (d), 'the driver knows it': judged only for tx, rx, complete_rx and cad (the calls the statement's anchors name), as 'driver mode is Standby', and only if an operation was running on the chip during the failed call; when the failure precedes the start command the chip is still in the prepared state that the driver's unchanged Transmit/Receive/CAD mode denotes, which is agreement. 'chip not in standby' and 'chip in standby but driver mode not Standby' carry different signatures".into(),
            "an SPI fault means the transaction never reached the chip; a BUSY fault means the command was delivered and the wait on BUSY failed; an IRQ fault means the wait on the interrupt line failed. Faults where the chip executes a command whose SPI transfer reported an error are not generated".into(),
            "SX126x receive duty cycle: the sleep phases of the chip are not modelled (the chip is treated as awake in RX); SetSleep is accepted from every mode although the data sheet asks for standby; prepare_for_rx(duty) is not generated on SX127x (unsupported, documented)".into(),
            "SX126x header error in single receive: the chip raises HeaderErr and keeps receiving (the data sheet does not say that it leaves RX); SX127x drops a packet with a bad header silently".into(),
            "a call that does not return within 10000 polls is recorded as an observation (event no_return_within_poll_budget, note with witness), not as a violation: liveness is not one of the four clauses. Chip event latencies are chosen outside the window between the driver's GetIrqStatus and ClearIrqStatus(all), where an interrupt is lost by the driver".into(),
            "get_rssi is not in the statement's API alphabet: it is part of the sequences, but a sleeping chip being reached by get_rssi itself is counted as an observation only".into(),
            "through LorawanRadio the driver's mode is not observable (field is crate-private): only clauses (b), (c) and the chip half of (d) are judged there".into(),
        ]
    }
    fn required_events(&self, tier: Tier) -> Vec<&'static str> {
        if tier == Tier::Sanitizer {
            vec!["tx_starts", "rx_starts", "calls_ok"]
        } else {
            vec![
                "tx_starts", "rx_starts", "cad_starts", "wrong_mode_calls", "op_starts_after_a_configuration_loss", "failed_operations", "failed_operations_left_in_standby",
                "spi_faults_injected", "busy_faults_injected", "irq_faults_injected", "double_faults_injected", "waits_dropped", "adapter_op_starts", "adapter_faults_injected",
            ]
        }
    }

    fn run_case(&self, g: &str, idx: u64, _rng: &mut Prng, col: &mut Collector) {
        if let Some(d) = g.strip_prefix("seq-d").and_then(|x| x.parse::<u32>().ok()) {
            let rot = seq_rotations(col.tier, d);
            let full = pow(d) * 4 * rot;
            let i = if col.tier == Tier::Sanitizer { idx.wrapping_mul(7919) % full } else { idx };
            let calls = seq_from_index(i % pow(d), d);
            let var = VARS[((i / pow(d)) % 4) as usize];
            // all 9 rotations, or 3 of them spread over the profile list
            let ovar = if rot == NP { (i / (pow(d) * 4)) % NP } else { ((i / (pow(d) * 4)) % rot) * 3 };
            if unsupported(var, &calls) {
                return;
            }
            let plan = Plan { var, calls, ovar, fault: None, suffix: true, baseline_failed: vec![], double: false };
            run_plain(&plan, col);
            return;
        }
        if let Some(d) = g.strip_prefix("fault-d").and_then(|x| x.parse::<u32>().ok()) {
            let full = pow(d) * 4 * NP;
            let i = if col.tier == Tier::Sanitizer { idx.wrapping_mul(7919) % full } else { idx };
            let calls = seq_from_index(i % pow(d), d);
            let var = VARS[((i / pow(d)) % 4) as usize];
            let ovar = (i / (pow(d) * 4)) % NP;
            if unsupported(var, &calls) {
                return;
            }
            let plan = Plan { var, calls, ovar, fault: None, suffix: true, baseline_failed: vec![], double: false };
            run_with_all_faults(&plan, col, if col.tier == Tier::Sanitizer { 5 } else { 1 });
            return;
        }
        match g {
            "drop" => {
                let k = (idx % DROP_KS) as u32;
                let post = DROP_POST[((idx / DROP_KS) % DROP_POST.len() as u64) as usize];
                let pre = DROP_PRE[((idx / (DROP_KS * DROP_POST.len() as u64)) % DROP_PRE.len() as u64) as usize];
                let rest = idx / (DROP_KS * (DROP_POST.len() * DROP_PRE.len()) as u64);
                let var = VARS[(rest % 4) as usize];
                let ovar = (rest / 4) % NP;
                let mut calls: Vec<Call> = pre.to_vec();
                calls.push(Call::WaitIrqCut(k));
                calls.extend_from_slice(post);
                let plan = Plan { var, calls, ovar, fault: None, suffix: true, baseline_failed: vec![], double: false };
                run_plain(&plan, col);
            }
            "wan-fault" => {
                let var = VARS[(idx % 4) as usize];
                let ovar = (idx / 4) % NP;
                let steps = if (idx / (4 * NP)) % 2 == 0 { FLOW_A.to_vec() } else { flow_c([40, 40, 40]) };
                run_wan_with_all_faults(&WanPlan { var, steps, ovar, fault: None, baseline_failed: vec![] }, col);
            }
            "wan-drop" => {
                let var = VARS[(idx % 4) as usize];
                let ovar = (idx / 4) % NP;
                let k = (idx / (4 * NP)) as u32;
                // each of the three cuts sweeps the poll count in turn, the others stay long
                for which in 0..3 {
                    let mut cuts = [60u32, 60, 60];
                    cuts[which] = k;
                    run_wan(&WanPlan { var, steps: flow_c(cuts), ovar, fault: None, baseline_failed: vec![] }, col);
                }
            }
            _ => unreachable!(),
        }
    }
}
