//! C07 — frames that are not accepted change nothing (2-safety: twin runs that differ only by
//! rejected frames inserted at receive opportunities).

use crate::net::*;
use crate::regions::{self, Reg};
use crate::sim::*;
use lrv_core::refcodec::*;
use lrv_core::*;

pub struct C07;

impl Monitor for C07 {
    fn prop(&self) -> &'static str {
        "C07"
    }
    fn scalable(&self, g: &str) -> bool {
        let _ = g;
        true
    }
    fn gens(&self, tier: Tier) -> Vec<Gen> {
        vec![gen("small-buffer-twins", tier.pick(270, 27_000, 0)), gen("data-twins", tier.pick(12_000, 3_000_000, 8)), gen("bitflip-twins", tier.pick(300, 40_000, 1)), gen("join-twins", tier.pick(3_000, 500_000, 4))]
    }
    fn rule(&self) -> String {
        "Two devices with identical configuration and RNG stream are driven in lock-step by the same history; twin B additionally receives frames the reference codec classifies as rejected (random bytes, bit flips of an authentic frame, authentic frame of another session, exact replay, stale counter, far-future counter, the device's own uplink reflected, JoinAccept while joined / under a wrong key / corrupted, oversized frames) at receive opportunities where twin A hears nothing (RX1, RX2, Class C gaps). Histories first create state to lose (pending sticky answers, owed ACK, ADR counter, near-wrap counters). Every radio request and response of the two twins is compared to the end of the history. bitflip-twins: every single-bit flip of one authentic frame. Class = (front-end, region, what-was-pending, rejected-frame class, insertion point).".into()
    }
    fn assumptions(&self) -> Vec<String> {
        vec![
            "rejected frames are inserted only where twin A's window is silent (async: one rx_single result per window; nb: the window stays open, A's own frame may follow)".into(),
            "an oversized frame may end the current receive procedure as a time-out: for it only the response and all later transactions are compared, the rest of the current transaction may be missing".into(),
            "a JoinAccept whose MHDR carries a Major version other than LoRaWAN R1 (bits 1..0 = 0) is not a frame of this protocol version and counts as rejected, also when its MIC verifies over the MHDR as sent".into(),
            "a frame whose DevAddr is not the session's is addressed to someone else and counts as rejected, also when its MIC would verify under this session's key; a frame with an uplink MType is not a downlink and counts as rejected".into(),
        ]
    }
    fn required_events(&self, tier: Tier) -> Vec<&'static str> {
        if tier == Tier::Sanitizer {
            vec!["twins_compared"]
        } else {
            vec!["twins_compared", "inserted_random", "inserted_bitflip", "inserted_replay", "inserted_other_session", "inserted_other_addr", "inserted_oversize", "inserted_reflected_uplink", "inserted_classc", "pending_sticky", "pending_ack", "pending_adr", "pending_full_queue", "join_twins_compared", "rejoin_after_earlier_session", "nb_noupdate_seen"]
        }
    }

    fn run_case(&self, g: &str, idx: u64, rng: &mut Prng, col: &mut Collector) {
        let front = FRONTS[(idx % 3) as usize];
        let reg = regions::ALL[((idx / 3) % 9) as usize];
        if g == "small-buffer-twins" {
            match (idx / 27) % 3 {
                0 => small_buffer_twins::<32>(reg, rng, col),
                1 => small_buffer_twins::<64>(reg, rng, col),
                _ => small_buffer_twins::<100>(reg, rng, col),
            }
            return;
        }
        match g {
            "data-twins" => {
                let _ = data_twins(front, reg, None, rng, col);
            }
            "bitflip-twins" => {
                // every single-bit flip of one authentic frame, one twin pair per flip
                let seed = rng.next_u64();
                let mut bit = 0usize;
                loop {
                    let mut r = Prng::new(seed);
                    match data_twins(front, reg, Some(bit), &mut r, col) {
                        Some(nbits) if bit + 1 < nbits => bit += 1,
                        _ => break,
                    }
                }
            }
            _ => join_twins(front, reg, rng, col),
        }
    }
}

#[derive(Clone, Copy, Debug, PartialEq)]
enum RK {
    Random,
    BitFlip,
    OtherSession,
    /// addressed to someone else: a frame that is authentic under this session's keys but carries
    /// another device address (the network's frame for a neighbour, were the keys shared)
    OtherAddr,
    Replay,
    Stale,
    FarFuture,
    Reflected,
    JoinAcceptWhileJoined,
    Oversize,
    Truncated,
    /// not authentic, MACPayload exactly the maximum of the RX2 data rate (must NOT be treated
    /// as oversized)
    ExactMaxBadMic,
    /// not authentic (broken MIC or foreign keys), MACPayload anywhere from 60 octets up to the maximum of
    /// the plan's default RX2 data rate (RP002 table, the one C05 and C12 read): not oversized either
    WithinLimitBadMic,
    /// not authentic, MACPayload of 231..250 octets, heard in an RX1 window that runs at a rate whose limit
    /// is 250 octets (legal in length there: not oversized)
    LongInFastRx1,
}

const RKS: [RK; 14] = [RK::Random, RK::BitFlip, RK::OtherSession, RK::OtherAddr, RK::Replay, RK::Stale, RK::FarFuture, RK::Reflected, RK::JoinAcceptWhileJoined, RK::Oversize, RK::Truncated, RK::ExactMaxBadMic, RK::WithinLimitBadMic, RK::LongInFastRx1];

struct Step {
    data: Vec<u8>,
    port: u8,
    confirmed: bool,
    a: Script,
    b: Script,
    /// B may end this transaction early (oversized frame)
    b_may_end_early: bool,
    note: String,
}

fn filter(evs: &[Ev]) -> Vec<Ev> {
    evs.iter().filter(|e| !matches!(e, Ev::RxContinuous)).cloned().collect()
}

/// Reference: is `frame` rejected by a device with this session state?
fn ref_rejected(net: &Net, last: Option<u32>, frame: &[u8]) -> bool {
    match decode_data(frame) {
        Err(_) => true,
        Ok(v) => {
            if v.uplink() {
                return true;
            }
            // addressed to someone else
            if v.dev_addr != net.addr {
                return true;
            }
            match crate::c05::ref_next(last, v.fcnt16) {
                None => true,
                Some(n) => verify_data_mic(frame, &net.nwk, n) != Some(true),
            }
        }
    }
}

/// Returns the number of bits of the authentic frame (for the bit-flip sweep).
fn data_twins(front: Front, reg: Reg, flip_bit: Option<usize>, rng: &mut Prng, col: &mut Collector) -> Option<usize> {
    let seed = rng.next_u64();
    let start_up = *rng.pick(&[0u32, 5, 0xFFFE, 0x1_FFFE, 0, 5, 0xFFFF_FFFC, 0xFFFF_FFFE]);
    let start_down: Option<u32> = *rng.pick(&[None, Some(3), Some(0xFFFE), Some(70_000)]);
    // ADR counter to lose: around the ADRACKReq limit and the first back-off step
    // (in "adr mode" no downlink is accepted before the insertion, so the counter survives)
    let adr_mode = rng.chance(1, 4);
    let start_adr = if adr_mode { *rng.pick(&[62u32, 63, 64, 65, 94, 95, 96, 127]) } else { 0 };
    // state-machine front-end, one pair in three: the device object has lived through an earlier session
    // under the same address and other keys (one uplink, one downlink of that session accepted) before
    // the session of this history is installed in it with set_session; frames of the session that was
    // left are then among the rejected ones
    let prelude = front == Front::Nb && (seed >> 3) % 3 == 0;
    let mut ro = Prng::new(seed ^ 0x01d5_e55);
    let old_keys: ([u8; 16], [u8; 16]) = (ro.arr(), ro.arr());
    let mk = |r: &mut Prng| -> Option<(Dev, Net)> {
        let opts = DevOpts { rng_seed: Some(seed ^ 0xA5), ..Default::default() };
        let (mut d, net) = abp_dev(front, reg, r, &opts, |sj| {
            sj["fcnt_up"] = json!(start_up);
            sj["fcnt_down"] = json!(start_down);
            sj["adr_ack_cnt"] = json!(start_adr);
        })
        .ok()?;
        if prelude {
            let sj = d.session_json()?;
            d.join_abp(old_keys.0, old_keys.1, net.addr);
            let old = Net { nwk: old_keys.0, app: old_keys.1, addr: net.addr };
            let f = old.downlink(&Down { fcnt: 1, port: Some(3), payload: &[9, 9], ..Default::default() });
            let _ = d.transact(Action::Send { data: &[7], port: 2, confirmed: false }, &Script::rx1(f));
            let _ = d.take_downlinks();
            d.set_session_json(&sj).ok()?;
        }
        Some((d, net))
    };
    if prelude {
        col.event("sessions_installed_after_an_earlier_session");
    }
    let mut ra = Prng::new(seed);
    let mut rb = Prng::new(seed);
    let (mut a, net) = mk(&mut ra)?;
    let (mut b, _) = mk(&mut rb)?;
    // a data rate from which the ADR back-off can step down (ADRACKReq needs a lower rate)
    let dr = *rng.pick(&crate::c12::uplink_drs(reg));
    a.set_datarate(dr);
    b.set_datarate(dr);
    let mut last = start_down;
    let mut fdown = start_down.unwrap_or(0);
    // ---- build the history -----------------------------------------------------------------------
    let mut steps: Vec<Step> = vec![];
    let mut pending: Vec<&str> = vec![];
    let silent = |n: &str, r: &mut Prng| Step { data: vec![r.u8()], port: 3, confirmed: false, a: Script::silent(), b: Script::silent(), b_may_end_early: false, note: n.into() };
    let next_down = |fdown: &mut u32, last: &mut Option<u32>| -> u32 {
        *fdown = match *last {
            None => *fdown,
            Some(l) => l + 1,
        };
        *last = Some(*fdown);
        *fdown
    };
    let mut rx1_moved = false;
    // something to lose
    if !adr_mode && rng.chance(2, 3) {
        let (lo, hi) = reg.inner_band();
        let f = (lo + rng.below(((hi - lo) / 100) as u64) as u32 * 100) / 100;
        let mut cmds = rx_timing_setup_req(rng.range(1, 9) as u8);
        if rng.bool() {
            // (one request in two also moves the RX1 offset, to the plan's largest one in three: in IN865
            // and AS923 that takes RX1 of the fastest uplinks to a rate the tables do not define)
            let off = if rng.bool() { 0 } else if rng.chance(1, 3) { reg.max_rx1_offset() } else { rng.below(reg.max_rx1_offset() as u64 + 1) as u8 };
            if off > 0 {
                col.event("pending_rx1_offset");
            }
            cmds.extend(rx_param_setup_req((off << 4) | reg.rx2_default().1, f));
            rx1_moved = true;
        }
        if !reg.fixed() && rng.bool() {
            cmds.extend(dl_channel_req(0, f));
        }
        let n = next_down(&mut fdown, &mut last);
        let fr = net.mac_downlink(n, &cmds, rng.bool());
        steps.push(Step { data: vec![1], port: 2, confirmed: false, a: Script::rx1(fr.clone()), b: Script::rx1(fr), b_may_end_early: false, note: "sticky-setup".into() });
        pending.push("sticky");
        col.event("pending_sticky");
    }
    if !adr_mode && rng.chance(1, 2) {
        let n = next_down(&mut fdown, &mut last);
        let fr = net.downlink(&Down { fcnt: n, confirmed: true, port: Some(7), payload: &[1, 2], ..Default::default() });
        steps.push(Step { data: vec![2], port: 2, confirmed: false, a: Script::rx2(fr.clone()), b: Script::rx2(fr), b_may_end_early: false, note: "confirmed-downlink".into() });
        pending.push("ack");
        col.event("pending_ack");
    }
    // one application in three has not collected its downlinks: the device's queue (four entries
    // here) is full when the rejected frame arrives; what it holds is compared at the end
    let queue_full = !adr_mode && rng.chance(1, 3);
    if queue_full {
        for q in 0..4u8 {
            let n = next_down(&mut fdown, &mut last);
            let fr = net.downlink(&Down { fcnt: n, port: Some(20 + q), payload: &[q, q, q], ..Default::default() });
            steps.push(Step { data: vec![6], port: 2, confirmed: false, a: Script::rx1(fr.clone()), b: Script::rx1(fr), b_may_end_early: false, note: "queue-filler".into() });
        }
        pending.push("queue");
        col.event("pending_full_queue");
    }
    if adr_mode {
        pending.push("adr-high");
        col.event("pending_adr");
    } else if rng.chance(1, 2) {
        for _ in 0..rng.range(1, 4) {
            steps.push(silent("silent", rng));
        }
        pending.push("adr");
        col.event("pending_adr");
    }
    // an authentic frame the adversary can replay / mutate (delivered to both twins)
    let last_before_auth = last;
    let n_auth = next_down(&mut fdown, &mut last);
    let auth = net.downlink(&Down { fcnt: n_auth, port: Some(9), payload: &rng.bytes(6), f_opts: &dev_status_req(), ..Default::default() });
    let nbits = auth.len() * 8;
    // captured own uplink for the reflection attack: obtained at run time (see below)
    // ---- insertion transactions -----------------------------------------------------------------------
    let ninsert = if flip_bit.is_some() { 1 } else { rng.range(1, 3) };
    let mut inserted_kinds: Vec<RK> = vec![];
    let mut insertion_points: Vec<&str> = vec![];
    let mut auth_delivered = false;
    // the counter of the last downlink both twins have accepted so far (model), and its bytes
    let mut cur: Option<u32> = last_before_auth;
    let mut last_good: Option<Vec<u8>> = None;
    for k in 0..ninsert {
        let mut kind = if flip_bit.is_some() { RK::BitFlip } else { *rng.pick(&RKS) };
        if adr_mode && matches!(kind, RK::Replay | RK::Stale) && start_down.is_none() {
            kind = RK::FarFuture;
        }
        // the payload limit of the RX2 rate is the same in every edition only for these plans
        if kind == RK::ExactMaxBadMic && !matches!(reg, Reg::EU868 | Reg::EU433 | Reg::IN865) {
            kind = RK::Random;
        }
        // an RX1 window at a rate that takes 250 octets: the uplink rate (no ADR back-off on the way: not in ADR mode) with the default offset
        let fast_rx1 = !adr_mode && !rx1_moved && matches!(reg.rx1_dr(dr as u8, 0).as_slice(), [d] if crate::c05::max_mac_payload(reg, *d) == Some(250));
        if kind == RK::LongInFastRx1 && !fast_rx1 {
            kind = RK::Random;
        }
        // rejected frame (some kinds need the authentic frame delivered first)
        if matches!(kind, RK::Replay | RK::Stale) && !auth_delivered && !adr_mode {
            steps.push(Step { data: vec![3], port: 2, confirmed: false, a: Script::rx1(auth.clone()), b: Script::rx1(auth.clone()), b_may_end_early: false, note: "authentic".into() });
            auth_delivered = true;
            cur = Some(n_auth);
            last_good = Some(auth.clone());
        }
        let cur_last = cur;
        // counters of the frames below are relative to what the session has accepted so far
        let n_auth = cur.unwrap_or(0);
        let frame: Vec<u8> = match kind {
            RK::Random => {
                let n = rng.range(1, 60) as usize;
                let mut v = rng.bytes(n);
                if rng.bool() {
                    v[0] = 0x60;
                }
                v
            }
            RK::BitFlip => {
                let mut v = auth.clone();
                // re-send the authentic frame with a fresh counter would be accepted; flip a bit of
                // a *fresh* authentic frame instead so that only the flip makes it invalid
                let fresh = net.downlink(&Down { fcnt: n_auth + 1, port: Some(9), payload: &[5, 5, 5, 5, 5, 5], confirmed: rng.bool(), f_opts: &dev_status_req(), ..Default::default() });
                v.clone_from(&fresh);
                let bit = flip_bit.unwrap_or_else(|| rng.below((v.len() * 8) as u64) as usize) % (v.len() * 8);
                v[bit / 8] ^= 1 << (bit % 8);
                v
            }
            RK::OtherAddr => {
                let other = Net { nwk: net.nwk, app: net.app, addr: net.addr ^ (1 << rng.below(32)) };
                other.downlink(&Down { fcnt: n_auth + 1, port: Some(3), payload: &[3, 3], confirmed: rng.bool(), f_opts: &dev_status_req(), ..Default::default() })
            }
            RK::OtherSession => {
                // foreign keys; half of the time under this device's own address (a forgery, or the
                // frame of a previous session of the same address), confirmed or not
                let mut other = Net { nwk: rng.arr(), app: rng.arr(), addr: if rng.bool() { net.addr } else { rng.next_u32() } };
                if prelude && rng.chance(2, 3) {
                    // the keys of the session this device object was in before
                    other = Net { nwk: old_keys.0, app: old_keys.1, addr: net.addr };
                    col.event("inserted_frames_of_the_session_left");
                }
                other.downlink(&Down { fcnt: n_auth + 1, port: Some(1), payload: &[1], confirmed: rng.bool(), ..Default::default() })
            }
            // in ADR mode nothing was delivered yet: the last accepted downlink is the one the
            // session started from
            RK::Replay if adr_mode => net.downlink(&Down { fcnt: start_down.unwrap_or(0), port: Some(4), payload: &[4], confirmed: rng.bool(), ..Default::default() }),
            RK::Stale if adr_mode => net.downlink(&Down { fcnt: start_down.unwrap_or(0).saturating_sub(1 + rng.below(3) as u32), port: Some(4), payload: &[4], ..Default::default() }),
            RK::Replay => last_good.clone().unwrap_or_else(|| auth.clone()),
            // (past the first 16-bit epoch, every other stale frame is one of the previous epoch whose wire
            // counter lies *ahead* of the current one's lower half: fresh to anyone who forgot the upper half)
            RK::Stale if n_auth >= 0x1_0000 && rng.bool() => net.downlink(&Down { fcnt: n_auth - 0x1_0000 + 1 + rng.below(16_000) as u32, port: Some(4), payload: &[4], confirmed: true, ..Default::default() }),
            RK::Stale => net.downlink(&Down { fcnt: n_auth.saturating_sub(1 + rng.below(3) as u32), port: Some(4), payload: &[4], confirmed: true, ..Default::default() }),
            RK::ExactMaxBadMic => {
                // MACPayload = 7 (FHDR) + 1 (FPort) + 51 = 59 bytes, the RX2 limit in these plans
                let mut v = net.downlink(&Down { fcnt: n_auth + 1, port: Some(4), payload: &rng.bytes(51), ..Default::default() });
                let l = v.len();
                v[l - 1] ^= 0x5A;
                v
            }
            RK::WithinLimitBadMic => {
                let m = crate::c05::max_mac_payload(reg, reg.rx2_default().1).unwrap_or(59);
                let len = if m > 60 && rng.chance(2, 3) { rng.range(60, m as u64) as usize } else { m - rng.below(3) as usize };
                col.event("inserted_within_limit_long_frames");
                if rng.bool() {
                    let mut v = net.downlink(&Down { fcnt: n_auth + 1, port: Some(4), payload: &rng.bytes(len - 8), confirmed: rng.bool(), ..Default::default() });
                    let l = v.len();
                    v[l - 1 - rng.below(4) as usize] ^= 0x5A;
                    v
                } else {
                    let other = Net { nwk: rng.arr(), app: rng.arr(), addr: net.addr };
                    other.downlink(&Down { fcnt: n_auth + 1, port: Some(4), payload: &rng.bytes(len - 8), confirmed: rng.bool(), ..Default::default() })
                }
            }
            RK::LongInFastRx1 => {
                let len = rng.range(231, 250) as usize;
                col.event("inserted_long_frames_in_fast_rx1");
                if rng.bool() {
                    let mut v = net.downlink(&Down { fcnt: n_auth + 1, port: Some(4), payload: &rng.bytes(len - 8), confirmed: rng.bool(), ..Default::default() });
                    let l = v.len();
                    v[l - 1 - rng.below(4) as usize] ^= 0x5A;
                    v
                } else {
                    let other = Net { nwk: rng.arr(), app: rng.arr(), addr: if rng.bool() { net.addr } else { rng.next_u32() } };
                    other.downlink(&Down { fcnt: n_auth + 1, port: Some(4), payload: &rng.bytes(len - 8), confirmed: rng.bool(), ..Default::default() })
                }
            }
            RK::FarFuture => net.downlink(&Down { fcnt: n_auth.saturating_add(16_385 + rng.below(30_000) as u32), port: Some(4), payload: &[4], confirmed: true, f_opts: &rx_timing_setup_req(5), ..Default::default() }),
            RK::Reflected => vec![], // filled at run time with B's own uplink of this transaction
            RK::JoinAcceptWhileJoined => {
                let ja = JoinAcceptDesc { join_nonce: 1, net_id: 1, dev_addr: 5, dl_settings: 0, rx_delay: 1, cf_list: None };
                encode_join_accept(&a.creds.app_key, &ja)
            }
            RK::Oversize => net.downlink(&Down { fcnt: n_auth + 1, port: Some(4), payload: &rng.bytes(200), confirmed: true, ..Default::default() }),
            RK::Truncated => {
                let mut v = net.downlink(&Down { fcnt: n_auth + 1, port: Some(4), payload: &[1, 2, 3], confirmed: rng.bool(), ..Default::default() });
                let cut = rng.range(1, 5) as usize;
                v.truncate(v.len() - cut);
                v
            }
        };
        // reference verdict (stale needs a session that has seen n_auth)
        if kind != RK::Reflected && kind != RK::Oversize && !ref_rejected(&net, cur_last, &frame) {
            // e.g. a bit flip in a don't-care position would be accepted by the reference: skip
            col.event("candidate_not_rejected_by_reference");
            if flip_bit.is_some() {
                return Some(nbits);
            }
            continue;
        }
        if kind == RK::Stale && !auth_delivered && !adr_mode {
            continue;
        }
        if adr_mode && matches!(kind, RK::Replay | RK::Stale) && !ref_rejected(&net, start_down, &frame) {
            continue;
        }
        // insertion point
        let mut sa = Script::silent();
        let mut sb = Script::silent();
        let mut pick = rng.below(if front == Front::AsyncC { 5 } else { 3 });
        if kind == RK::WithinLimitBadMic {
            // the windows that run at the RX2 rate: RX2 itself and, for a Class C device, the gaps
            pick = if front == Front::AsyncC && rng.bool() { 3 + rng.below(2) } else { 1 };
        }
        if kind == RK::LongInFastRx1 {
            // RX1 only (RX2 and the gaps run at a slower rate), alone or followed by an authentic frame
            pick = if rng.bool() { 0 } else { 2 };
        }
        if kind == RK::ExactMaxBadMic {
            // RX2 (its rate is the plan's default here), optionally followed by nothing: twin A's
            // RX2 is silent, so B must behave exactly like A
            pick = 1;
        }
        if kind == RK::Oversize && pick == 0 {
            // only the RX2 / Class C rate has a payload limit the frame clearly exceeds in
            // every region (RX1 may run at a rate that allows 250 bytes)
            pick = 1;
        }
        let point = match pick {
            0 => {
                sb.rx1.push(frame.clone());
                "rx1"
            }
            1 => {
                sb.rx2.push(frame.clone());
                "rx2"
            }
            2 => {
                // followed by an authentic accepted frame: nb same window, async next window
                let n = match cur {
                    Some(c) => c + 1,
                    None => 0,
                };
                let _ = k;
                let good = net.downlink(&Down { fcnt: n, port: Some(8), payload: &[8], ..Default::default() });
                if kind != RK::Oversize {
                    cur = Some(n);
                    last_good = Some(good.clone());
                    if front == Front::Nb {
                        sa.rx1.push(good.clone());
                        sb.rx1.push(frame.clone());
                        sb.rx1.push(good);
                    } else {
                        sa.rx2.push(good.clone());
                        sb.rx1.push(frame.clone());
                        sb.rx2.push(good);
                    }
                    "before-authentic"
                } else {
                    sb.rx2.push(frame.clone());
                    "rx2"
                }
            }
            3 => {
                sb.pre_rx1.push(frame.clone());
                col.event("inserted_classc");
                "classc-before-rx1"
            }
            _ => {
                sb.between.push(frame.clone());
                col.event("inserted_classc");
                "classc-between"
            }
        };
        col.event(match kind {
            RK::Random | RK::Truncated | RK::ExactMaxBadMic | RK::WithinLimitBadMic | RK::LongInFastRx1 => "inserted_random",
            RK::BitFlip => "inserted_bitflip",
            RK::Replay | RK::Stale | RK::FarFuture => "inserted_replay",
            RK::OtherSession | RK::JoinAcceptWhileJoined => "inserted_other_session",
            RK::OtherAddr => "inserted_other_addr",
            RK::Oversize => "inserted_oversize",
            RK::Reflected => "inserted_reflected_uplink",
        });
        inserted_kinds.push(kind);
        insertion_points.push(point);
        steps.push(Step { data: vec![4, k as u8], port: 5, confirmed: rng.chance(1, 4), a: sa, b: sb, b_may_end_early: kind == RK::Oversize, note: format!("insert:{:?}@{}", kind, point) });
    }
    if inserted_kinds.is_empty() {
        return Some(nbits);
    }
    // ---- tail: further uplinks, one after an accepted downlink ----------------------------------------
    if adr_mode {
        // enough silent uplinks for a wrongly reset ADR counter to show (ADRACKReq at 64, first
        // back-off step at 96)
        for _ in 0..rng.range(2, 40) {
            steps.push(silent("tail", rng));
        }
    }
    steps.push(silent("tail", rng));
    {
        let n = cur.map(|c| c + 1).unwrap_or(0);
        let fr = net.downlink(&Down { fcnt: n, port: Some(6), payload: &[6], ..Default::default() });
        steps.push(Step { data: vec![5], port: 2, confirmed: false, a: Script::rx1(fr.clone()), b: Script::rx1(fr), b_may_end_early: false, note: "tail-downlink".into() });
    }
    steps.push(silent("tail", rng));
    steps.push(silent("tail", rng));
    // ---- run the twins in lock-step --------------------------------------------------------------------
    let mut diverged = false;
    let history: Vec<String> = steps.iter().map(|s| s.note.clone()).collect();
    for (i, st) in steps.iter().enumerate() {
        let mut sb = st.b.clone();
        let ea = a.ev_len();
        let ra_ = a.transact(Action::Send { data: &st.data, port: st.port, confirmed: st.confirmed }, &st.a);
        // reflection: B hears its own uplink of this very transaction (identical to A's)
        if st.note.starts_with("insert:Reflected") {
            if let Some(Ev::Tx { bytes, .. }) = a.tx_since(ea).first() {
                for list in [&mut sb.rx1, &mut sb.rx2, &mut sb.pre_rx1, &mut sb.between] {
                    for f in list.iter_mut() {
                        if f.is_empty() {
                            *f = bytes.clone();
                        }
                    }
                }
            }
        }
        let eb = b.ev_len();
        let rb_ = b.transact(Action::Send { data: &st.data, port: st.port, confirmed: st.confirmed }, &sb);
        let la = filter(&a.evs_since(ea));
        let lb = filter(&b.evs_since(eb));
        col.event("twins_compared");
        if front == Front::Nb && b.window_notes.iter().any(|n| n.ends_with("NoUpdate")) {
            col.event("nb_noupdate_seen");
        }
        let what = pending.join("+");
        let kinds = format!("{:?}", inserted_kinds);
        let ctx = |k: &str| json!({"kind": k, "front": front.name(), "region": reg.name(), "history": history, "step": i, "step_note": st.note, "pending": what, "inserted": kinds, "insertion_points": insertion_points, "resp_a": format!("{:?}", ra_), "resp_b": format!("{:?}", rb_), "events_a": format!("{:?}", la), "events_b": format!("{:?}", lb), "b_window_notes": b.window_notes, "start_fcnt_up": start_up, "start_fcnt_down": start_down});
        if let Resp::Panic(m, l) = &rb_ {
            col.violation(&format!("C07|panic|{}|{}", short_loc(l), st.note.split('@').next().unwrap_or("")), "twin B panicked", json!({"ctx": ctx("panic"), "msg": m}));
            return Some(nbits);
        }
        // attribute a divergence to the most recent inserted frame at or before this step
        let recent = steps[..=i].iter().rev().find(|s| s.note.starts_with("insert:")).map(|s| s.note.clone()).unwrap_or_default();
        let (rk, rp) = recent.trim_start_matches("insert:").split_once('@').unwrap_or(("none", "none"));
        let sig_tail = format!("{}|{}|{}", if front == Front::Nb { "nb" } else { "async" }, rk, if rp.starts_with("classc") { "classC-gap" } else { "classA-window" });
        if st.note.starts_with("insert:") && front == Front::Nb && !st.b_may_end_early {
            // each inserted frame must be answered NoUpdate
            let n_inserted = 1;
            let noupd = b.window_notes.iter().filter(|n| n.ends_with("NoUpdate")).count();
            if noupd < n_inserted && !b.window_notes.is_empty() && !b.window_notes.iter().any(|n| n.starts_with("err:")) {
                col.violation(&format!("C07|not-reported-as-noupdate|{}", sig_tail), "a rejected frame was not reported as 'no update'", ctx("noupdate"));
            }
        }
        let same_events = if st.b_may_end_early { lb.len() <= la.len() && la[..lb.len()] == lb[..] } else { la == lb };
        if ra_ != rb_ || !same_events {
            let which = if ra_ != rb_ { "response" } else { "radio-events" };
            // classify the first differing event
            let mut detail = "";
            for (x, y) in la.iter().zip(lb.iter()) {
                if x != y {
                    detail = match (x, y) {
                        (Ev::Tx { bytes: b1, .. }, Ev::Tx { bytes: b2, .. }) => {
                            if b1.len() != b2.len() {
                                "uplink-length"
                            } else if b1.get(6..8) != b2.get(6..8) {
                                "uplink-fcnt"
                            } else if b1.get(5) != b2.get(5) {
                                "uplink-fctrl"
                            } else {
                                "uplink-bytes"
                            }
                        }
                        (Ev::SetupRx { .. }, Ev::SetupRx { .. }) => "rx-config",
                        (Ev::TimerAt(_), Ev::TimerAt(_)) => "timer",
                        _ => "event-kind",
                    };
                    break;
                }
            }
            if detail.is_empty() && la.len() != lb.len() {
                detail = "event-count";
            }
            col.violation(
                &format!("C07|twins-diverge|{}|{}", if which == "response" { "response" } else { detail }, sig_tail),
                "twin B (which additionally received rejected frames) behaves differently from twin A",
                ctx("diverge"),
            );
            diverged = true;
            break;
        }
        // a full queue is looked at right after the transaction with the rejected frame (a later
        // accepted downlink would displace an entry in both twins alike)
        if queue_full && st.note.starts_with("insert:") {
            let cx = ctx("queue");
            let qa = a.take_downlinks();
            let qb = b.take_downlinks();
            if qa != qb {
                col.violation(
                    &format!("C07|twins-diverge|delivered-downlinks|{}|queue-full", sig_tail),
                    "the downlinks waiting for the application differ between the twins after a rejected frame",
                    json!({"ctx": cx, "queue_a": qa.iter().map(|(p, d)| format!("{}:{}", p, hex(d))).collect::<Vec<_>>(), "queue_b": qb.iter().map(|(p, d)| format!("{}:{}", p, hex(d))).collect::<Vec<_>>()}),
                );
                diverged = true;
                break;
            }
        }
    }
    // what the application finds in the downlink queue afterwards
    if !diverged {
        let qa = a.take_downlinks();
        let qb = b.take_downlinks();
        if qa != qb {
            col.violation(
                &format!("C07|twins-diverge|delivered-downlinks|{}|{}", if front == Front::Nb { "nb" } else { "async" }, if queue_full { "queue-full" } else { "queue-not-full" }),
                "the downlinks waiting for the application differ between the twins",
                json!({"front": front.name(), "region": reg.name(), "history": history, "inserted": format!("{:?}", inserted_kinds), "queue_a": qa.iter().map(|(p, d)| format!("{}:{}", p, hex(d))).collect::<Vec<_>>(), "queue_b": qb.iter().map(|(p, d)| format!("{}:{}", p, hex(d))).collect::<Vec<_>>()}),
            );
        }
    }
    col.eval(&format!("{}|{}|{}|{:?}|{:?}", front.name(), reg.name(), pending.join("+"), inserted_kinds, insertion_points));
    if col.want_sample() {
        col.sample(json!({"front": front.name(), "region": reg.name(), "history": history, "inserted": format!("{:?}", inserted_kinds), "points": insertion_points, "diverged": diverged}));
    }
    Some(nbits)
}

fn join_twins(front: Front, reg: Reg, rng: &mut Prng, col: &mut Collector) {
    let seed = rng.next_u64();
    let creds = default_creds(rng);
    let opts = DevOpts { rng_seed: Some(seed), ..Default::default() };
    let mut a: Dev = Dev::new(front, reg, creds.clone(), &opts);
    let mut b: Dev = Dev::new(front, reg, creds.clone(), &opts);
    let ja = JoinAcceptDesc { join_nonce: rng.below(1 << 24) as u32, net_id: 3, dev_addr: rng.next_u32(), dl_settings: 0, rx_delay: rng.range(0, 5) as u8, cf_list: None };
    let good = encode_join_accept(&creds.app_key, &ja);
    // half of the twins have an earlier life: a first session in which the network moved RX2, the RX1
    // offset and the RX1 delay; whatever that session left behind must not become visible through a
    // rejected frame of the re-join either
    if rng.bool() {
        let ja0 = JoinAcceptDesc { join_nonce: rng.below(1 << 24) as u32, net_id: 3, dev_addr: rng.next_u32(), dl_settings: 0, rx_delay: rng.range(0, 4) as u8, cf_list: None };
        let w0 = encode_join_accept(&creds.app_key, &ja0);
        let r0a = a.transact(Action::Join, &Script::rx1(w0.clone()));
        let r0b = b.transact(Action::Join, &Script::rx1(w0));
        if let (Resp::JoinSuccess, Resp::JoinSuccess, Some((nwk, app, addr))) = (&r0a, &r0b, a.session_keys()) {
            let net0 = Net { nwk, app, addr };
            let (lo, hi) = reg.inner_band();
            let f = lo + rng.below(((hi - lo) / 100) as u64) as u32 * 100;
            let mut cmds = rx_param_setup_req((rng.below(3) as u8) << 4 | reg.rx2_default().1, f / 100);
            cmds.extend(rx_timing_setup_req(rng.range(1, 6) as u8));
            let fr = net0.mac_downlink(0, &cmds, true);
            for _ in 0..2 {
                let sc = Script::rx1(fr.clone());
                a.transact(Action::Send { data: &[9], port: 9, confirmed: false }, &sc);
                b.transact(Action::Send { data: &[9], port: 9, confirmed: false }, &sc);
            }
            col.event("rejoin_after_earlier_session");
        }
    }
    let attempts = rng.range(1, 3);
    let mut kinds = vec![];
    for att in 0..=attempts {
        let last = att == attempts;
        let mut sa = Script::silent();
        let mut sb = Script::silent();
        // rejected JoinAccept variants for B
        let kind = rng.below(6);
        let bad: Vec<u8> = match kind {
            // authentic in every respect but the Major version bits of its MHDR (the MIC covers the
            // MHDR as sent): not a LoRaWAN R1 frame, to be ignored
            5 => encode_join_accept_mhdr(&creds.app_key, &ja, 0x20 | rng.range(1, 4) as u8),
            0 => {
                let mut k2 = creds.app_key;
                k2[rng.below(16) as usize] ^= 1 << rng.below(8);
                encode_join_accept(&k2, &ja)
            }
            1 => {
                let mut v = good.clone();
                let p = 1 + rng.below((v.len() - 1) as u64) as usize;
                v[p] ^= 1 << rng.below(8);
                v
            }
            2 => rng.bytes(17),
            3 => {
                let mut v = good.clone();
                v.truncate(v.len() - 1);
                v
            }
            _ => {
                let n = Net { nwk: rng.arr(), app: rng.arr(), addr: 1 };
                n.downlink(&Down { fcnt: 0, port: Some(1), payload: &[1], ..Default::default() })
            }
        };
        kinds.push(kind);
        if open_join_accept(&creds.app_key, &bad).map(|x| x.1).unwrap_or(false) {
            continue;
        }
        let point = rng.below(if front == Front::AsyncC { 4 } else { 3 });
        match point {
            0 => sb.rx1.push(bad),
            1 => sb.rx2.push(bad),
            2 => {
                if last {
                    if front == Front::Nb {
                        sb.rx1.push(bad);
                    } else {
                        sb.rx1.push(bad);
                    }
                } else {
                    sb.rx2.push(bad);
                }
            }
            _ => sb.pre_rx1.push(bad),
        }
        if last {
            // the valid accept for both (nb: after B's bad frame in RX1 if that is where it went;
            // otherwise RX2 for both)
            if front == Front::Nb && !sb.rx1.is_empty() {
                sa.rx1.push(good.clone());
                sb.rx1.push(good.clone());
            } else {
                sa.rx2.retain(|_| false);
                sb.rx2.retain(|_| false);
                sa.rx2.push(good.clone());
                sb.rx2.push(good.clone());
            }
        }
        let ea = a.ev_len();
        let eb = b.ev_len();
        let ra_ = a.transact(Action::Join, &sa);
        let rb_ = b.transact(Action::Join, &sb);
        let la = filter(&a.evs_since(ea));
        let lb = filter(&b.evs_since(eb));
        col.event("join_twins_compared");
        col.event("twins_compared");
        if ra_ != rb_ || la != lb {
            col.violation(
                &format!("C07|join-twins-diverge|{}|kind={}|point={}|last={}", if front == Front::Nb { "nb" } else { front.name() }, kind, point, last),
                "a rejected frame during a join attempt changed the device's behaviour",
                json!({"front": front.name(), "region": reg.name(), "attempt": att, "resp_a": format!("{:?}", ra_), "resp_b": format!("{:?}", rb_), "events_a": format!("{:?}", la), "events_b": format!("{:?}", lb)}),
            );
            return;
        }
    }
    // after the join both must hold the same session and send the same first uplinks
    if a.session_keys() != b.session_keys() {
        col.violation("C07|join-twins-diverge|session", "twins hold different sessions after the same join", json!({"front": front.name(), "region": reg.name()}));
        return;
    }
    for _ in 0..2 {
        let ea = a.ev_len();
        let eb = b.ev_len();
        let ra_ = a.transact(Action::Send { data: &[1], port: 1, confirmed: false }, &Script::silent());
        let rb_ = b.transact(Action::Send { data: &[1], port: 1, confirmed: false }, &Script::silent());
        if ra_ != rb_ || filter(&a.evs_since(ea)) != filter(&b.evs_since(eb)) {
            col.violation(&format!("C07|join-twins-diverge|first-uplinks|{}", front.name()), "twins behave differently after the same join", json!({"front": front.name(), "region": reg.name(), "kinds": kinds}));
            return;
        }
    }
    col.eval(&format!("join|{}|{}|{:?}", front.name(), reg.name(), kinds));
}


/// State-machine twins built with a small radio buffer (const generic N): twin B additionally hears frames
/// that are longer than the buffer (noise, or frames of another session) but within the window's size
/// limit - frames it cannot accept. Whatever it answers to them itself, everything else (the authentic
/// downlink that follows in the same or the next window, every later uplink and radio request) is the same
/// as for twin A.
fn small_buffer_twins<const N: usize>(reg: crate::regions::Reg, rng: &mut Prng, col: &mut Collector) {
    let seed = rng.next_u64();
    let mut a: SmallNb<N> = SmallNb::new(reg, &mut Prng::new(seed));
    let mut b: SmallNb<N> = SmallNb::new(reg, &mut Prng::new(seed));
    let drs = crate::c12::uplink_drs(reg);
    let dr = *drs.iter().max().unwrap();
    a.dev.set_datarate(lorawan_device::region::DR::from(dr));
    b.dev.set_datarate(lorawan_device::region::DR::from(dr));
    let other = Net { nwk: rng.arr(), app: rng.arr(), addr: a.net.addr };
    let n = rng.range(4, 9);
    let mut fdown = 0u32;
    let mut trace: Vec<String> = vec![];
    for i in 0..n {
        let mut sa = Script::silent();
        let mut sb = Script::silent();
        let len = N + 1 + rng.below(20) as usize;
        let long: Vec<u8> = if rng.bool() {
            let mut v = rng.bytes(len);
            v[0] = 0x60;
            v
        } else {
            let payload = vec![0x33; len - 13];
            other.downlink(&Down { fcnt: fdown + 1, port: Some(9), payload: &payload, ..Default::default() })
        };
        let what = rng.below(4);
        // an authentic downlink both twins hear (half of the time)
        let auth = if rng.bool() {
            fdown += 1;
            Some(a.net.downlink(&Down { fcnt: fdown, port: Some(5), payload: &[i as u8], confirmed: rng.bool(), ..Default::default() }))
        } else {
            None
        };
        match what {
            0 => {
                // long frame in RX1, authentic one behind it in the same window
                sb.rx1.push(long.clone());
                if let Some(f) = &auth {
                    sa.rx1.push(f.clone());
                    sb.rx1.push(f.clone());
                }
            }
            1 => {
                // long frame in RX1, authentic one in RX2
                sb.rx1.push(long.clone());
                if let Some(f) = &auth {
                    sa.rx2.push(f.clone());
                    sb.rx2.push(f.clone());
                }
            }
            2 => {
                sb.rx2.push(long.clone());
                if let Some(f) = &auth {
                    sa.rx2.push(f.clone());
                    sb.rx2.push(f.clone());
                }
            }
            _ => {
                if let Some(f) = &auth {
                    sa.rx1.push(f.clone());
                    sb.rx1.push(f.clone());
                }
            }
        }
        if what < 3 {
            col.event("rejected_frames_longer_than_buffer");
        }
        let (ea, eb) = (a.ev_len(), b.ev_len());
        let data = rng.bytes_below(4);
        let confirmed = rng.chance(1, 4);
        let ra = a.transact(Action::Send { data: &data, port: 3, confirmed }, &sa);
        let rb = b.transact(Action::Send { data: &data, port: 3, confirmed }, &sb);
        trace.push(format!("{}{}:{}/{}", ["long-then-auth-rx1", "long-rx1", "long-rx2", "plain"][what as usize], if auth.is_some() { "+auth" } else { "" }, ra.kind(), rb.kind()));
        for (r, who) in [(&ra, "A"), (&rb, "B")] {
            if let Resp::Panic(m, l) = r {
                col.violation(&format!("C07|panic|small-buffer|{}", short_loc(l)), "device panicked", json!({"twin": who, "msg": m, "loc": l, "buffer": N, "trace": trace}));
                return;
            }
        }
        let xa: Vec<String> = a.evs_since(ea).iter().map(|e| format!("{:?}", e)).collect();
        let xb: Vec<String> = b.evs_since(eb).iter().map(|e| format!("{:?}", e)).collect();
        let same_resp = format!("{:?}", ra) == format!("{:?}", rb);
        if !same_resp || xa != xb {
            let first = xa.iter().zip(xb.iter()).position(|(x, y)| x != y).unwrap_or(xa.len().min(xb.len()));
            col.violation(
                &format!("C07|twins-diverge|small-buffer|buf={}|{}|{}", N, ["long-then-auth-rx1", "long-rx1", "long-rx2", "plain"][what as usize], if !same_resp { "response" } else { "radio-events" }),
                "twin B (which additionally heard frames longer than its radio buffer) behaves differently from twin A",
                json!({"region": reg.name(), "buffer": N, "step": i, "trace": trace, "response_a": format!("{:?}", ra), "response_b": format!("{:?}", rb), "first_differing_event": first, "a": xa.get(first), "b": xb.get(first)}),
            );
            return;
        }
    }
    col.event("small_buffer_twin_histories");
    col.eval(&format!("small-buffer-twins|{}|buf={}|{}", reg.name(), N, trace.iter().map(|t| t.split(':').next().unwrap_or("")).collect::<Vec<_>>().join(",")));
}
