#!/usr/bin/env python3
"""Mutation sweep over one source file of /repo (scratch worktrees only; /repo itself is never touched).

  tools/mutsweep.py <repo-relative file> [--props "C09 C10"] [--workers 6] [--max 200] [--seed 1] [--lines A-B]

For every sampled mutant (relational / arithmetic / logical operator swaps, integer literal +1, boolean flips,
deletion of simple assignment statements) of the non-test part of the file:
  1. build the harness crates of the properties anchored in the file against the mutated tree (fails: stillborn),
  2. run those monitors (quick tier): any unlisted violation or stall  -> CAUGHT,
  3. otherwise run the repository's own tests of the mutated crate:   fail -> killed by the existing tests,
  4. otherwise                                                          -> SURVIVOR (a hole, or an equivalent mutant).
Results: /tmp/ms/results/<file>.jsonl and a summary on stdout. Nothing here is evidence; it is a tool for finding
weak spots of the monitors.
"""
import json, os, random, re, subprocess, sys, shutil, time, multiprocessing

BASE = os.environ.get("MS_BASE", "/tmp/ms")
CRATE_OF = {"C01": "lrv-codec", "C02": "lrv-codec", "C03": "lrv-codec", "C19": "lrv-codec", "C13": "lrv-phyref", "C14": "lrv-chip", "C18": "lrv-chip",
            "C15": "lrv-phy", "C16": "lrv-phy", "C17": "lrv-phy"}
REPO_PKG = {"lorawan-encoding": "lorawan", "lorawan-device": "lorawan-device", "lora-phy": "lora-phy", "lora-modulation": "lora-modulation", "lorawan-macros": "lorawan-macros"}


def crate_of(p):
    return CRATE_OF.get(p, "lrv-mac")


def anchors():
    m = {}
    for l in open("/verif/properties.jsonl"):
        p = json.loads(l)
        for f in p["anchors"]["files"]:
            m.setdefault(f, []).append(p["id"])
    return m


def code_lines(src):
    """indices of lines that belong to non-test code and are worth mutating"""
    out = []
    skip_until_indent = None
    prev_attr_gated = False
    for i, l in enumerate(src):
        s = l.strip()
        indent = len(l) - len(l.lstrip())
        if skip_until_indent is not None:
            if s.startswith("}") and indent == skip_until_indent:
                skip_until_indent = None
            continue
        if re.match(r'#\[cfg\((all\()?feature = "(certification|multicast|defmt-03|experimental|verif-hooks|embassy-time)"', s) or s.startswith("#[cfg(not(feature") or s.startswith("#[cfg(test)]") or s.startswith("#[test]"):
            prev_attr_gated = True
            continue
        if prev_attr_gated and s:
            if s.startswith("#["):
                continue
            prev_attr_gated = False
            if s.endswith("{"):
                skip_until_indent = indent
            continue
        if not s or s.startswith("//") or s.startswith("#[") or s.startswith("#!") or s.startswith("use ") or s.startswith("pub use ") or s.startswith("///"):
            continue
        if re.match(r"(debug|info|trace|warn|error)!\(", s) or "defmt" in s:
            continue
        out.append(i)
    return out


def strip_strings(l):
    return re.sub(r'"(?:[^"\\]|\\.)*"', lambda m: '"' + " " * (len(m.group(0)) - 2) + '"', l)


def mutants_of_line(l):
    """yields (op, new_line)"""
    code = strip_strings(l)
    cpos = code.find("//")
    if cpos >= 0:
        code = code[:cpos] + " " * (len(code) - cpos)
    res = []

    def sub(m, rep, op):
        res.append((op, l[:m.start()] + rep + l[m.end():]))

    for m in re.finditer(r"<=|>=|==|!=", code):
        t = m.group(0)
        if t == "<=" and code[m.start() - 1:m.start()] == "<":
            continue
        if t == ">=" and code[m.start() - 1:m.start()] == ">":
            continue  # >>=
        rep = {"<=": "<", ">=": ">", "==": "!=", "!=": "=="}[t]
        sub(m, rep, f"{t}->{rep}")
    for m in re.finditer(r" (<|>) ", code):
        t = m.group(1)
        res.append((f"{t}->{t}=", l[:m.start(1)] + t + "=" + l[m.end(1):]))
    for m in re.finditer(r"&&|\|\|", code):
        t = m.group(0)
        if t == "||" and re.search(r"\|\|\s*(\{|[a-z_]+\s*\|)", code[m.start():m.start() + 12]) and "if" not in code and "&&" not in code:
            continue  # closure
        sub(m, "||" if t == "&&" else "&&", f"{t}->swap")
    for m in re.finditer(r" (\+|-) ", code):
        t = m.group(1)
        res.append((f"{t}->swap", l[:m.start(1)] + ("-" if t == "+" else "+") + l[m.end(1):]))
    for m in re.finditer(r"(?<![\w.])(0x[0-9a-fA-F_]+|\d[\d_]*)(?![\w.]|\.\d)", code):
        t = m.group(1)
        try:
            v = int(t.replace("_", ""), 16 if t.startswith("0x") else 10)
        except ValueError:
            continue
        nv = v + 1
        rep = hex(nv) if t.startswith("0x") else str(nv)
        sub(m, rep, f"lit {t}->{rep}")
        if v > 1:
            nv = v - 1
            rep = hex(nv) if t.startswith("0x") else str(nv)
            sub(m, rep, f"lit {t}->{rep}")
    for m in re.finditer(r"\b(true|false)\b", code):
        t = m.group(1)
        sub(m, "false" if t == "true" else "true", f"{t}->flip")
    s = l.strip()
    if re.match(r"(self\.[\w.\[\]]+|\*?[a-z_][\w.]*)\s*(\+|-|\||&)?=\s*[^=].*;$", s) and not s.startswith("let "):
        res.append(("delete-stmt", l[:len(l) - len(l.lstrip())] + "// (statement deleted)"))
    # a call made for its effect only: `self.a.b(...);` / `x.y(...);`
    if re.match(r"(self|[a-z_][\w]*)(\.[\w]+)+\(.*\);$", s) and not s.startswith(("let ", "return ")) and "?" not in s and ".await" not in s:
        res.append(("delete-call", l[:len(l) - len(l.lstrip())] + "// (call deleted)"))
    # neighbouring enum variant of the `Name::_N` families (DR::_3, Window::_1, Rx::_2, SpreadingFactor::_7 ...)
    for m in re.finditer(r"\b([A-Z]\w*)::_(\d+)\b", code):
        n = int(m.group(2))
        for nn in (n + 1, n - 1):
            if nn >= 0:
                res.append((f"variant {m.group(0)}->_{nn}", l[:m.start(2)] + str(nn) + l[m.end(2):]))
    for a, b in (("Frame::Join", "Frame::Data"), ("Frame::Data", "Frame::Join")):
        for m in re.finditer(re.escape(a) + r"\b", code):
            res.append((f"variant {a}->{b}", l[:m.start()] + b + l[m.end():]))
    # an arm or tail expression that yields Some(..) yields None instead
    m = re.match(r"^(\s*(?:.*=> )?)Some\((.*)\)(,?)$", code)
    if m and code.count("(") == code.count(")"):
        res.append(("some->none", l[:m.end(1)] + "None" + m.group(3)))
    # negate a whole `if` condition
    m = re.match(r"^(\s*(?:\} else )?if )(?!let )(.+) \{$", code)
    if m and "let " not in m.group(2):
        res.append(("negate-if", l[:m.start(2)] + "!(" + l[m.start(2):m.end(2)] + ")" + l[m.end(2):]))
    # drop a logical not
    for m in re.finditer(r"(?<![\w)\]])!(?=[a-z_(*])", code):
        if code[m.end():m.end() + 1] == "=":
            continue
        res.append(("drop-not", l[:m.start()] + l[m.end():]))
    return res


def sh(cmd, cwd, env, timeout):
    # own process group, so that a mutant that makes a test binary spin is killed with its cargo parent
    import signal
    p = subprocess.Popen(cmd, cwd=cwd, env=env, stdout=subprocess.PIPE, stderr=subprocess.STDOUT, text=True, errors="replace", start_new_session=True)
    try:
        out, _ = p.communicate(timeout=timeout)
        return p.returncode, out
    except subprocess.TimeoutExpired:
        try:
            os.killpg(p.pid, signal.SIGKILL)
        except ProcessLookupError:
            pass
        out, _ = p.communicate()
        return None, out or ""


KNOWN = None


def known_open():
    global KNOWN
    if KNOWN is None:
        KNOWN = [e["signature"] for e in json.load(open("/verif/known_findings.json"))["findings"] if str(e.get("status", "")).startswith("open")]
    return KNOWN


def is_known(sig):
    return any((sig.startswith(k[:-1]) if k.endswith("*") else sig == k) for k in known_open())


def worker(args):
    wid, jobs, relfile, props, seed = args
    wt = f"{BASE}/w{wid}"
    hz = f"{BASE}/h{wid}"
    tgt = f"{BASE}/t{wid}"
    subprocess.run(["git", "-C", "/repo", "worktree", "remove", "--force", wt], stdout=subprocess.DEVNULL, stderr=subprocess.DEVNULL)
    shutil.rmtree(wt, ignore_errors=True)
    shutil.rmtree(hz, ignore_errors=True)
    for attempt in range(6):
        # (git serialises worktree administration with a lock: retry when another worker holds it)
        r = subprocess.run(["git", "-C", "/repo", "worktree", "add", "--detach", wt, "HEAD"], stdout=subprocess.DEVNULL, stderr=subprocess.DEVNULL)
        if r.returncode == 0:
            break
        time.sleep(1 + wid)
        subprocess.run(["git", "-C", "/repo", "worktree", "prune"], stdout=subprocess.DEVNULL, stderr=subprocess.DEVNULL)
        shutil.rmtree(wt, ignore_errors=True)
    else:
        raise RuntimeError("git worktree add failed for " + wt)
    subprocess.run(["rsync", "-a", "--exclude", "target", "/verif/harness/", hz + "/"], check=True)
    for f in os.listdir(hz):
        ct = os.path.join(hz, f, "Cargo.toml")
        if os.path.exists(ct):
            s = open(ct).read().replace("/repo/", wt + "/")
            open(ct, "w").write(s)
    env = dict(os.environ, CARGO_NET_OFFLINE="true", CARGO_TARGET_DIR=tgt, CARGO_TERM_COLOR="never")
    env.pop("RUSTFLAGS", None)
    path = os.path.join(wt, relfile)
    orig = open(path).read()
    crates = sorted(set(crate_of(p) for p in props))
    pkg = REPO_PKG[relfile.split("/")[0]]
    results = []
    out = open(f"{BASE}/results/{relfile.replace('/', '_')}.w{wid}.jsonl", "a")
    for (lineno, op, newline) in jobs:
        src = orig.split("\n")
        old = src[lineno]
        src[lineno] = newline
        open(path, "w").write("\n".join(src))
        rec = dict(file=relfile, line=lineno + 1, op=op, old=old.strip(), new=newline.strip())
        t0 = time.time()
        rc, o = sh(["cargo", "build", "--profile", "verif"] + sum((["-p", c] for c in crates), []), hz, env, 1200)
        if rc != 0:
            rec["verdict"] = "stillborn"
        else:
            caught = []
            for p in props:
                rc, o = sh([f"{tgt}/verif/{crate_of(p)}", p, "--tier", "quick", "--seed", str(seed), "--threads", "3", "--stall", "60"], hz, env, 900)
                res = None
                for line in (o or "").splitlines():
                    if line.startswith("LRV-RESULT "):
                        try:
                            res = json.loads(line[11:])
                        except json.JSONDecodeError:
                            pass
                if res is None:
                    caught.append(f"{p}:no-result(rc={rc})")
                    break
                if res.get("kind") == "stall":
                    caught.append(f"{p}:stall")
                    break
                v = [x["sig"] for x in res.get("violations", []) if not is_known(x["sig"])]
                if v:
                    caught.append(f"{p}:{len(v)}:{v[0][:90]}")
                    break
                if res.get("events", {}).get("harness_panic"):
                    caught.append(f"{p}:harness-panic")
                    break
            if caught:
                rec["verdict"] = "caught"
                rec["by"] = caught
            else:
                rc, o = sh(["cargo", "test", "--offline", "-p", pkg], wt, env, 1800)
                if rc == 0:
                    rec["verdict"] = "SURVIVOR"
                else:
                    rec["verdict"] = "killed-by-tests"
        rec["secs"] = round(time.time() - t0, 1)
        out.write(json.dumps(rec) + "\n")
        out.flush()
        results.append(rec)
    open(path, "w").write(orig)
    subprocess.run(["git", "-C", "/repo", "worktree", "remove", "--force", wt], stdout=subprocess.DEVNULL, stderr=subprocess.DEVNULL)
    shutil.rmtree(wt, ignore_errors=True)
    shutil.rmtree(hz, ignore_errors=True)
    return results


def main():
    a = sys.argv[1:]
    if not a:
        print(__doc__)
        sys.exit(2)
    relfile = a[0]
    opts = dict(props=None, workers=6, max=200, seed=1, lines=None, list=False, keep_targets=False, retry=False, retry_from=None, ops=None, skip=0)
    i = 1
    while i < len(a):
        k = a[i].lstrip("-").replace("-", "_")
        if k in ("list", "keep_targets", "retry"):
            opts[k] = True
            i += 1
        else:
            opts[k] = a[i + 1]
            i += 2
    props = opts["props"].split() if opts["props"] else anchors().get(relfile, [])
    if not props:
        print("no properties anchored in", relfile)
        sys.exit(2)
    src = open(os.path.join("/repo", relfile)).read().split("\n")
    lines = code_lines(src)
    if opts["lines"]:
        lo, hi = [int(x) for x in opts["lines"].split("-")]
        lines = [i for i in lines if lo <= i + 1 <= hi]
    muts = []
    for i in lines:
        for (op, nl) in mutants_of_line(src[i]):
            if nl != src[i]:
                muts.append((i, op, nl))
    if opts["ops"]:
        keep = tuple(opts["ops"].split(","))
        muts = [m for m in muts if m[1].split(" ")[0].startswith(keep)]
    rnd = random.Random(int(opts["seed"]))
    rnd.shuffle(muts)
    total = len(muts)
    muts = muts[int(opts["skip"]): int(opts["skip"]) + int(opts["max"])]
    if opts["retry"]:
        # only the survivors of earlier sweeps of this file (any results directory), e.g. with more properties
        import glob
        prev = set()
        for d in ([opts["retry_from"]] if opts["retry_from"] else ["/tmp/ms/results", "/tmp/ms2/results", f"{BASE}/results"]):
            for fn in glob.glob(os.path.join(d, relfile.replace("/", "_") + ".w*.jsonl")):
                for l in open(fn):
                    r = json.loads(l)
                    if r["verdict"] == "SURVIVOR":
                        prev.add((r["line"] - 1, r["op"], r["new"]))
        muts = [(i, op, nl) for (i, op, nl) in [(i, op, nl) for i in lines for (op, nl) in mutants_of_line(src[i])] if (i, op, nl.strip()) in prev]
        total = len(prev)
    print(f"{relfile}: {total} mutation sites, running {len(muts)} against {' '.join(props)}")
    if opts["list"]:
        for m in muts[:40]:
            print(m[0] + 1, m[1], "|", m[2].strip()[:120])
        return
    os.makedirs(f"{BASE}/results", exist_ok=True)
    nw = max(1, min(int(opts["workers"]), len(muts)))
    chunks = [muts[k::nw] for k in range(nw)]
    with multiprocessing.Pool(nw) as pool:
        allres = pool.map(worker, [(k, chunks[k], relfile, props, int(opts["seed"])) for k in range(nw)])
    subprocess.run(["git", "-C", "/repo", "worktree", "prune"])
    flat = [r for rs in allres for r in rs]
    cnt = {}
    for r in flat:
        cnt[r["verdict"]] = cnt.get(r["verdict"], 0) + 1
    print("summary:", cnt)
    for r in sorted(flat, key=lambda r: r["line"]):
        if r["verdict"] == "SURVIVOR":
            print(f"  SURVIVOR {relfile}:{r['line']} [{r['op']}]  {r['old'][:90]}  ==>  {r['new'][:90]}")
    if not opts["keep_targets"]:
        for k in range(nw):
            shutil.rmtree(f"{BASE}/t{k}", ignore_errors=True)


if __name__ == "__main__":
    main()
