#!/bin/bash
# tools/run_some.sh <tier> <props...> - like run_all.sh for the given properties only
tier=$1; shift
cd "$(dirname "$0")/.."
for p in "$@"; do
  start=$(date +%s)
  out=$(./check $p --tier $tier 2>&1); rc=$?
  echo "$p rc=$rc $(( $(date +%s) - start ))s :: $(echo "$out" | grep -E "^C[0-9]+ |INCONCLUSIVE|VIOLATION|KNOWN-FINDING" | head -4 | cut -c1-220 | tr '\n' '|')"
done
