//! Shared pieces of the codec monitors: frame-description generator, the three crypto
//! variants, conversions between the reference's descriptions and the repo's types.

use core::num::NonZeroU8;
use lorawan::creator::{DataFrame, JoinAccept, JoinRequest, Payload};
use lorawan::default_crypto::{DefaultCrypto, DefaultNetworkCrypto};
use lorawan::keys::{Crypto, NetworkCrypto, AES128};
use lorawan::parser::{CfList, DataFrameType, DevAddr, DevEui, DevNonce, Error, Frequency, JoinEui, JoinNonce, NetId};
use lorawan::types::{ChannelMask, DLSettings};
use lrv_core::aes::Aes128;
use lrv_core::refcodec::*;
use lrv_core::Prng;

/// Third crypto variant: the `Crypto` trait implemented on top of the *reference* AES, so the
/// frame builders are also exercised against a user-supplied crypto provider.
pub struct RefCrypto(pub Aes128);

impl Crypto for RefCrypto {
    fn encrypt_block(&self, block: &mut [u8]) {
        let b: [u8; 16] = block.try_into().expect("16-byte block");
        block.copy_from_slice(&self.0.encrypt(&b));
    }
    fn calculate_mic(&self, b0: &[u8], data: &[u8]) -> [u8; 4] {
        let mut m = b0.to_vec();
        m.extend_from_slice(data);
        let t = self.0.cmac(&m);
        [t[0], t[1], t[2], t[3]]
    }
}
impl NetworkCrypto for RefCrypto {
    fn decrypt_block(&self, block: &mut [u8]) {
        let b: [u8; 16] = block.try_into().expect("16-byte block");
        block.copy_from_slice(&self.0.decrypt(&b));
    }
}

pub const VARIANTS: [&str; 3] = ["DefaultCrypto", "DefaultNetworkCrypto", "RefCrypto"];

pub fn frame_type(mtype: u8) -> DataFrameType {
    match mtype {
        MT_UNCONF_UP => DataFrameType::UnconfirmedUp,
        MT_UNCONF_DOWN => DataFrameType::UnconfirmedDown,
        MT_CONF_UP => DataFrameType::ConfirmedUp,
        _ => DataFrameType::ConfirmedDown,
    }
}

/// What the repo builder is asked to do with the reference's description.
/// `with_app` = whether an application crypto is supplied.
pub fn build_repo_data(d: &DataDesc, buf: &mut [u8], nwk: &[u8; 16], app: &[u8; 16], variant: usize, with_app: bool) -> Result<usize, Error> {
    let payload = match d.f_port {
        None => Payload::None,
        Some(0) => Payload::MacCommands(&d.frm),
        Some(p) => Payload::Data { f_port: NonZeroU8::new(p).unwrap(), data: &d.frm },
    };
    let f = DataFrame {
        frame_type: frame_type(d.mtype),
        dev_addr: DevAddr::from_value(d.dev_addr),
        adr: d.adr,
        adr_ack_req: d.adr_ack_req,
        ack: d.ack,
        f_pending: d.f_pending,
        fcnt: d.fcnt,
        f_opts: &d.f_opts,
        payload,
    };
    match variant {
        0 => {
            let n = DefaultCrypto::new(&AES128(*nwk));
            let a = DefaultCrypto::new(&AES128(*app));
            f.build_into(buf, &n, if with_app { Some(&a) } else { None }).map(|s| s.len())
        }
        1 => {
            let n = DefaultNetworkCrypto::new(&AES128(*nwk));
            let a = DefaultNetworkCrypto::new(&AES128(*app));
            f.build_into(buf, &n, if with_app { Some(&a) } else { None }).map(|s| s.len())
        }
        _ => {
            let n = RefCrypto(Aes128::new(nwk));
            let a = RefCrypto(Aes128::new(app));
            f.build_into(buf, &n, if with_app { Some(&a) } else { None }).map(|s| s.len())
        }
    }
}

pub fn build_repo_join_request(buf: &mut [u8], app_key: &[u8; 16], join_eui: &[u8; 8], dev_eui: &[u8; 8], nonce: u16, variant: usize) -> Result<usize, Error> {
    let jr = JoinRequest {
        join_eui: JoinEui::from_wire_bytes(*join_eui),
        dev_eui: DevEui::from_wire_bytes(*dev_eui),
        dev_nonce: DevNonce::from_value(nonce),
    };
    match variant {
        0 => jr.build_into(buf, &DefaultCrypto::new(&AES128(*app_key))).map(|s| s.len()),
        1 => jr.build_into(buf, &DefaultNetworkCrypto::new(&AES128(*app_key))).map(|s| s.len()),
        _ => jr.build_into(buf, &RefCrypto(Aes128::new(app_key))).map(|s| s.len()),
    }
}

/// CFList of the description kinds the repo type can express.
#[derive(Clone, Debug)]
pub enum CfDesc {
    None,
    Dynamic([u32; 5]), // raw 24-bit values
    Fixed([u8; 9]),
}

pub fn cf_bytes(c: &CfDesc) -> Option<[u8; 16]> {
    match c {
        CfDesc::None => None,
        CfDesc::Dynamic(f) => {
            let mut b = [0u8; 16];
            for i in 0..5 {
                b[3 * i..3 * i + 3].copy_from_slice(&f[i].to_le_bytes()[..3]);
            }
            b[15] = 0;
            Some(b)
        }
        CfDesc::Fixed(m) => {
            let mut b = [0u8; 16];
            b[..9].copy_from_slice(m);
            b[15] = 1;
            Some(b)
        }
    }
}

pub fn build_repo_join_accept(buf: &mut [u8], app_key: &[u8; 16], d: &JoinAcceptDesc, cf: &CfDesc, variant: usize) -> Result<usize, Error> {
    let c_f_list = match cf {
        CfDesc::None => None,
        CfDesc::Dynamic(f) => {
            let mut fr = [Frequency::default(); 5];
            for i in 0..5 {
                let le = f[i].to_le_bytes();
                fr[i] = Frequency::from_wire_bytes([le[0], le[1], le[2]]);
            }
            Some(CfList::DynamicChannel(fr))
        }
        CfDesc::Fixed(m) => Some(CfList::FixedChannel(ChannelMask::<9>::from(*m))),
    };
    let ja = JoinAccept {
        join_nonce: JoinNonce::from_value(d.join_nonce),
        net_id: NetId::from_value(d.net_id),
        dev_addr: DevAddr::from_value(d.dev_addr),
        dl_settings: DLSettings::new(d.dl_settings),
        rx_delay: d.rx_delay,
        c_f_list,
    };
    match variant {
        1 => ja.build_into(buf, &DefaultNetworkCrypto::new(&AES128(*app_key))).map(|s| s.len()),
        _ => ja.build_into(buf, &RefCrypto(Aes128::new(app_key))).map(|s| s.len()),
    }
}

pub const FCNT_SPECIAL: [u32; 14] = [
    0, 1, 0xFFFE, 0xFFFF, 0x1_0000, 0x1_0001, 0x1_FFFF, 0x2_0000, 0x7FFF_FFFF, 0x8000_0000, 0xFFFE_FFFF, 0xFFFF_0000, 0xFFFF_FFFE, 0xFFFF_FFFF,
];

pub fn fcnt_class(f: u32) -> &'static str {
    match f {
        0 => "0",
        1..=0xFFFD => "lo16",
        0xFFFE..=0xFFFF => "edge16",
        0x1_0000..=0x1_0001 => "just32",
        0xFFFF_FFFE..=0xFFFF_FFFF => "max",
        _ if f & 0xFFFF >= 0xFFFE || f & 0xFFFF <= 1 => "epoch-edge",
        _ => "hi32",
    }
}

pub fn gen_fcnt(rng: &mut Prng) -> u32 {
    match rng.below(4) {
        0 => *rng.pick(&FCNT_SPECIAL),
        1 => rng.below(0x1_0000) as u32,
        _ => rng.next_u32(),
    }
}

/// Generates a legal description with the given shape parameters.
pub fn gen_desc(rng: &mut Prng, mtype: u8, flags: u8, fopts_len: usize, kind: u8, len: usize, fcnt: u32) -> DataDesc {
    let (f_port, frm) = match kind {
        0 => (None, vec![]),
        1 => (Some(rng.range(1, 255) as u8), rng.bytes(len)),
        _ => (Some(0u8), rng.bytes(len)),
    };
    DataDesc {
        mtype,
        dev_addr: if rng.chance(1, 8) { *rng.pick(&[0u32, 0xFFFF_FFFF, 0x0102_0304, 0x8000_0000]) } else { rng.next_u32() },
        adr: flags & 1 != 0,
        adr_ack_req: flags & 2 != 0,
        ack: flags & 4 != 0,
        f_pending: flags & 8 != 0,
        fcnt,
        f_opts: rng.bytes(fopts_len),
        f_port,
        frm,
    }
}

/// A random legal description.
pub fn gen_any_desc(rng: &mut Prng) -> DataDesc {
    let mtype = rng.range(2, 5) as u8;
    let flags = rng.below(16) as u8;
    let kind = rng.below(3) as u8;
    let fopts_len = if kind == 2 { 0 } else if rng.chance(1, 2) { 0 } else { rng.below(16) as usize };
    let len = match rng.below(4) {
        0 => rng.below(4) as usize,
        1 => *rng.pick(&[15usize, 16, 17, 31, 32, 33, 47, 48, 49, 222, 242]),
        _ => rng.below(243) as usize,
    };
    let fcnt = gen_fcnt(rng);
    gen_desc(rng, mtype, flags, fopts_len, kind, len, fcnt)
}

pub fn desc_json(d: &DataDesc) -> lrv_core::Value {
    lrv_core::json!({
        "mtype": d.mtype, "dev_addr": format!("{:08x}", d.dev_addr), "adr": d.adr, "adr_ack_req": d.adr_ack_req,
        "ack": d.ack, "f_pending": d.f_pending, "fcnt": d.fcnt, "f_opts": lrv_core::hex(&d.f_opts),
        "f_port": d.f_port, "frm_len": d.frm.len(), "frm": lrv_core::hex(&d.frm[..d.frm.len().min(24)]),
    })
}

pub fn len_bucket(n: usize) -> usize {
    n.div_ceil(16)
}
