//! Recording SPI device + control lines for the three chip families, with a small
//! datasheet-derived decoder of what the host wrote.
//!
//! Constants below are transcribed from the SX1261/2 data sheet (DS.SX1261-2.W.APP, ch. 11-13),
//! the SX1276/77/78/79 and SX1272/73 data sheets (register tables, ch. 4 and 6) and the LR1110
//! user manual (ch. 7, radio commands). The driver's own enums are private and not used.

#![allow(dead_code)]

use embedded_hal_async::delay::DelayNs;
use embedded_hal_async::spi::{ErrorType, Operation, SpiDevice};
use lora_phy::mod_params::RadioError;
use lora_phy::mod_traits::InterfaceVariant;
use std::cell::RefCell;
use std::rc::Rc;

// ---- SX126x commands (data sheet table 11-1 .. 11-5) ----
pub const SX126X_WRITE_REGISTER: u8 = 0x0D;
pub const SX126X_READ_REGISTER: u8 = 0x1D;
pub const SX126X_GET_IRQ_STATUS: u8 = 0x12;
pub const SX126X_GET_RX_BUFFER_STATUS: u8 = 0x13;
pub const SX126X_GET_PACKET_STATUS: u8 = 0x14;
pub const SX126X_GET_RSSI_INST: u8 = 0x15;
pub const SX126X_SET_RF_FREQUENCY: u8 = 0x86;
pub const SX126X_SET_MODULATION_PARAMS: u8 = 0x8B;
pub const SX126X_SET_TX_PARAMS: u8 = 0x8E;
pub const SX126X_SET_PA_CONFIG: u8 = 0x95;
pub const SX126X_SET_LORA_SYMB_NUM_TIMEOUT: u8 = 0xA0;
/// "SynchTimeout" register used by Semtech's symbol-timeout workaround: mant[7:3], exp[2:0].
pub const SX126X_REG_SYNCH_TIMEOUT: u16 = 0x0706;

// ---- SX127x registers (LoRa page) ----
pub const SX127X_REG_FIFO: u8 = 0x00;
pub const SX127X_REG_OP_MODE: u8 = 0x01;
pub const SX127X_REG_FRF_MSB: u8 = 0x06;
pub const SX127X_REG_FRF_MID: u8 = 0x07;
pub const SX127X_REG_FRF_LSB: u8 = 0x08;
pub const SX127X_REG_PA_CONFIG: u8 = 0x09;
pub const SX127X_REG_PA_RAMP: u8 = 0x0A;
pub const SX127X_REG_OCP: u8 = 0x0B;
pub const SX127X_REG_IRQ_FLAGS: u8 = 0x12;
pub const SX127X_REG_PKT_SNR: u8 = 0x19;
pub const SX127X_REG_PKT_RSSI: u8 = 0x1A;
pub const SX127X_REG_RSSI: u8 = 0x1B;
pub const SX127X_REG_MODEM_CONFIG1: u8 = 0x1D;
pub const SX127X_REG_MODEM_CONFIG2: u8 = 0x1E;
pub const SX127X_REG_SYMB_TIMEOUT_LSB: u8 = 0x1F;
pub const SX1276_REG_MODEM_CONFIG3: u8 = 0x26;
pub const SX127X_REG_VERSION: u8 = 0x42;
pub const SX1276_REG_PA_DAC: u8 = 0x4D;
pub const SX1272_REG_PA_DAC: u8 = 0x5A;

// ---- LR11xx radio commands (user manual ch. 7; 16-bit opcodes) ----
pub const LR11XX_GET_PKT_STATUS: u16 = 0x0204;
pub const LR11XX_GET_RSSI_INST: u16 = 0x0205;
pub const LR11XX_SET_RF_FREQUENCY: u16 = 0x020B;
pub const LR11XX_SET_MODULATION_PARAM: u16 = 0x020F;
pub const LR11XX_SET_TX_PARAMS: u16 = 0x0211;
pub const LR11XX_SET_PA_CFG: u16 = 0x0215;
pub const LR11XX_SET_LORA_SYNCH_TIMEOUT: u16 = 0x021B;

#[derive(Clone, Copy, PartialEq, Eq, Debug)]
pub enum Family {
    Sx126x,
    Sx127x,
    Lr11xx,
}

/// One bus transaction as seen on the wire.
#[derive(Clone, Debug)]
pub struct Tx {
    pub mosi: Vec<u8>,
    pub read_len: usize,
}

const SCRATCH: usize = 600;

pub struct Chip {
    pub family: Family,
    /// keep a transcript (off for the big sweeps)
    pub log: bool,
    pub transcript: Vec<Tx>,
    pub seq: u64,
    pub unexpected_ops: u32,
    scratch: [u8; SCRATCH],

    // --- SX126x ---
    pub regs16: Vec<u8>,
    pub status: u8,
    pub irq126: u16,
    pub pkt_status: [u8; 3],
    pub rssi_inst: u8,
    pub rx_buffer_status: [u8; 2],
    pub synch_timeout_written: bool,

    // --- decoded "last programmed" items, common naming over the families ---
    /// (sequence number, raw word)
    pub rf_word: Option<(u64, u32)>,
    /// SetPaConfig / SetPaCfg parameter bytes
    pub pa_cfg: Option<(u64, [u8; 4])>,
    /// SetTxParams parameter bytes (power, ramp)
    pub tx_params: Option<(u64, [u8; 2])>,
    /// SetModulationParams parameter bytes (sf, bw, cr, ldro)
    pub mod_params: Option<(u64, [u8; 4])>,
    /// SetLoRaSymbNumTimeout / SetLoRaSynchTimeout parameter byte
    pub symb_cmd: Option<(u64, u8)>,
    /// commands whose length did not match the data sheet
    pub malformed: u32,

    // --- SX127x ---
    pub regs: [u8; 128],
    pub reg_written: u128,
    /// flags raised in RegIrqFlags when a receive is started
    pub irq127_on_rx: u8,

    // --- LR11xx ---
    pub lr_pending: Vec<u8>,
    pub lr_stat1: u8,
}

impl Chip {
    pub fn new(family: Family) -> Self {
        Chip {
            family,
            log: false,
            transcript: vec![],
            seq: 0,
            unexpected_ops: 0,
            scratch: [0; SCRATCH],
            regs16: if family == Family::Sx126x { vec![0u8; 0x1000] } else { vec![] },
            // chip mode STBY_RC (2), command status "data available" (2)
            status: (2 << 4) | (2 << 1),
            irq126: 0,
            pkt_status: [0; 3],
            rssi_inst: 0,
            rx_buffer_status: [0; 2],
            synch_timeout_written: false,
            rf_word: None,
            pa_cfg: None,
            tx_params: None,
            mod_params: None,
            symb_cmd: None,
            malformed: 0,
            regs: [0; 128],
            reg_written: 0,
            irq127_on_rx: 0,
            lr_pending: vec![],
            // CMD_DAT (3) in bits 3:1
            lr_stat1: 3 << 1,
        }
    }

    pub fn clear_decoded(&mut self) {
        self.rf_word = None;
        self.pa_cfg = None;
        self.tx_params = None;
        self.mod_params = None;
        self.symb_cmd = None;
        self.synch_timeout_written = false;
        self.reg_written = 0;
        self.malformed = 0;
        self.transcript.clear();
    }

    pub fn was_written(&self, reg: u8) -> bool {
        self.reg_written & (1u128 << (reg & 0x7f)) != 0
    }

    fn handle(&mut self, ops: &mut [Operation<'_, u8>]) {
        // gather MOSI
        let mut n = 0usize;
        let mut read_len = 0usize;
        for op in ops.iter() {
            match op {
                Operation::Write(b) => {
                    let k = b.len().min(SCRATCH - n);
                    self.scratch[n..n + k].copy_from_slice(&b[..k]);
                    n += k;
                }
                Operation::Read(b) => read_len += b.len(),
                Operation::DelayNs(_) => {}
                _ => self.unexpected_ops += 1,
            }
        }
        self.seq += 1;
        if self.log {
            self.transcript.push(Tx { mosi: self.scratch[..n].to_vec(), read_len });
        }
        let mut resp = [0u8; 24];
        let mut resp_len = 0usize;
        // a register read may need more than the fixed response buffer
        let mut reg_stream: Option<usize> = None;
        match self.family {
            Family::Sx126x => {
                if n > 0 {
                    self.sx126x(n, &mut resp, &mut resp_len, &mut reg_stream);
                }
            }
            Family::Sx127x => {
                if n > 0 {
                    self.sx127x(n, &mut resp, &mut resp_len);
                }
            }
            Family::Lr11xx => {
                if n > 0 {
                    self.lr11xx(n);
                }
                if read_len > 0 {
                    let k = self.lr_pending.len().min(resp.len());
                    resp[..k].copy_from_slice(&self.lr_pending[..k]);
                    resp_len = k;
                    if k == 0 {
                        resp[0] = self.lr_stat1;
                        resp_len = 1;
                    }
                }
            }
        }
        if read_len > 0 {
            let mut pos = 0usize;
            for op in ops.iter_mut() {
                if let Operation::Read(b) = op {
                    for x in b.iter_mut() {
                        *x = match reg_stream {
                            Some(base) => self.regs16.get(base + pos).copied().unwrap_or(0),
                            None => {
                                if pos < resp_len {
                                    resp[pos]
                                } else {
                                    0
                                }
                            }
                        };
                        pos += 1;
                    }
                }
            }
        }
    }

    fn sx126x(&mut self, n: usize, resp: &mut [u8; 24], resp_len: &mut usize, reg_stream: &mut Option<usize>) {
        let m = &self.scratch[..n];
        let seq = self.seq;
        match m[0] {
            SX126X_WRITE_REGISTER if n >= 3 => {
                let addr = ((m[1] as usize) << 8) | m[2] as usize;
                for (i, b) in m[3..].iter().enumerate() {
                    let a = addr + i;
                    if a < self.regs16.len() {
                        self.regs16[a] = *b;
                    }
                    if a == SX126X_REG_SYNCH_TIMEOUT as usize {
                        self.synch_timeout_written = true;
                    }
                }
            }
            SX126X_READ_REGISTER if n >= 3 => {
                let addr = ((m[1] as usize) << 8) | m[2] as usize;
                if n >= 4 {
                    // host already clocked the status/NOP byte
                    *reg_stream = Some(addr);
                } else {
                    // status first, then data: shift by presenting base-1 is not possible; use resp
                    resp[0] = self.status;
                    for i in 1..resp.len() {
                        resp[i] = self.regs16.get(addr + i - 1).copied().unwrap_or(0);
                    }
                    *resp_len = resp.len();
                }
            }
            SX126X_GET_IRQ_STATUS => {
                resp[0] = self.status;
                resp[1] = (self.irq126 >> 8) as u8;
                resp[2] = self.irq126 as u8;
                *resp_len = 3;
            }
            SX126X_GET_RX_BUFFER_STATUS => {
                resp[0] = self.status;
                resp[1] = self.rx_buffer_status[0];
                resp[2] = self.rx_buffer_status[1];
                *resp_len = 3;
            }
            SX126X_GET_PACKET_STATUS => {
                resp[0] = self.status;
                resp[1..4].copy_from_slice(&self.pkt_status);
                *resp_len = 4;
            }
            SX126X_GET_RSSI_INST => {
                resp[0] = self.status;
                resp[1] = self.rssi_inst;
                *resp_len = 2;
            }
            SX126X_SET_RF_FREQUENCY => {
                if n == 5 {
                    self.rf_word = Some((seq, u32::from_be_bytes([m[1], m[2], m[3], m[4]])));
                } else {
                    self.malformed += 1;
                }
            }
            SX126X_SET_PA_CONFIG => {
                if n == 5 {
                    self.pa_cfg = Some((seq, [m[1], m[2], m[3], m[4]]));
                } else {
                    self.malformed += 1;
                }
            }
            SX126X_SET_TX_PARAMS => {
                if n == 3 {
                    self.tx_params = Some((seq, [m[1], m[2]]));
                } else {
                    self.malformed += 1;
                }
            }
            SX126X_SET_MODULATION_PARAMS => {
                // LoRa: 4 meaningful parameters; the command accepts up to 8 (rest unused)
                if (5..=9).contains(&n) {
                    self.mod_params = Some((seq, [m[1], m[2], m[3], m[4]]));
                } else {
                    self.malformed += 1;
                }
            }
            SX126X_SET_LORA_SYMB_NUM_TIMEOUT => {
                if n == 2 {
                    self.symb_cmd = Some((seq, m[1]));
                } else {
                    self.malformed += 1;
                }
            }
            _ => {
                // every other command: status byte then zeros
                resp[0] = self.status;
                *resp_len = 1;
            }
        }
    }

    fn sx127x(&mut self, n: usize, resp: &mut [u8; 24], resp_len: &mut usize) {
        let a = self.scratch[0];
        let reg = a & 0x7f;
        if a & 0x80 != 0 {
            // write access; address auto-increments except for the FIFO
            for i in 1..n {
                let v = self.scratch[i];
                let r = if reg == SX127X_REG_FIFO { reg } else { (reg as usize + i - 1).min(127) as u8 };
                if r == SX127X_REG_FIFO {
                    continue;
                }
                self.reg_written |= 1u128 << r;
                if r == SX127X_REG_IRQ_FLAGS {
                    // write-1-to-clear
                    self.regs[r as usize] &= !v;
                    continue;
                }
                self.regs[r as usize] = v;
                if r == SX127X_REG_OP_MODE {
                    let mode = v & 0x07;
                    if mode == 0x06 || mode == 0x05 {
                        self.regs[SX127X_REG_IRQ_FLAGS as usize] |= self.irq127_on_rx;
                    }
                }
            }
        } else {
            for i in 0..resp.len() {
                let r = if reg == SX127X_REG_FIFO { 0usize } else { (reg as usize + i).min(127) };
                resp[i] = if reg == SX127X_REG_FIFO { 0 } else { self.regs[r] };
            }
            *resp_len = resp.len();
        }
    }

    fn lr11xx(&mut self, n: usize) {
        let m = &self.scratch[..n];
        let seq = self.seq;
        if n < 2 {
            return;
        }
        let op = ((m[0] as u16) << 8) | m[1] as u16;
        self.lr_pending.clear();
        match op {
            LR11XX_GET_PKT_STATUS => {
                self.lr_pending.push(self.lr_stat1);
                self.lr_pending.extend_from_slice(&self.pkt_status);
            }
            LR11XX_GET_RSSI_INST => {
                self.lr_pending.push(self.lr_stat1);
                self.lr_pending.push(self.rssi_inst);
            }
            LR11XX_SET_RF_FREQUENCY => {
                if n == 6 {
                    self.rf_word = Some((seq, u32::from_be_bytes([m[2], m[3], m[4], m[5]])));
                } else {
                    self.malformed += 1;
                }
            }
            LR11XX_SET_PA_CFG => {
                if n == 6 {
                    self.pa_cfg = Some((seq, [m[2], m[3], m[4], m[5]]));
                } else {
                    self.malformed += 1;
                }
            }
            LR11XX_SET_TX_PARAMS => {
                if n == 4 {
                    self.tx_params = Some((seq, [m[2], m[3]]));
                } else {
                    self.malformed += 1;
                }
            }
            LR11XX_SET_MODULATION_PARAM => {
                if n == 6 {
                    self.mod_params = Some((seq, [m[2], m[3], m[4], m[5]]));
                } else {
                    self.malformed += 1;
                }
            }
            LR11XX_SET_LORA_SYNCH_TIMEOUT => {
                if n == 3 {
                    self.symb_cmd = Some((seq, m[2]));
                } else {
                    self.malformed += 1;
                }
            }
            _ => {}
        }
    }
}

/// Handle shared between the monitor and the SPI device owned by the driver.
#[derive(Clone)]
pub struct Bus(pub Rc<RefCell<Chip>>);

impl Bus {
    pub fn new(family: Family) -> Self {
        Bus(Rc::new(RefCell::new(Chip::new(family))))
    }
    pub fn chip(&self) -> std::cell::RefMut<'_, Chip> {
        self.0.borrow_mut()
    }
}

#[derive(Debug)]
pub enum BusError {}
impl embedded_hal::spi::Error for BusError {
    fn kind(&self) -> embedded_hal::spi::ErrorKind {
        match *self {}
    }
}

impl ErrorType for Bus {
    type Error = BusError;
}

impl SpiDevice<u8> for Bus {
    async fn transaction(&mut self, operations: &mut [Operation<'_, u8>]) -> Result<(), Self::Error> {
        self.0.borrow_mut().handle(operations);
        Ok(())
    }
}

/// Control lines: BUSY always ready, IRQ always pending, RF switch ignored.
pub struct Iv;

impl InterfaceVariant for Iv {
    async fn reset(&mut self, _delay: &mut impl DelayNs) -> Result<(), RadioError> {
        Ok(())
    }
    async fn wait_on_busy(&mut self) -> Result<(), RadioError> {
        Ok(())
    }
    async fn await_irq(&mut self) -> Result<(), RadioError> {
        Ok(())
    }
    async fn enable_rf_switch_rx(&mut self) -> Result<(), RadioError> {
        Ok(())
    }
    async fn enable_rf_switch_tx(&mut self) -> Result<(), RadioError> {
        Ok(())
    }
    async fn disable_rf_switch(&mut self) -> Result<(), RadioError> {
        Ok(())
    }
}

pub struct NoDelay;
impl DelayNs for NoDelay {
    async fn delay_ns(&mut self, _ns: u32) {}
}

// ---- driver construction (public constructors only) -------------------------------------------

use lora_phy::lr1110::{self, Lr1110};
use lora_phy::sx126x::{self, Stm32wl, Sx1261, Sx1262, Sx126x};
use lora_phy::sx127x::{self, Sx1272, Sx1276, Sx127x};

pub fn sx126x_cfg<C: sx126x::Sx126xVariant>(chip: C) -> sx126x::Config<C> {
    sx126x::Config { chip, tcxo_ctrl: None, use_dcdc: false, rx_boost: false }
}

pub fn new_sx1261() -> (Sx126x<Bus, Iv, Sx1261>, Bus) {
    let b = Bus::new(Family::Sx126x);
    (Sx126x::new(b.clone(), Iv, sx126x_cfg(Sx1261)), b)
}
pub fn new_sx1262() -> (Sx126x<Bus, Iv, Sx1262>, Bus) {
    let b = Bus::new(Family::Sx126x);
    (Sx126x::new(b.clone(), Iv, sx126x_cfg(Sx1262)), b)
}
pub fn new_stm32wl(hp: bool) -> (Sx126x<Bus, Iv, Stm32wl>, Bus) {
    let b = Bus::new(Family::Sx126x);
    (Sx126x::new(b.clone(), Iv, sx126x_cfg(Stm32wl { use_high_power_pa: hp })), b)
}
pub fn new_sx1276(tx_boost: bool) -> (Sx127x<Bus, Iv, Sx1276>, Bus) {
    let b = Bus::new(Family::Sx127x);
    b.chip().regs[SX127X_REG_VERSION as usize] = 0x12;
    (Sx127x::new(b.clone(), Iv, sx127x::Config { chip: Sx1276, tcxo_used: false, tx_boost, rx_boost: false }), b)
}
pub fn new_sx1276_rx(tx_boost: bool, rx_boost: bool) -> (Sx127x<Bus, Iv, Sx1276>, Bus) {
    let b = Bus::new(Family::Sx127x);
    b.chip().regs[SX127X_REG_VERSION as usize] = 0x12;
    (Sx127x::new(b.clone(), Iv, sx127x::Config { chip: Sx1276, tcxo_used: false, tx_boost, rx_boost }), b)
}
pub fn new_sx1272_rx(tx_boost: bool, rx_boost: bool) -> (Sx127x<Bus, Iv, Sx1272>, Bus) {
    let b = Bus::new(Family::Sx127x);
    b.chip().regs[SX127X_REG_VERSION as usize] = 0x22;
    (Sx127x::new(b.clone(), Iv, sx127x::Config { chip: Sx1272, tcxo_used: false, tx_boost, rx_boost }), b)
}
pub fn new_sx1272(tx_boost: bool) -> (Sx127x<Bus, Iv, Sx1272>, Bus) {
    let b = Bus::new(Family::Sx127x);
    b.chip().regs[SX127X_REG_VERSION as usize] = 0x22;
    (Sx127x::new(b.clone(), Iv, sx127x::Config { chip: Sx1272, tcxo_used: false, tx_boost, rx_boost: false }), b)
}
pub fn new_lr1110(pa: lr1110::PaSelection) -> (Lr1110<Bus, Iv>, Bus) {
    let b = Bus::new(Family::Lr11xx);
    let cfg = lr1110::Config { pa_selection: pa, dio_as_rf_switch: None, tcxo_ctrl: None, use_dcdc: false, rx_boost: false };
    (Lr1110::new(b.clone(), Iv, cfg), b)
}

// ---- shared LoRa parameter tables ---------------------------------------------------------------

use lora_modulation::{Bandwidth, CodingRate, SpreadingFactor};

pub const SFS: [SpreadingFactor; 8] = [
    SpreadingFactor::_5,
    SpreadingFactor::_6,
    SpreadingFactor::_7,
    SpreadingFactor::_8,
    SpreadingFactor::_9,
    SpreadingFactor::_10,
    SpreadingFactor::_11,
    SpreadingFactor::_12,
];
pub const BWS: [Bandwidth; 10] = [
    Bandwidth::_7KHz,
    Bandwidth::_10KHz,
    Bandwidth::_15KHz,
    Bandwidth::_20KHz,
    Bandwidth::_31KHz,
    Bandwidth::_41KHz,
    Bandwidth::_62KHz,
    Bandwidth::_125KHz,
    Bandwidth::_250KHz,
    Bandwidth::_500KHz,
];
pub const CRS: [CodingRate; 4] = [CodingRate::_4_5, CodingRate::_4_6, CodingRate::_4_7, CodingRate::_4_8];

/// Spreading factor as a number (own table, index + 5).
pub fn sf_num(i: usize) -> u32 {
    i as u32 + 5
}
/// True LoRa bandwidth as the exact rational 500 kHz / d (SX1276 data sheet table 4.1.1.4:
/// 7.8125, 10.41(6), 15.625, 20.8(3), 31.25, 41.(6), 62.5, 125, 250, 500 kHz).
pub const BW_DIV: [u64; 10] = [64, 48, 32, 24, 16, 12, 8, 4, 2, 1];
pub const BW_NAME: [&str; 10] = ["7", "10", "15", "20", "31", "41", "62", "125", "250", "500"];
/// Nominal values as printed in the data sheets' parameter tables, rounded to 10 Hz.
pub const BW_NOMINAL_HZ: [u64; 10] = [7_810, 10_420, 15_630, 20_830, 31_250, 41_670, 62_500, 125_000, 250_000, 500_000];
