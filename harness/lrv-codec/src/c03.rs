//! C03 — parsing arbitrary bytes is total, bounds-safe and terminating.
//!
//! Every input is handed to all twelve entry points (`parse`, the three frame parsers, the two
//! `decrypt_in_place` functions with arbitrary keys and the six MAC-command stream iterators).
//! On success every public accessor of the returned view / command is called. The oracle is the
//! panic trap plus the iterator contract of the statement; "whole command" is judged against a
//! framing table transcribed from LoRaWAN 1.0.4 ch. 5, TS009-1.x and TS005-1.x (not from /repo).

use crate::common::*;
use core::fmt::Write as _;
use lorawan::certification::{
    parse_downlink_dut_commands, parse_uplink_dut_commands, DownlinkDUTCommand, DutVersionsAnsCreator, RxAppCntAnsCreator,
    UplinkDUTCommand,
};
use lorawan::default_crypto::{DefaultCrypto, DefaultNetworkCrypto};
use lorawan::keys::AES128;
use lorawan::maccommandcreator::build_mac_commands;
use lorawan::maccommands::{
    parse_downlink_mac_commands, parse_uplink_mac_commands, DevStatusAnsCreator, DeviceTimeAnsCreator, DownlinkMacCommand, LinkADRAnsCreator,
    LinkADRReqCreator, NewChannelReqCreator, ParseError, RXParamSetupReqCreator, SerializableMacCommand, TXParamSetupReqCreator, UplinkMacCommand,
};
use lorawan::multicast::{
    parse_downlink_multicast_commands, parse_uplink_multicast_commands, DownlinkRemoteSetup, McGroupSetupReqCreator, McGroupStatusAnsCreator,
    McGroupStatusReqCreator, PackageVersionAnsCreator, UplinkRemoteSetup,
};
use lorawan::parser::{
    parse, CfList, DecryptedDataPayload, DecryptedJoinAcceptPayload, DevNonce, EncryptedDataPayload, EncryptedJoinAcceptPayload, Error, Fhdr,
    FrmPayload, JoinRequestPayload, McAddr, PhyPayload,
};
use lrv_core::refcodec::*;
use lrv_core::*;
use std::collections::HashSet;
use std::hint::black_box as bb;

pub struct C03;

// ---- entry points -------------------------------------------------------------------------

const EP: [&str; 12] = [
    "parse",
    "data-parse",
    "joinreq-parse",
    "joinacc-parse",
    "data-decrypt",
    "joinacc-decrypt",
    "iter:mac-up",
    "iter:mac-down",
    "iter:dut-up",
    "iter:dut-down",
    "iter:mc-up",
    "iter:mc-down",
];
const N_EP: usize = 12;
const FIRST_ITER: usize = 6;

// ---- independent framing table ------------------------------------------------------------
// Payload length (without CID) of every command the six enums claim to implement, from the
// specifications. `Rest`: no length indication, at least one octet, runs to the end of the
// stream (TS009 TxFramesCtrlReq / EchoPayloadReq / EchoPayloadAns). `Groups`: one status octet
// followed by 5 octets per bit set in AnsGroupMask (TS005 McGroupStatusAns).

#[derive(Clone, Copy, PartialEq, Debug)]
enum L {
    Fixed(usize),
    Rest,
    Groups,
}

const SET_NAMES: [&str; 6] = ["mac-up", "mac-down", "dut-up", "dut-down", "mc-up", "mc-down"];

fn spec_len(set: usize, cid: u8) -> Option<L> {
    use L::*;
    match set {
        // LoRaWAN 1.0.4 table 5-1, sent by the end-device
        0 => match cid {
            0x02 => Some(Fixed(0)), // LinkCheckReq
            0x03 => Some(Fixed(1)), // LinkADRAns
            0x04 => Some(Fixed(0)), // DutyCycleAns
            0x05 => Some(Fixed(1)), // RXParamSetupAns
            0x06 => Some(Fixed(2)), // DevStatusAns
            0x07 => Some(Fixed(1)), // NewChannelAns
            0x08 => Some(Fixed(0)), // RXTimingSetupAns
            0x09 => Some(Fixed(0)), // TXParamSetupAns
            0x0A => Some(Fixed(1)), // DlChannelAns
            0x0D => Some(Fixed(0)), // DeviceTimeReq
            _ => None,
        },
        // sent by the network
        1 => match cid {
            0x02 => Some(Fixed(2)), // LinkCheckAns
            0x03 => Some(Fixed(4)), // LinkADRReq
            0x04 => Some(Fixed(1)), // DutyCycleReq
            0x05 => Some(Fixed(4)), // RXParamSetupReq
            0x06 => Some(Fixed(0)), // DevStatusReq
            0x07 => Some(Fixed(5)), // NewChannelReq
            0x08 => Some(Fixed(1)), // RXTimingSetupReq
            0x09 => Some(Fixed(1)), // TXParamSetupReq
            0x0A => Some(Fixed(4)), // DlChannelReq
            0x0D => Some(Fixed(5)), // DeviceTimeAns
            _ => None,
        },
        // TS009, sent by the DUT
        2 => match cid {
            0x08 => Some(Rest),      // EchoPayloadAns
            0x09 => Some(Fixed(2)),  // RxAppCntAns
            0x7F => Some(Fixed(12)), // DutVersionsAns
            _ => None,
        },
        // TS009, sent by the test harness
        3 => match cid {
            0x01 => Some(Fixed(0)), // DutResetReq
            0x02 => Some(Fixed(0)), // DutJoinReq
            0x04 => Some(Fixed(1)), // AdrBitChangeReq
            0x06 => Some(Fixed(1)), // TxPeriodicityChangeReq
            0x07 => Some(Rest),     // TxFramesCtrlReq
            0x08 => Some(Rest),     // EchoPayloadReq
            0x09 => Some(Fixed(0)), // RxAppCntReq
            0x20 => Some(Fixed(0)), // LinkCheckReq
            0x7F => Some(Fixed(0)), // DutVersionsReq
            _ => None,
        },
        // TS005, sent by the end-device
        4 => match cid {
            0x00 => Some(Fixed(2)), // PackageVersionAns
            0x01 => Some(Groups),   // McGroupStatusAns
            0x02 => Some(Fixed(1)), // McGroupSetupAns
            0x03 => Some(Fixed(1)), // McGroupDeleteAns
            0x04 => Some(Fixed(4)), // McClassCSessionAns
            0x05 => Some(Fixed(4)), // McClassBSessionAns
            _ => None,
        },
        // TS005, sent by the server
        _ => match cid {
            0x00 => Some(Fixed(0)),  // PackageVersionReq
            0x01 => Some(Fixed(1)),  // McGroupStatusReq
            0x02 => Some(Fixed(29)), // McGroupSetupReq
            0x03 => Some(Fixed(1)),  // McGroupDeleteReq
            0x04 => Some(Fixed(10)), // McClassCSessionReq
            0x05 => Some(Fixed(10)), // McClassBSessionReq
            _ => None,
        },
    }
}

fn set_cids(set: usize) -> Vec<u8> {
    (0..=255u8).filter(|c| spec_len(set, *c).is_some()).collect()
}

const N_VARIANTS: usize = 44;

#[derive(Debug, Default)]
struct RefFrames {
    items: Vec<(usize, usize)>, // (offset of CID, payload length)
    err_at: Option<usize>,
    /// the error is a variable-length command with no payload octet at all (the specifications
    /// do not say whether that is an empty command or a truncated one)
    lone_variable: bool,
}

fn ref_frame(set: usize, data: &[u8]) -> RefFrames {
    let mut r = RefFrames::default();
    let mut off = 0usize;
    while off < data.len() {
        let avail = data.len() - off - 1;
        let need = match spec_len(set, data[off]) {
            None => {
                r.err_at = Some(off);
                return r;
            }
            Some(L::Fixed(n)) => n,
            Some(L::Rest) => {
                if avail == 0 {
                    r.err_at = Some(off);
                    r.lone_variable = true;
                    return r;
                }
                avail
            }
            Some(L::Groups) => {
                if avail == 0 {
                    r.err_at = Some(off);
                    r.lone_variable = true;
                    return r;
                }
                1 + 5 * (data[off + 1] & 0x0f).count_ones() as usize
            }
        };
        if avail < need {
            r.err_at = Some(off);
            return r;
        }
        r.items.push((off, need));
        off += 1 + need;
    }
    r
}

// ---- accessor enumeration -----------------------------------------------------------------

struct Null(usize);
impl core::fmt::Write for Null {
    fn write_str(&mut self, s: &str) -> core::fmt::Result {
        self.0 += s.len();
        Ok(())
    }
}
fn dbg<T: core::fmt::Debug>(x: &T) {
    let mut n = Null(0);
    let _ = write!(n, "{:?}", x);
    bb(n.0);
}
fn disp<T: core::fmt::Display>(x: &T) {
    let mut n = Null(0);
    let _ = write!(n, "{}", x);
    bb(n.0);
}

thread_local! {
    /// set when the nested McGroupStatusItemIterator yields more items than payload octets
    static NESTED_OVERRUN: std::cell::Cell<bool> = const { std::cell::Cell::new(false) };
}

/// What the contract checker needs from a parsed command, plus "call every accessor".
trait Probe: core::fmt::Debug {
    fn cid_(&self) -> u8;
    fn len_(&self) -> usize;
    fn bytes_(&self) -> &[u8];
    /// Calls every public accessor of the command (hand-enumerated per payload type).
    fn touch(&self, kc: &DefaultCrypto);
}

fn touch_freq(f: &lorawan::types::Frequency<'_>) {
    bb(f.value());
    bb(f.as_ref());
    dbg(f);
}

macro_rules! generic_payload {
    ($p:expr) => {{
        bb($p.bytes());
        bb($p.len());
        dbg($p);
    }};
}

impl Probe for UplinkMacCommand<'_> {
    fn cid_(&self) -> u8 {
        SerializableMacCommand::cid(self)
    }
    fn len_(&self) -> usize {
        self.len()
    }
    fn bytes_(&self) -> &[u8] {
        self.bytes()
    }
    fn touch(&self, _kc: &DefaultCrypto) {
        bb(self.payload_bytes());
        bb(self.payload_len());
        use UplinkMacCommand::*;
        match self {
            LinkCheckReq(p) => generic_payload!(p),
            LinkADRAns(p) => {
                generic_payload!(p);
                bb((p.channel_mask_ack(), p.data_rate_ack(), p.powert_ack(), p.ack()));
            }
            DutyCycleAns(p) => generic_payload!(p),
            RXParamSetupAns(p) => {
                generic_payload!(p);
                bb((p.channel_ack(), p.rx2_data_rate_ack(), p.rx1_dr_offset_ack(), p.ack()));
            }
            DevStatusAns(p) => {
                generic_payload!(p);
                bb((p.battery(), p.margin()));
            }
            NewChannelAns(p) => {
                generic_payload!(p);
                bb((p.channel_freq_ack(), p.data_rate_range_ack(), p.ack()));
            }
            RXTimingSetupAns(p) => generic_payload!(p),
            TXParamSetupAns(p) => generic_payload!(p),
            DlChannelAns(p) => {
                generic_payload!(p);
                bb((p.channel_freq_ack(), p.uplink_freq_ack(), p.ack()));
            }
            DeviceTimeReq(p) => generic_payload!(p),
        }
    }
}

impl Probe for DownlinkMacCommand<'_> {
    fn cid_(&self) -> u8 {
        SerializableMacCommand::cid(self)
    }
    fn len_(&self) -> usize {
        self.len()
    }
    fn bytes_(&self) -> &[u8] {
        self.bytes()
    }
    fn touch(&self, _kc: &DefaultCrypto) {
        bb(self.payload_bytes());
        bb(self.payload_len());
        use DownlinkMacCommand::*;
        match self {
            LinkCheckAns(p) => {
                generic_payload!(p);
                bb((p.margin(), p.gateway_count()));
            }
            LinkADRReq(p) => {
                generic_payload!(p);
                bb((p.data_rate(), p.tx_power()));
                let m = p.channel_mask();
                bb(m.as_ref());
                for i in 0..=16 {
                    bb(m.is_enabled(i).is_ok());
                }
                bb(m.statuses::<16>());
                bb((m.get_index(0), m.get_index(1)));
                dbg(&m);
                let r = p.redundancy();
                bb((r.channel_mask_control(), r.number_of_transmissions(), r.raw_value()));
                dbg(&r);
            }
            DutyCycleReq(p) => {
                generic_payload!(p);
                bb((p.max_duty_cycle_raw(), p.max_duty_cycle()));
            }
            RXParamSetupReq(p) => {
                generic_payload!(p);
                let d = p.dl_settings();
                bb((d.rx1_dr_offset(), d.rx2_data_rate(), d.raw_value()));
                dbg(&d);
                touch_freq(&p.frequency());
            }
            DevStatusReq(p) => generic_payload!(p),
            NewChannelReq(p) => {
                generic_payload!(p);
                bb(p.channel_index());
                touch_freq(&p.frequency());
                if let Ok(r) = p.data_rate_range() {
                    bb((r.max_data_rate(), r.min_data_rate(), r.raw_value()));
                    dbg(&r);
                }
            }
            RXTimingSetupReq(p) => {
                generic_payload!(p);
                bb(p.delay());
            }
            TXParamSetupReq(p) => {
                generic_payload!(p);
                bb((p.downlink_dwell_time(), p.uplink_dwell_time(), p.max_eirp()));
            }
            DlChannelReq(p) => {
                generic_payload!(p);
                bb(p.channel_index());
                touch_freq(&p.frequency());
            }
            DeviceTimeAns(p) => {
                generic_payload!(p);
                bb((p.seconds(), p.nano_seconds()));
            }
        }
    }
}

impl Probe for UplinkDUTCommand<'_> {
    fn cid_(&self) -> u8 {
        SerializableMacCommand::cid(self)
    }
    fn len_(&self) -> usize {
        self.len()
    }
    fn bytes_(&self) -> &[u8] {
        self.bytes()
    }
    fn touch(&self, _kc: &DefaultCrypto) {
        bb(self.payload_bytes());
        bb(self.payload_len());
        use UplinkDUTCommand::*;
        match self {
            EchoIncPayloadAns(p) => {
                generic_payload!(p);
                bb(p.payload());
            }
            RxAppCntAns(p) => generic_payload!(p),
            DutVersionsAns(p) => generic_payload!(p),
        }
    }
}

impl Probe for DownlinkDUTCommand<'_> {
    fn cid_(&self) -> u8 {
        SerializableMacCommand::cid(self)
    }
    fn len_(&self) -> usize {
        self.len()
    }
    fn bytes_(&self) -> &[u8] {
        self.bytes()
    }
    fn touch(&self, _kc: &DefaultCrypto) {
        bb(self.payload_bytes());
        bb(self.payload_len());
        use DownlinkDUTCommand::*;
        match self {
            DutResetReq(p) => generic_payload!(p),
            DutJoinReq(p) => generic_payload!(p),
            AdrBitChangeReq(p) => {
                generic_payload!(p);
                bb(p.adr_enable().is_ok());
            }
            TxPeriodicityChangeReq(p) => {
                generic_payload!(p);
                bb(p.periodicity().is_ok());
            }
            TxFramesCtrlReq(p) => {
                generic_payload!(p);
                bb(p.frame_type_override().is_ok());
            }
            EchoIncPayloadReq(p) => {
                generic_payload!(p);
                bb(p.payload());
            }
            RxAppCntReq(p) => generic_payload!(p),
            LinkCheckReq(p) => generic_payload!(p),
            DutVersionsReq(p) => generic_payload!(p),
        }
    }
}

impl Probe for UplinkRemoteSetup<'_> {
    fn cid_(&self) -> u8 {
        SerializableMacCommand::cid(self)
    }
    fn len_(&self) -> usize {
        self.len()
    }
    fn bytes_(&self) -> &[u8] {
        self.bytes()
    }
    fn touch(&self, _kc: &DefaultCrypto) {
        bb(self.payload_bytes());
        bb(self.payload_len());
        use UplinkRemoteSetup::*;
        match self {
            PackageVersionAns(p) => {
                generic_payload!(p);
                bb((p.package_identifier(), p.package_version()));
            }
            McGroupStatusAns(p) => {
                generic_payload!(p);
                bb((p.ans_group_mask(), p.nb_total_groups()));
                // nested item iterator: bounded by the payload length
                let mut n = 0usize;
                for it in p.item_iterator() {
                    bb((it.mc_group_id(), it.mc_addr().value()));
                    n += 1;
                    if n > p.bytes().len() + 1 {
                        NESTED_OVERRUN.with(|c| c.set(true));
                        break;
                    }
                }
            }
            McGroupSetupAns(p) => {
                generic_payload!(p);
                bb(p.mc_group_id_header());
            }
            McGroupDeleteAns(p) => {
                generic_payload!(p);
                bb((p.mc_group_id_header(), p.mc_group_undefined()));
            }
            McClassCSessionAns(p) => generic_payload!(p),
            McClassBSessionAns(p) => generic_payload!(p),
        }
    }
}

impl Probe for DownlinkRemoteSetup<'_> {
    fn cid_(&self) -> u8 {
        SerializableMacCommand::cid(self)
    }
    fn len_(&self) -> usize {
        self.len()
    }
    fn bytes_(&self) -> &[u8] {
        self.bytes()
    }
    fn touch(&self, kc: &DefaultCrypto) {
        bb(self.payload_bytes());
        bb(self.payload_len());
        use DownlinkRemoteSetup::*;
        match self {
            PackageVersionReq(p) => generic_payload!(p),
            McGroupStatusReq(p) => {
                generic_payload!(p);
                bb(p.req_group_mask());
            }
            McGroupSetupReq(p) => {
                generic_payload!(p);
                bb((p.mc_group_id_header(), p.mc_addr().value(), p.min_mc_fcount(), p.max_mc_fcount()));
                bb(p.mc_key_decrypted(kc));
                bb(p.derive_session_keys(kc));
                let (g, s) = p.derive_session(kc);
                bb((g, s.multicast_addr(), s.mc_net_s_key(), s.mc_app_s_key(), s.max_fcnt_down(), s.fcnt_down));
                dbg(&s);
            }
            McGroupDeleteReq(p) => {
                generic_payload!(p);
                bb(p.mc_group_id_header());
            }
            McClassCSessionReq(p) => generic_payload!(p),
            McClassBSessionReq(p) => generic_payload!(p),
        }
    }
}

fn touch_fhdr(f: &Fhdr<'_>) {
    let a = f.dev_addr();
    bb((a.value(), a.as_wire_bytes(), a.nwk_id()));
    disp(&a);
    dbg(&a);
    let m = f.mc_addr();
    bb((m.value(), m.as_wire_bytes()));
    disp(&m);
    let c = f.fctrl();
    bb((c.adr(), c.adr_ack_req(), c.ack(), c.f_pending(), c.f_opts_len(), c.raw_value()));
    dbg(&c);
    bb(f.fcnt());
    bb(f.f_opts());
    dbg(f);
}

/// Something derived from a successfully parsed view that is itself a MAC-command stream
/// candidate (FOpts, decrypted FRMPayload): fed to the iterators as a nested input.
struct Derived {
    bytes: Vec<u8>,
}

fn touch_encrypted_data(p: &EncryptedDataPayload<'_>, kc: &DefaultCrypto, fcnt: u32) -> Derived {
    let ft = p.frame_type();
    bb((ft, ft.is_uplink(), ft.is_confirmed(), p.is_uplink(), p.is_confirmed()));
    let f = p.fhdr();
    touch_fhdr(&f);
    bb(p.f_port());
    bb(p.mic());
    bb(p.as_bytes());
    bb(p.validate_mic(kc, fcnt));
    dbg(p);
    Derived { bytes: f.f_opts().to_vec() }
}

fn touch_join_request(p: &JoinRequestPayload<'_>, kc: &DefaultCrypto) {
    let j = p.join_eui();
    bb((j.value(), j.as_wire_bytes()));
    disp(&j);
    let d = p.dev_eui();
    bb((d.value(), d.as_wire_bytes()));
    disp(&d);
    let n = p.dev_nonce();
    bb((n.value(), n.as_wire_bytes()));
    disp(&n);
    bb(p.mic());
    bb(p.validate_mic(kc));
    bb(p.as_bytes());
    dbg(p);
}

fn touch_encrypted_join_accept(p: &EncryptedJoinAcceptPayload<'_>) {
    bb(p.as_bytes());
    dbg(p);
}

fn touch_decrypted_data(p: &DecryptedDataPayload<'_>) -> Derived {
    let ft = p.frame_type();
    bb((ft, p.is_uplink(), p.is_confirmed()));
    let f = p.fhdr();
    touch_fhdr(&f);
    bb(p.f_port());
    bb(p.mic());
    bb(p.as_bytes());
    dbg(p);
    let fp = p.frm_payload();
    dbg(&fp);
    match fp {
        FrmPayload::None => Derived { bytes: vec![] },
        FrmPayload::Data(b) | FrmPayload::MacCommands(b) => Derived { bytes: b.to_vec() },
    }
}

fn touch_decrypted_join_accept(p: &DecryptedJoinAcceptPayload<'_>, kc: &DefaultCrypto, nonce: u16) {
    bb(p.validate_mic(kc));
    let j = p.join_nonce();
    bb((j.value(), j.as_wire_bytes()));
    disp(&j);
    let n = p.net_id();
    bb((n.value(), n.as_wire_bytes()));
    disp(&n);
    let a = p.dev_addr();
    bb((a.value(), a.nwk_id()));
    let d = p.dl_settings();
    bb((d.rx1_dr_offset(), d.rx2_data_rate(), d.raw_value()));
    bb(p.rx_delay());
    if let Some(c) = p.c_f_list() {
        dbg(&c);
        match c {
            CfList::DynamicChannel(fr) => {
                for f in fr.iter() {
                    bb((f.hz(), f.as_wire_bytes()));
                }
            }
            CfList::FixedChannel(m) => {
                bb(m.as_ref());
                for i in 0..=72 {
                    bb(m.is_enabled(i).is_ok());
                }
                bb(m.statuses::<72>());
            }
        }
    }
    bb(p.mic());
    bb(p.as_bytes());
    bb(p.derive_nwkskey(DevNonce::from_value(nonce), kc));
    bb(p.derive_appskey(DevNonce::from_value(nonce), kc));
    dbg(p);
}

fn err_code(e: &Error) -> u8 {
    match e {
        Error::TooShort => 1,
        Error::UnsupportedMajorVersion => 2,
        Error::UnsupportedMessageType => 3,
        Error::UnexpectedMessageType => 4,
        Error::NotADataFrame => 5,
        Error::InvalidLength => 6,
        Error::TruncatedFhdr => 7,
        Error::MissingKey => 8,
        Error::InvalidMic => 9,
        _ => 15,
    }
}

// ---- one execution of one entry point -----------------------------------------------------

/// Per-case context: the arbitrary keys and scratch buffers.
struct Ctx {
    nwk: DefaultCrypto,
    app: DefaultCrypto,
    fcnt: u32,
    nonce: u16,
    /// which of the two keys `decrypt_in_place` is given (bit 0 nwk, bit 1 app)
    key_mode: u8,
    buf: Vec<u8>,
    items: Vec<(usize, usize)>,
    // accounting, flushed into the collector at the end of the case
    classes: HashSet<u64>,
    evals: u64,
    ev: [u64; EV.len()],
    variants: [[u64; 4]; 6],
}

const EV: [&str; 14] = [
    "ok_parse_joinreq",
    "ok_parse_joinacc",
    "ok_parse_data",
    "ok_data_parse",
    "ok_joinreq_parse",
    "ok_joinacc_parse",
    "ok_data_decrypt",
    "ok_joinacc_decrypt",
    "frame_err",
    "iter_ok_item",
    "iter_err_unknown_cid",
    "iter_err_truncated",
    "iter_fused_after_error",
    "nested_stream_checked",
];

impl Ctx {
    fn new(rng: &mut Prng) -> Self {
        let k1: [u8; 16] = rng.arr();
        let k2: [u8; 16] = rng.arr();
        Ctx::with_keys(&k1, &k2, rng.next_u32(), 3)
    }
    fn with_keys(nwk: &[u8; 16], app: &[u8; 16], fcnt: u32, key_mode: u8) -> Self {
        Ctx {
            nwk: DefaultCrypto::new(&AES128(*nwk)),
            app: DefaultCrypto::new(&AES128(*app)),
            fcnt,
            nonce: fcnt as u16 ^ 0x5a5a,
            key_mode,
            buf: Vec::with_capacity(300),
            items: Vec::with_capacity(64),
            classes: HashSet::new(),
            evals: 0,
            ev: [0; EV.len()],
            variants: [[0; 4]; 6],
        }
    }
    fn flush(&mut self, col: &mut Collector) {
        col.eval_n(self.evals);
        for h in self.classes.drain() {
            col.class_hash(h);
        }
        for (i, n) in self.ev.iter().enumerate() {
            if *n > 0 {
                col.event_n(EV[i], *n);
            }
        }
        for s in 0..6 {
            for cid in 0..256usize {
                if self.variants[s][cid / 64] >> (cid % 64) & 1 == 1 {
                    col.event(&format!("cmd|{}|{:02x}", SET_NAMES[s], cid));
                }
            }
        }
        self.evals = 0;
        self.ev = [0; EV.len()];
        self.variants = [[0; 4]; 6];
    }
}

#[derive(Default, Debug, Clone)]
struct IterObs {
    yielded: usize,
    n_ok: usize,
    consumed: usize,
    /// (kind, cid carried by the error)
    err: Option<(u8, u8)>,
    err_at: usize,
    fused_checked: bool,
    after_end_some: usize,
    /// first contract breach seen while iterating: (kind, offset)
    breach: Option<(&'static str, usize)>,
    /// true while the iterator's `next()` is executing (attributes a panic to framing or to
    /// an accessor)
    in_next: bool,
}

fn run_iter<T: Probe, I: Iterator<Item = Result<T, ParseError>>>(mut it: I, data: &[u8], kc: &DefaultCrypto, items: &mut Vec<(usize, usize)>, o: &mut IterObs) {
    let limit = data.len() + 1;
    let mut off = 0usize;
    loop {
        o.in_next = true;
        let nx = it.next();
        o.in_next = false;
        match nx {
            None => break,
            Some(Ok(c)) => {
                o.yielded += 1;
                o.n_ok += 1;
                if o.yielded > limit {
                    o.breach.get_or_insert(("more-items-than-input-octets", off));
                    return;
                }
                let cid = c.cid_();
                let len = c.len_();
                let b = c.bytes_();
                if data.get(off) != Some(&cid) {
                    o.breach.get_or_insert(("cid-differs-from-input", off));
                }
                if b.len() != len {
                    o.breach.get_or_insert(("len-differs-from-bytes", off));
                }
                if data.get(off + 1..off + 1 + len) != Some(b) {
                    o.breach.get_or_insert(("not-a-prefix-of-input", off));
                }
                items.push((off, len));
                c.touch(kc);
                dbg(&c);
                off = off.saturating_add(1 + len);
                o.consumed = off;
            }
            Some(Err(e)) => {
                o.yielded += 1;
                o.err = Some(match e {
                    ParseError::UnknownCid(c) => (0, c),
                    ParseError::Truncated { cid } => (1, cid),
                });
                o.err_at = off;
                disp(&e);
                dbg(&e);
                for _ in 0..3 {
                    o.in_next = true;
                    let nx = it.next();
                    o.in_next = false;
                    match nx {
                        None => {}
                        Some(Ok(_)) => {
                            o.breach.get_or_insert(("item-after-error", off));
                        }
                        Some(Err(_)) => {
                            o.breach.get_or_insert(("second-error", off));
                        }
                    }
                }
                o.fused_checked = true;
                return;
            }
        }
    }
    // exhausted without error: further calls must at least be total
    for _ in 0..3 {
        o.in_next = true;
        if it.next().is_some() {
            o.after_end_some += 1;
        }
        o.in_next = false;
    }
}

/// Outcome of one entry-point execution (no panic).
struct EpOut {
    outcome: u8,
    trunc: u8,
    derived: Option<Derived>,
}

/// Runs entry point `ep` on `data`. Only code under test and panic-free bookkeeping in here:
/// this is what the trap surrounds.
fn exec_ep(ep: usize, data: &[u8], cx: &mut Ctx, io: &mut IterObs) -> EpOut {
    let lenb = data.len().min(64) as u8;
    let mut out = EpOut { outcome: 0, trunc: lenb, derived: None };
    match ep {
        0 => match parse(data) {
            Ok(p) => {
                dbg(&p);
                match p {
                    PhyPayload::JoinRequest(j) => {
                        touch_join_request(&j, &cx.nwk);
                        out.outcome = 100;
                    }
                    PhyPayload::JoinAccept(j) => {
                        touch_encrypted_join_accept(&j);
                        out.outcome = 101;
                    }
                    PhyPayload::Data(d) => {
                        out.derived = Some(touch_encrypted_data(&d, &cx.nwk, cx.fcnt));
                        out.outcome = 102;
                    }
                }
            }
            Err(e) => {
                disp(&e);
                out.outcome = err_code(&e);
            }
        },
        1 => match EncryptedDataPayload::parse(data) {
            Ok(d) => {
                out.derived = Some(touch_encrypted_data(&d, &cx.nwk, cx.fcnt));
                out.outcome = 100;
            }
            Err(e) => out.outcome = err_code(&e),
        },
        2 => match JoinRequestPayload::parse(data) {
            Ok(j) => {
                touch_join_request(&j, &cx.app);
                out.outcome = 100;
            }
            Err(e) => out.outcome = err_code(&e),
        },
        3 => match EncryptedJoinAcceptPayload::parse(data) {
            Ok(j) => {
                touch_encrypted_join_accept(&j);
                out.outcome = 100;
            }
            Err(e) => out.outcome = err_code(&e),
        },
        4 => {
            cx.buf.clear();
            cx.buf.extend_from_slice(data);
            let nwk = if cx.key_mode & 1 != 0 { Some(&cx.nwk) } else { None };
            let app = if cx.key_mode & 2 != 0 { Some(&cx.app) } else { None };
            match DecryptedDataPayload::decrypt_in_place(&mut cx.buf, nwk, app, cx.fcnt) {
                Ok(d) => {
                    out.derived = Some(touch_decrypted_data(&d));
                    out.outcome = 100;
                }
                Err(e) => out.outcome = err_code(&e),
            }
            // the checked variant (MIC first, then decryption), with both keys: total as well
            cx.buf.clear();
            cx.buf.extend_from_slice(data);
            if let Ok(d) = DecryptedDataPayload::check_mic_and_decrypt_in_place(&mut cx.buf, &cx.nwk, Some(&cx.app), cx.fcnt) {
                let _ = touch_decrypted_data(&d);
            }
        }
        5 => {
            cx.buf.clear();
            cx.buf.extend_from_slice(data);
            match DecryptedJoinAcceptPayload::decrypt_in_place(&mut cx.buf, &cx.app) {
                Ok(j) => {
                    touch_decrypted_join_accept(&j, &cx.app, cx.nonce);
                    out.outcome = 100;
                }
                Err(e) => out.outcome = err_code(&e),
            }
            // the checked variant of the same entry point (what a device calls): total as well
            cx.buf.clear();
            cx.buf.extend_from_slice(data);
            if let Ok(j) = DecryptedJoinAcceptPayload::check_mic_and_decrypt_in_place(&mut cx.buf, &cx.app) {
                touch_decrypted_join_accept(&j, &cx.app, cx.nonce);
            }
        }
        _ => {
            cx.items.clear();
            *io = IterObs::default();
            let items = &mut cx.items;
            match ep {
                6 => run_iter(parse_uplink_mac_commands(data), data, &cx.nwk, items, io),
                7 => run_iter(parse_downlink_mac_commands(data), data, &cx.nwk, items, io),
                8 => run_iter(parse_uplink_dut_commands(data), data, &cx.nwk, items, io),
                9 => run_iter(parse_downlink_dut_commands(data), data, &cx.nwk, items, io),
                10 => run_iter(parse_uplink_multicast_commands(data), data, &cx.nwk, items, io),
                _ => run_iter(parse_downlink_multicast_commands(data), data, &cx.nwk, items, io),
            }
            out.outcome = match io.err {
                None => 20,
                Some((0, _)) => 21,
                Some(_) => 22,
            } + if io.n_ok > 0 { 3 } else { 0 };
            out.trunc = (data.len().saturating_sub(io.consumed)).min(64) as u8;
        }
    }
    out
}

fn first_of(data: &[u8]) -> u16 {
    data.first().map(|b| *b as u16).unwrap_or(256)
}

fn frame_class(data: &[u8]) -> String {
    match data.first() {
        None => "empty".into(),
        Some(m) => {
            let mt = m >> 5;
            let shape = match mt {
                0 => (if data.len() == 23 { "len=23" } else { "len!=23" }).to_string(),
                1 => (if data.len() == 17 || data.len() == 33 { "len=17|33" } else { "len-other" }).to_string(),
                2..=5 => {
                    if data.len() < 12 {
                        "len<12".to_string()
                    } else {
                        let fol = (data[5] & 0x0f) as usize;
                        let avail = data.len() - 12;
                        (if fol > avail { "foptslen>avail" } else if fol == avail { "foptslen=avail" } else { "foptslen<avail" }).to_string()
                    }
                }
                _ => "other".to_string(),
            };
            format!("mtype={}|major={}|{}", mt, m & 3, shape)
        }
    }
}

/// Greedy shrink of a failing input for entry point `ep`: `fails` re-executes and says whether
/// the same failure is still there.
fn shrink(data: &[u8], mut fails: impl FnMut(&[u8]) -> bool) -> Vec<u8> {
    let mut cur = data.to_vec();
    let mut budget = 800;
    // drop from the front
    let mut i = 1;
    while i < cur.len() && budget > 0 {
        budget -= 1;
        if fails(&cur[i..]) {
            cur = cur[i..].to_vec();
            i = 1;
        } else {
            i += 1;
            if i > 40 {
                break;
            }
        }
    }
    // drop from the back
    while !cur.is_empty() && budget > 0 {
        budget -= 1;
        if fails(&cur[..cur.len() - 1]) {
            cur.pop();
        } else {
            break;
        }
    }
    // zero what does not matter
    for k in 0..cur.len() {
        if budget == 0 {
            break;
        }
        if cur[k] != 0 {
            budget -= 1;
            let old = cur[k];
            cur[k] = 0;
            if !fails(&cur) {
                cur[k] = old;
            }
        }
    }
    cur
}

fn panic_sig(ep: usize, data: &[u8], io: &IterObs, t: &Trapped) -> String {
    if ep >= FIRST_ITER {
        let cid = data.get(io.consumed).copied();
        let cidname = cid.map(|c| format!("cid=0x{:02x}", c)).unwrap_or("cid=none".into());
        if io.in_next {
            // framing: the fixed-length commands share one generated code path
            let class = match cid.and_then(|c| spec_len(ep - FIRST_ITER, c)) {
                Some(L::Fixed(_)) => "fixed-length-command".to_string(),
                Some(_) => cidname,
                None => "unknown-cid".to_string(),
            };
            format!("C03|{}|panic-in-next|{}|{}", EP[ep], class, t.file())
        } else {
            format!("C03|{}|panic-in-accessor|{}|{}", EP[ep], cidname, t.file())
        }
    } else {
        format!("C03|{}|panic|{}|{}", EP[ep], frame_class(data), t.file())
    }
}

/// True if a violation with this signature and an earlier-or-equal case is already recorded;
/// then only its count is bumped (keeps a defect that fires millions of times cheap).
fn already_have(col: &mut Collector, sig: &str) -> bool {
    let cur = (col.cur_gen.clone(), col.cur_idx);
    if let Some(v) = col.violations.get_mut(sig) {
        if (v.gen.as_str(), v.idx) <= (cur.0.as_str(), cur.1) {
            v.count += 1;
            return true;
        }
    }
    false
}

fn hash_class(ep: usize, outcome: u8, first: u16, trunc: u8) -> u64 {
    fnv64(&[ep as u8, outcome, first as u8, (first >> 8) as u8, trunc])
}

/// Judges one input on one entry point; returns the nested stream candidate, if any.
fn judge_ep(ep: usize, data: &[u8], origin: &str, cx: &mut Ctx, col: &mut Collector) -> Option<Derived> {
    let mut io = IterObs::default();
    let r = trap(|| exec_ep(ep, data, cx, &mut io));
    cx.evals += 1;
    match r {
        Err(t) => {
            if t.in_harness() {
                panic!("harness bug inside the trap: {} at {}", t.msg, t.loc);
            }
            cx.classes.insert(hash_class(ep, 255, first_of(data), data.len().min(64) as u8));
            let sig = panic_sig(ep, data, &io, &t);
            if already_have(col, &sig) {
                return None;
            }
            // shrink while the signature stays the same
            let small = shrink(data, |d| {
                let mut io2 = IterObs::default();
                match trap(|| exec_ep(ep, d, cx, &mut io2)) {
                    Err(t2) => panic_sig(ep, d, &io2, &t2) == sig,
                    Ok(_) => false,
                }
            });
            col.violation(
                &sig,
                &format!("{} (or an accessor of its result) panicked", EP[ep]),
                json!({"entry_point": EP[ep], "input": hex(&small), "input_len": small.len(), "original_input": hex(data), "origin": origin,
                       "panic": t.msg, "loc": t.loc, "offset_of_command": if ep >= FIRST_ITER { json!(io.consumed) } else { Value::Null },
                       "key_mode": cx.key_mode}),
            );
            None
        }
        Ok(out) => {
            cx.classes.insert(hash_class(ep, out.outcome, first_of(data), out.trunc));
            if ep < FIRST_ITER {
                if out.outcome >= 100 {
                    let e = match (ep, out.outcome) {
                        (0, 100) => 0,
                        (0, 101) => 1,
                        (0, _) => 2,
                        (1, _) => 3,
                        (2, _) => 4,
                        (3, _) => 5,
                        (4, _) => 6,
                        _ => 7,
                    };
                    cx.ev[e] += 1;
                } else {
                    cx.ev[8] += 1;
                }
            } else {
                judge_iter(ep, data, origin, &io, cx, col);
            }
            out.derived
        }
    }
}

fn judge_iter(ep: usize, data: &[u8], origin: &str, io: &IterObs, cx: &mut Ctx, col: &mut Collector) {
    let set = ep - FIRST_ITER;
    cx.ev[9] += io.n_ok as u64;
    match io.err {
        Some((0, _)) => cx.ev[10] += 1,
        Some(_) => cx.ev[11] += 1,
        None => {}
    }
    if io.fused_checked && io.breach.is_none() {
        cx.ev[12] += 1;
    }
    for (off, _) in cx.items.iter() {
        if let Some(c) = data.get(*off) {
            cx.variants[set][*c as usize / 64] |= 1 << (*c % 64);
        }
    }
    let mut breach: Option<(&'static str, usize)> = io.breach;
    // bounded progress and prefix property
    if breach.is_none() && io.yielded > data.len() {
        breach = Some(("more-items-than-input-octets", io.consumed.min(data.len().saturating_sub(1))));
    }
    if breach.is_none() && io.consumed > data.len() {
        breach = Some(("lengths-exceed-input", 0));
    }
    // whole commands: the extents must be the ones the specifications give
    if breach.is_none() {
        let r = ref_frame(set, data);
        for (i, it) in cx.items.iter().enumerate() {
            match r.items.get(i) {
                Some(x) if x == it => {}
                _ => {
                    let lone_ok = r.lone_variable && r.err_at == Some(it.0) && it.1 == 0 && i == r.items.len();
                    if !lone_ok {
                        breach = Some(("not-a-whole-command", it.0));
                    }
                    break;
                }
            }
        }
        if breach.is_none() && io.err.is_some() && r.items.len() > cx.items.len() {
            breach = Some(("error-on-a-whole-command", io.err_at));
        }
        if breach.is_none() && io.err.is_none() && io.consumed < data.len() {
            // stopped silently before the end: not forbidden by the statement, recorded only
            col.event("iter_silent_stop_before_end");
        }
    }
    if io.after_end_some > 0 {
        col.event("iter_some_after_none");
    }
    if NESTED_OVERRUN.with(|c| c.replace(false)) && breach.is_none() {
        breach = Some(("item-iterator-yields-more-items-than-octets", 0));
    }
    if let Some((kind, off)) = breach {
        let cid = data.get(off).copied().unwrap_or(0);
        // breaches of the fusing / progress clauses do not depend on the command, only on how
        // the stream ended; framing breaches are keyed by the command they happened at
        let sig = match kind {
            "second-error" | "item-after-error" | "more-items-than-input-octets" | "lengths-exceed-input" => {
                format!("C03|{}|{}|after={}", EP[ep], kind, match io.err { Some((0, _)) => "unknown-cid", Some(_) => "truncated", None => "no-error" })
            }
            _ => format!("C03|{}|{}|cid=0x{:02x}", EP[ep], kind, cid),
        };
        if already_have(col, &sig) {
            return;
        }
        let items: Vec<Value> = cx.items.iter().map(|(o, l)| json!([o, l])).collect();
        let r = ref_frame(set, data);
        col.violation(
            &sig,
            &format!("{} breaks the iterator contract: {}", EP[ep], kind),
            json!({"entry_point": EP[ep], "input": hex(data), "origin": origin, "items_offset_len": items, "error": format!("{:?}", io.err),
                   "error_at": io.err_at, "yielded": io.yielded, "reference_items": format!("{:?}", r.items), "reference_error_at": r.err_at}),
        );
    }
}

/// Judges one input on every entry point, then the nested streams it gives rise to.
fn judge_input(data: &[u8], origin: &str, cx: &mut Ctx, col: &mut Collector) {
    let mut nested: Vec<Derived> = vec![];
    for ep in 0..N_EP {
        if let Some(d) = judge_ep(ep, data, origin, cx, col) {
            if !d.bytes.is_empty() && ep != 1 {
                nested.push(d);
            }
        }
    }
    for d in nested {
        for ep in FIRST_ITER..N_EP {
            judge_ep(ep, &d.bytes, "nested", cx, col);
        }
        cx.ev[13] += 1;
    }
}

// ---- workloads ----------------------------------------------------------------------------

fn fill(rng: &mut Prng, kind: u64, n: usize) -> Vec<u8> {
    match kind {
        0 => vec![0u8; n],
        1 => vec![0xffu8; n],
        _ => rng.bytes(n),
    }
}

/// One whole command of `set` with CID `cid`, built by hand from the specification table.
fn hand_cmd(rng: &mut Prng, set: usize, cid: u8, fillk: u64, rest_len: usize) -> Vec<u8> {
    let mut v = vec![cid];
    match spec_len(set, cid) {
        Some(L::Fixed(n)) => v.extend(fill(rng, fillk, n)),
        Some(L::Rest) => v.extend(fill(rng, fillk, rest_len.max(1))),
        Some(L::Groups) => {
            let st = fill(rng, fillk, 1)[0];
            v.push(st);
            v.extend(fill(rng, fillk, 5 * (st & 0x0f).count_ones() as usize));
        }
        None => {}
    }
    v
}

/// A whole command built with the crate's own creators (None if the set has none for the draw).
fn creator_cmd(rng: &mut Prng, set: usize) -> Option<Vec<u8>> {
    let k = rng.below(4);
    let a: [u8; 3] = rng.arr();
    let w = rng.next_u32();
    let b = rng.u8();
    let r = trap(move || -> Option<Vec<u8>> {
        match (set, k) {
            (0, 0) => {
                let mut c = DevStatusAnsCreator::new();
                c.set_battery(b);
                let _ = c.set_margin((w % 64) as i8 - 32);
                Some(c.build().to_vec())
            }
            (0, _) => {
                let mut c = LinkADRAnsCreator::new();
                c.set_channel_mask_ack(b & 1 != 0).set_data_rate_ack(b & 2 != 0).set_tx_power_ack(b & 4 != 0);
                Some(c.build().to_vec())
            }
            (1, 0) => {
                let mut c = LinkADRReqCreator::new();
                let _ = c.set_data_rate(b & 15);
                let _ = c.set_tx_power(b >> 4);
                c.set_channel_mask([a[0], a[1]]).set_redundancy(a[2]);
                Some(c.build().to_vec())
            }
            (1, 1) => {
                let mut c = NewChannelReqCreator::new();
                c.set_channel_index(b).set_frequency(&a).set_data_rate_range((w >> 8) as u8);
                Some(c.build().to_vec())
            }
            (1, 2) => {
                let mut c = DeviceTimeAnsCreator::new();
                c.set_seconds(w);
                let _ = c.set_nano_seconds(w % 1_000_000_000);
                Some(c.build().to_vec())
            }
            (1, _) => {
                if b & 1 == 0 {
                    let mut c = RXParamSetupReqCreator::new();
                    c.set_dl_settings(b).set_frequency(&a);
                    Some(c.build().to_vec())
                } else {
                    let mut c = TXParamSetupReqCreator::new();
                    c.set_downlink_dwell_time(b & 2 != 0).set_uplink_dwell_time(b & 4 != 0);
                    let _ = c.set_max_eirp(b >> 4);
                    Some(c.build().to_vec())
                }
            }
            (2, 0) => {
                let mut c = RxAppCntAnsCreator::new();
                c.set_rx_app_cnt(w as u16);
                Some(c.build().to_vec())
            }
            (2, 1) => {
                let mut c = DutVersionsAnsCreator::new();
                let mut d = [0u8; 12];
                d[..4].copy_from_slice(&w.to_le_bytes());
                d[4..7].copy_from_slice(&a);
                c.set_versions_raw(d);
                Some(c.build().to_vec())
            }
            (4, 0) => {
                let mut c = PackageVersionAnsCreator::new();
                c.package_identifier(b).package_version(a[0]);
                Some(c.build().to_vec())
            }
            (4, 1) => {
                let mut c = McGroupStatusAnsCreator::new();
                c.nb_total_groups(b & 7);
                for g in 0..4u8 {
                    if a[1] >> g & 1 == 1 {
                        let _ = c.push(g, McAddr::from_value(w.rotate_left(g as u32 * 8)));
                    }
                }
                Some(c.build().to_vec())
            }
            (5, 0) => {
                let mut c = McGroupSetupReqCreator::new();
                let kek = DefaultNetworkCrypto::new(&AES128([b; 16]));
                c.mc_group_id_header(b & 3).mc_addr(&McAddr::from_value(w)).mc_key(&kek, &lorawan::keys::McKey::from([a[0]; 16])).min_mc_fcount(w >> 3).max_mc_fcount(!w);
                Some(c.build().to_vec())
            }
            (5, 1) => {
                let mut c = McGroupStatusReqCreator::new();
                c.req_group_mask(b);
                Some(c.build().to_vec())
            }
            _ => None,
        }
    });
    r.ok().flatten()
}

/// A valid command stream of `set`, at most `max` octets (hand-built commands mixed with
/// commands from the crate's creators).
fn valid_stream(rng: &mut Prng, set: usize, max: usize) -> Vec<u8> {
    let cids = set_cids(set);
    let n = 1 + rng.below(6) as usize;
    let mut v: Vec<u8> = vec![];
    for i in 0..n {
        let last = i == n - 1;
        let mut c = None;
        if rng.chance(1, 4) {
            c = creator_cmd(rng, set);
        }
        let c = match c {
            Some(c) => c,
            None => {
                let cid = *rng.pick(&cids);
                if spec_len(set, cid) == Some(L::Rest) && !last {
                    continue;
                }
                let fk = rng.below(4);
                let rl = if rng.chance(1, 10) { rng.range(200, 254) as usize } else { rng.range(1, 12) as usize };
                hand_cmd(rng, set, cid, fk, rl)
            }
        };
        if v.len() + c.len() > max {
            break;
        }
        v.extend(c);
    }
    v
}

/// The same stream assembled by the crate's `build_mac_commands` from parsed commands
/// (exercises SerializableMacCommand of the parsed enums); falls back to the input.
fn rebuild_with_crate(set: usize, s: &[u8]) -> Vec<u8> {
    let s2 = s.to_vec();
    let r = trap(move || -> Option<Vec<u8>> {
        let mut out = vec![0u8; s2.len()];
        macro_rules! go {
            ($f:ident) => {{
                let cmds: Vec<_> = $f(&s2).filter_map(Result::ok).collect();
                let refs: Vec<&dyn SerializableMacCommand> = cmds.iter().map(|c| c as &dyn SerializableMacCommand).collect();
                build_mac_commands(&refs, &mut out[..]).ok().map(|n| out[..n].to_vec())
            }};
        }
        match set {
            0 => go!(parse_uplink_mac_commands),
            1 => go!(parse_downlink_mac_commands),
            2 => go!(parse_uplink_dut_commands),
            3 => go!(parse_downlink_dut_commands),
            4 => go!(parse_uplink_multicast_commands),
            _ => go!(parse_downlink_multicast_commands),
        }
    });
    r.ok().flatten().unwrap_or_else(|| s.to_vec())
}

fn mutate(rng: &mut Prng, base: &[u8], other: &[u8]) -> (Vec<u8>, &'static str) {
    let mut m = base.to_vec();
    match rng.below(7) {
        0 => {
            for _ in 0..1 + rng.below(3) {
                if !m.is_empty() {
                    let i = rng.below(m.len() as u64) as usize;
                    m[i] ^= 1 << rng.below(8);
                }
            }
            (m, "bitflip")
        }
        1 => {
            let k = rng.below(m.len() as u64 + 1) as usize;
            m.truncate(k);
            (m, "truncate")
        }
        2 => {
            let k = rng.range(1, 16) as usize;
            m.extend(rng.bytes(k));
            (m, "extend")
        }
        3 => {
            let a = rng.below(m.len() as u64 + 1) as usize;
            let b = rng.below(other.len() as u64 + 1) as usize;
            m.truncate(a);
            m.extend_from_slice(&other[b..]);
            (m, "splice")
        }
        4 => {
            if !m.is_empty() {
                let i = rng.below(m.len() as u64) as usize;
                m[i] = rng.u8();
            }
            (m, "byte")
        }
        5 => {
            if !m.is_empty() {
                let i = rng.below(m.len() as u64) as usize;
                m.remove(i);
            }
            (m, "delete")
        }
        _ => {
            let i = rng.below(m.len() as u64 + 1) as usize;
            m.insert(i, rng.u8());
            (m, "insert")
        }
    }
}

fn clip(mut v: Vec<u8>) -> Vec<u8> {
    v.truncate(255);
    v
}

/// A valid frame whose FOpts / FRMPayload carry valid command streams. Returns (wire, nwk, app, fcnt).
fn valid_frame(rng: &mut Prng, kind: u64) -> (Vec<u8>, [u8; 16], [u8; 16], u32) {
    let nwk: [u8; 16] = rng.arr();
    let app: [u8; 16] = rng.arr();
    match kind {
        0 | 1 => {
            let mtype = rng.range(2, 5) as u8;
            let up = is_uplink_mtype(mtype);
            let fcnt = gen_fcnt(rng);
            let shape = rng.below(5);
            let flags = rng.below(16) as u8;
            let mut d = gen_desc(rng, mtype, flags, 0, 0, 0, fcnt);
            match shape {
                0 => {
                    // commands in FOpts, application payload
                    d.f_opts = valid_stream(rng, if up { 0 } else { 1 }, 15);
                    d.f_port = Some(rng.range(1, 223) as u8);
                    let n = rng.below(40) as usize;
                    d.frm = rng.bytes(n);
                }
                1 => {
                    d.f_port = Some(0);
                    d.frm = valid_stream(rng, if up { 0 } else { 1 }, 60);
                }
                2 => {
                    d.f_port = Some(224);
                    d.frm = valid_stream(rng, if up { 2 } else { 3 }, 100);
                }
                3 => {
                    d.f_port = Some(200);
                    d.frm = valid_stream(rng, if up { 4 } else { 5 }, 100);
                }
                _ => {
                    d.f_opts = valid_stream(rng, if up { 0 } else { 1 }, 15);
                }
            }
            let w = if kind == 0 {
                encode_data(&d, &nwk, &app).unwrap_or_default()
            } else {
                // the crate's own creator
                let mut buf = vec![0u8; 300];
                let dd = d.clone();
                match trap(|| build_repo_data(&dd, &mut buf, &nwk, &app, 0, true)) {
                    Ok(Ok(n)) => buf[..n].to_vec(),
                    _ => encode_data(&d, &nwk, &app).unwrap_or_default(),
                }
            };
            (w, nwk, app, fcnt)
        }
        2 => {
            let w = encode_join_request(&app, &rng.arr(), &rng.arr(), rng.next_u32() as u16);
            (w, nwk, app, 0)
        }
        _ => {
            let cf = match rng.below(3) {
                0 => None,
                _ => {
                    let mut c: [u8; 16] = rng.arr();
                    c[15] = *rng.pick(&[0u8, 0, 1, 1, 2, 0xff]);
                    Some(c)
                }
            };
            let d = JoinAcceptDesc { join_nonce: rng.below(1 << 24) as u32, net_id: rng.below(1 << 24) as u32, dev_addr: rng.next_u32(), dl_settings: rng.u8(), rx_delay: rng.u8(), cf_list: cf };
            (encode_join_accept(&app, &d), nwk, app, 0)
        }
    }
}

// sanitizer tier: variant = idx / 16, flavour = idx % 16, so that each of the 16 Miri
// processes (`--shard i/16`) meets every variant once with its own fill.
const SAN_CMD_VARIANTS: u64 = (N_VARIANTS as u64) * 3 + 16 + 6;
const SAN_FRAME_VARIANTS: u64 = 34;
const SAN_SHORT_VARIANTS: u64 = 40;

impl Monitor for C03 {
    fn prop(&self) -> &'static str {
        "C03"
    }
    fn scalable(&self, g: &str) -> bool {
        matches!(g, "streams" | "frames" | "random" | "long" | "direct-new")
    }
    fn gens(&self, tier: Tier) -> Vec<Gen> {
        if tier == Tier::Sanitizer {
            return vec![gen("san-cmds", SAN_CMD_VARIANTS * 16), gen("san-frames", SAN_FRAME_VARIANTS * 16), gen("san-short", SAN_SHORT_VARIANTS * 16)];
        }
        vec![
            gen("exh-0-2", 257),
            gen("exh-3", 65_536),
            gen("cid-trunc", 6 * 256 * 3),
            gen("mhdr-grid", 256),
            gen("streams", tier.pick(300_000, 6_000_000, 0)),
            gen("frames", tier.pick(80_000, 2_000_000, 0)),
            gen("random", 256 * tier.pick(3_000, 80_000, 0)),
            gen("direct-new", 40 * tier.pick(64, 2_000, 0)),
            gen("long", tier.pick(3_000, 100_000, 0)),
        ]
    }
    fn rule(&self) -> String {
        "long: byte strings of 256..1230 octets, one in eight of 4000..6300 octets (random, data-frame shaped, small-CID sprinkled). Every input goes to all 12 entry points (parse, 3 frame parsers, 2 decrypt_in_place with arbitrary keys, 6 command iterators) and, on success, to every public accessor; FOpts and decrypted FRMPayloads are fed back to the 6 iterators as nested inputs. exh-0-2/exh-3: every byte string of length 0..2 / 3, all 16.8 M of them in both tiers (one case = one slab of 256 inputs sharing their leading octets); cid-trunc: every CID 0..255 x every truncation point of the longest form of the command in each of the 6 sets x {00, FF, random} fill, alone / after a whole command / followed by more octets, McGroupStatusAns for all 256 status octets; mhdr-grid: every MHDR x length 0..64 x FOptsLen 0..15; streams: valid command streams (hand-built from the specification table, the crate's creators and build_mac_commands) and 12 mutants each; frames: valid data/join frames carrying valid streams (reference encoder and the crate's builder) with true or foreign keys, every truncation, every FOptsLen, bit flips, extension, splice; random: random strings of every length 0..255. Class = (entry point, outcome class, first octet (CID/MHDR), octets left at the stop (iterators) or input length bucket (frames)).".into()
    }
    fn assumptions(&self) -> Vec<String> {
        vec![
            "'whole command' is judged against payload lengths transcribed from LoRaWAN 1.0.4 (MAC), TS009 (certification) and TS005 (multicast setup) for exactly the commands the six enums implement; any other CID must not be yielded as a command".into(),
            "an error reported at an offset where the specification table finds a whole command counts as a breach of 'yields only whole commands ... at most one error' (the error is not at a malformed tail)".into(),
            "a variable-length command (TxFramesCtrlReq, EchoPayloadReq/Ans, McGroupStatusAns) with no payload octet at all may be reported either as truncated or as an empty command".into(),
            "an iterator that stops silently before the end of the input is recorded (event iter_silent_stop_before_end) but not a violation: the statement allows zero errors".into(),
            "termination is observed as bounded progress: more than input_len+1 items is a violation; a case that never returns is caught by the runner's stall watchdog".into(),
            "accessors with a caller-chosen index (ChannelMask::is_enabled, get_index, statuses::<M>) are called only with in-range / documented arguments".into(),
        ]
    }
    fn required_events(&self, tier: Tier) -> Vec<&'static str> {
        let mut v = vec![
            "ok_parse_joinreq",
            "ok_parse_joinacc",
            "ok_parse_data",
            "ok_data_parse",
            "ok_joinreq_parse",
            "ok_joinacc_parse",
            "ok_data_decrypt",
            "ok_joinacc_decrypt",
            "frame_err",
            "iter_ok_item",
            "iter_err_unknown_cid",
            "iter_err_truncated",
            "iter_fused_after_error",
            "nested_stream_checked",
        ];
        if tier != Tier::Sanitizer {
            v.push("all_44_command_variants_parsed");
            v.push("long_input");
        }
        v
    }
    fn exhaustive(&self, _tier: Tier) -> bool {
        false
    }
    fn finish(&self, col: &mut Collector) {
        let mut n = 0;
        let mut missing = vec![];
        for s in 0..6 {
            for c in set_cids(s) {
                if col.events.contains_key(&format!("cmd|{}|{:02x}", SET_NAMES[s], c)) {
                    n += 1;
                } else {
                    missing.push(format!("{}:{:02x}", SET_NAMES[s], c));
                }
            }
        }
        col.notes.insert("command_variants_parsed".into(), json!(n));
        if n == N_VARIANTS {
            col.event("all_44_command_variants_parsed");
        } else {
            col.notes.insert("command_variants_missing".into(), json!(missing));
        }
    }

    fn run_case(&self, g: &str, idx: u64, rng: &mut Prng, col: &mut Collector) {
        let mut cx = Ctx::new(rng);
        match g {
            "exh-0-2" => {
                if idx == 0 {
                    judge_input(&[], g, &mut cx, col);
                    for b in 0..=255u8 {
                        judge_input(&[b], g, &mut cx, col);
                    }
                } else {
                    let a = (idx - 1) as u8;
                    for b in 0..=255u8 {
                        judge_input(&[a, b], g, &mut cx, col);
                    }
                }
                if col.want_sample() {
                    col.sample(json!({"slab": if idx == 0 { "length 0 and 1".to_string() } else { format!("{:02x} ?? (256 inputs)", idx - 1) }}));
                }
            }
            "exh-3" => {
                // one case = one (first, second) octet slab: small enough for the runner to
                // spread the sweep over all threads, large enough to amortise the case set-up
                let a = (idx >> 8) as u8;
                let b = idx as u8;
                for c in 0..=255u8 {
                    judge_input(&[a, b, c], g, &mut cx, col);
                }
                if col.want_sample() {
                    col.sample(json!({"slab": format!("{:02x} {:02x} ?? (256 inputs)", a, b)}));
                }
            }
            "cid-trunc" => {
                let fk = idx % 3;
                let cid = ((idx / 3) % 256) as u8;
                let set = (idx / 768) as usize;
                let mut forms: Vec<Vec<u8>> = vec![];
                match spec_len(set, cid) {
                    Some(L::Fixed(_)) => forms.push(hand_cmd(rng, set, cid, fk, 0)),
                    Some(L::Rest) => {
                        for rl in [1usize, 2, 17, 241, 242, 254] {
                            forms.push(hand_cmd(rng, set, cid, fk, rl));
                        }
                    }
                    Some(L::Groups) => {
                        for st in 0..=255u8 {
                            let mut v = vec![cid, st];
                            v.extend(fill(rng, fk, 20));
                            forms.push(v);
                        }
                    }
                    None => {
                        // not a command of this set: CID followed by up to 6 octets
                        let mut v = vec![cid];
                        v.extend(fill(rng, fk, 6));
                        forms.push(v);
                    }
                }
                let cids = set_cids(set);
                let lead_cid = *rng.pick(&cids);
                let lead = if spec_len(set, lead_cid) == Some(L::Rest) { vec![] } else { hand_cmd(rng, set, lead_cid, 2, 1) };
                for f in forms.iter() {
                    let step = if f.len() > 40 { 1 + f.len() / 24 } else { 1 };
                    let mut t = 0;
                    while t <= f.len() {
                        judge_input(&f[..t], g, &mut cx, col);
                        if !lead.is_empty() {
                            let mut v = lead.clone();
                            v.extend_from_slice(&f[..t]);
                            judge_input(&clip(v), g, &mut cx, col);
                        }
                        t = if t < 34 || t + step > f.len() { t + 1 } else { t + step };
                    }
                    // whole command followed by more octets
                    for extra in [1usize, 2, 7] {
                        let mut v = f.clone();
                        v.extend(fill(rng, fk, extra));
                        judge_input(&clip(v), g, &mut cx, col);
                        let mut v = f.clone();
                        v.extend(fill(rng, 2, extra));
                        judge_input(&clip(v), g, &mut cx, col);
                    }
                }
                if col.want_sample() {
                    col.sample(json!({"set": SET_NAMES[set], "cid": cid, "fill": fk, "longest_form": hex(&forms[0])}));
                }
            }
            "mhdr-grid" => {
                let mhdr = idx as u8;
                for len in 0..=64usize {
                    for fol in 0..16u8 {
                        for fk in [0u64, 2] {
                            let mut v = fill(rng, fk, len);
                            if len > 0 {
                                v[0] = mhdr;
                            }
                            if len > 5 {
                                v[5] = (v[5] & 0xf0) | fol;
                            }
                            // vary which keys decrypt_in_place is given
                            cx.key_mode = ((len as u8) ^ fol) & 3;
                            judge_input(&v, g, &mut cx, col);
                        }
                    }
                }
                if col.want_sample() {
                    col.sample(json!({"mhdr": mhdr, "lengths": "0..=64", "fopts_len": "0..=15"}));
                }
            }
            "streams" => {
                let set = (idx % 6) as usize;
                let mut base = valid_stream(rng, set, 255);
                if rng.chance(1, 3) {
                    base = rebuild_with_crate(set, &base);
                }
                let oset = rng.below(6) as usize;
                let other = valid_stream(rng, oset, 255);
                if col.want_sample() {
                    col.sample(json!({"set": SET_NAMES[set], "valid_stream": hex(&base)}));
                }
                judge_input(&base, "streams/valid", &mut cx, col);
                for _ in 0..12 {
                    let (m, name) = mutate(rng, &base, &other);
                    judge_input(&clip(m), name, &mut cx, col);
                }
            }
            "frames" => {
                let kind = idx % 4;
                let (w, nwk, app, fcnt) = valid_frame(rng, kind);
                let okind = rng.below(4);
                let (other, _, _, _) = valid_frame(rng, okind);
                // three cases out of four use the keys the frame was built with, so that the
                // decrypted FRMPayload is the valid stream
                if !rng.chance(1, 4) {
                    let km = if rng.chance(1, 6) { rng.below(4) as u8 } else { 3 };
                    cx = Ctx::with_keys(&nwk, &app, fcnt, km);
                }
                if col.want_sample() {
                    let kn = ["data/reference-encoder", "data/crate-builder", "join-request", "join-accept"][kind as usize];
                    col.sample(json!({"kind": kn, "frame": hex(&w)}));
                }
                judge_input(&w, "frames/valid", &mut cx, col);
                for t in 0..w.len() {
                    judge_input(&w[..t], "frames/truncate", &mut cx, col);
                }
                if w.len() > 5 && kind < 2 {
                    for fol in 0..16u8 {
                        let mut m = w.clone();
                        m[5] = (m[5] & 0xf0) | fol;
                        judge_input(&m, "frames/foptslen", &mut cx, col);
                    }
                }
                for _ in 0..10 {
                    let (m, name) = mutate(rng, &w, &other);
                    judge_input(&clip(m), name, &mut cx, col);
                }
                let mut m = w.clone();
                if !m.is_empty() {
                    m[0] = rng.u8();
                }
                judge_input(&m, "frames/mhdr", &mut cx, col);
            }
            "direct-new" => direct_new_case(idx, rng, col),
            "long" => {
                // byte strings longer than any radio delivers (256..=1230 octets): 'no byte string'
                // has no upper length
                // (one in eight far beyond: 4000..6300 octets, more than 255 cipher blocks of FRMPayload)
                let len = if idx % 8 == 7 { 4000 + (idx % 23) as usize * 100 + rng.below(100) as usize } else { 256 + (idx % 64) as usize * 15 + rng.below(15) as usize };
                let mut v = rng.bytes(len);
                match rng.below(3) {
                    0 => {
                        // shaped like a data frame
                        v[0] = (rng.range(2, 5) as u8) << 5;
                        v[5] = (v[5] & 0xf0) | rng.below(16) as u8;
                    }
                    1 => {
                        for b in v.iter_mut() {
                            if rng.chance(1, 3) {
                                *b &= 0x0f;
                            }
                        }
                    }
                    _ => {}
                }
                cx.key_mode = rng.below(4) as u8;
                if col.want_sample() {
                    col.sample(json!({"len": len, "bytes": hex(&v[..48])}));
                }
                col.event("long_input");
                judge_input(&v, g, &mut cx, col);
            }
            "random" => {
                let len = (idx % 256) as usize;
                let mut v = rng.bytes(len);
                if len > 0 {
                    match rng.below(4) {
                        0 => v[0] = (rng.below(8) as u8) << 5 | if rng.chance(1, 8) { rng.below(4) as u8 } else { 0 } | (rng.below(8) as u8) << 2,
                        1 => v[0] = rng.below(16) as u8,
                        _ => {}
                    }
                    // sprinkle small CIDs so that streams go on after the first command
                    if rng.bool() {
                        for b in v.iter_mut() {
                            if rng.chance(1, 3) {
                                *b &= 0x0f;
                            }
                        }
                    }
                }
                cx.key_mode = rng.below(4) as u8;
                if col.want_sample() {
                    col.sample(json!({"len": len, "bytes": hex(&v[..v.len().min(48)])}));
                }
                judge_input(&v, g, &mut cx, col);
            }
            "san-cmds" => {
                let flav = idx % 16;
                let var = idx / 16;
                let v = san_cmd_input(var, flav, rng);
                if col.want_sample() {
                    col.sample(json!({"variant": var, "flavour": flav, "input": hex(&v)}));
                }
                // iterators only (+ the cheap frame parsers); no AES under Miri here
                for ep in 0..N_EP {
                    if ep == 4 || ep == 5 {
                        continue;
                    }
                    judge_ep(ep, &v, g, &mut cx, col);
                }
            }
            "san-frames" => {
                let flav = idx % 16;
                let var = idx / 16;
                let kind = var % 4;
                let (w, nwk, app, fcnt) = valid_frame(rng, kind);
                cx = Ctx::with_keys(&nwk, &app, fcnt, 3);
                let m = match var / 4 {
                    0 => w.clone(),
                    1 => w[..w.len().saturating_sub(1 + flav as usize % 5)].to_vec(),
                    2 => {
                        let mut m = w.clone();
                        if m.len() > 5 {
                            m[5] = (m[5] & 0xf0) | flav as u8;
                        }
                        m
                    }
                    3 => {
                        let mut m = w.clone();
                        m.extend(rng.bytes(1 + flav as usize));
                        m
                    }
                    4 => {
                        let mut m = w.clone();
                        if !m.is_empty() {
                            let i = rng.below(m.len() as u64) as usize;
                            m[i] ^= 1 << (flav % 8);
                        }
                        m
                    }
                    5 => {
                        // minimal data frame with every FOptsLen: 12 octets
                        let mut m = w.clone();
                        m.truncate(12);
                        if m.len() > 5 {
                            m[5] = (m[5] & 0xf0) | flav as u8;
                        }
                        m
                    }
                    6 => w[..(w.len() * flav as usize / 16).min(w.len())].to_vec(),
                    7 => {
                        let mut m = w.clone();
                        if !m.is_empty() {
                            m[0] = (flav as u8) << 4 | (m[0] & 0x0f);
                        }
                        m
                    }
                    _ => w[..w.len().min(12 + flav as usize)].to_vec(),
                };
                if col.want_sample() {
                    col.sample(json!({"variant": var, "flavour": flav, "input": hex(&m)}));
                }
                judge_input(&m, g, &mut cx, col);
            }
            "san-short" => {
                let flav = idx % 16;
                let var = idx / 16;
                let v: Vec<u8> = match var {
                    0 => vec![],
                    1..=8 => vec![((var - 1) as u8) << 5 | (flav as u8 & 3)],
                    9..=24 => vec![(var - 9) as u8, rng.u8()],
                    _ => vec![rng.below(16) as u8, rng.u8(), rng.u8()],
                };
                for ep in 0..N_EP {
                    judge_ep(ep, &v, g, &mut cx, col);
                }
            }
            _ => unreachable!(),
        }
        cx.flush(col);
    }
}

/// Sanitizer input #var: every command variant of all six sets as (whole command, whole
/// command + another, truncated by one), then McGroupStatusAns for every AnsGroupMask, then
/// one unknown CID per set.
fn san_cmd_input(var: u64, flav: u64, rng: &mut Prng) -> Vec<u8> {
    let fk = match flav % 4 {
        0 => 0,
        1 => 1,
        _ => 2,
    };
    let mut table: Vec<(usize, u8)> = vec![];
    for s in 0..6 {
        for c in set_cids(s) {
            table.push((s, c));
        }
    }
    let nv = table.len() as u64; // 44
    if var < nv * 3 {
        let (s, c) = table[(var % nv) as usize];
        let mut v = hand_cmd(rng, s, c, fk, 1 + flav as usize);
        match var / nv {
            0 => {}
            1 => {
                if spec_len(s, c) != Some(L::Rest) {
                    let (s2, c2) = table[((var + 1 + flav) % nv) as usize];
                    if s2 == s {
                        v.extend(hand_cmd(rng, s2, c2, fk, 2));
                    } else {
                        v.extend(hand_cmd(rng, s, c, 2, 2));
                    }
                }
            }
            _ => {
                let k = 1 + (flav as usize % 3);
                let n = v.len().saturating_sub(k);
                v.truncate(n);
            }
        }
        v
    } else if var < nv * 3 + 16 {
        let mask = (var - nv * 3) as u8;
        let mut v = vec![0x01, mask | ((flav as u8 & 7) << 4)];
        v.extend(fill(rng, fk, 5 * mask.count_ones() as usize));
        if flav >= 12 {
            let n = v.len() - 1;
            v.truncate(n);
        }
        v
    } else {
        let unknown = [0x01u8, 0x0b, 0x0a, 0x03, 0x06, 0x06];
        let s = (var - nv * 3 - 16) as usize % 6;
        let mut v = vec![unknown[s]];
        v.extend(fill(rng, fk, flav as usize % 4));
        v
    }
}


// ---- payload views built directly from a byte slice ----------------------------------------------

/// `XxxPayload::new(&[u8])` of every command payload type that has one, on slices of every length
/// 0..=39: whatever it returns, it must not panic, and a view it hands out must be safe to read.
fn direct_new_case(idx: u64, rng: &mut Prng, col: &mut Collector) {
    use lorawan::certification as ce;
    use lorawan::maccommands as mc;
    use lorawan::multicast as mu;
    let len = (idx % 40) as usize;
    let data: Vec<u8> = match (idx / 40) % 4 {
        0 => vec![0u8; len],
        1 => vec![0xFF; len],
        _ => rng.bytes(len),
    };
    let kc = DefaultCrypto::new(&AES128([7; 16]));
    let mut accepted = 0u64;
    macro_rules! direct {
        ($( $en:ident :: $var:ident ( $ty:ty ) ),* $(,)?) => {
            $(
                let r = trap(|| {
                    match <$ty>::new(&data) {
                        Ok(p) => {
                            let c = $en::$var(p);
                            c.touch(&kc);
                            bb(c.cid_());
                            bb(c.len_());
                            bb(c.bytes_());
                            true
                        }
                        Err(_) => false,
                    }
                });
                col.eval(&format!("direct-new|{}|len{}|{}", stringify!($var), len.min(31), match &r { Ok(true) => "view", Ok(false) => "refused", Err(_) => "panic" }));
                match r {
                    Ok(true) => accepted += 1,
                    Ok(false) => {}
                    Err(t) => {
                        col.violation(
                            &format!("C03|direct-new|panic|{}|{}", stringify!($var), t.file()),
                            "building a command payload view directly from a byte slice, or reading a view it handed out, panicked",
                            json!({"type": stringify!($ty), "input": hex(&data), "len": len, "panic": t.msg, "loc": t.loc}),
                        );
                    }
                }
            )*
        };
    }
    direct!(
        DownlinkMacCommand::LinkCheckAns(mc::LinkCheckAnsPayload),
        DownlinkMacCommand::LinkADRReq(mc::LinkADRReqPayload),
        DownlinkMacCommand::DutyCycleReq(mc::DutyCycleReqPayload),
        DownlinkMacCommand::RXParamSetupReq(mc::RXParamSetupReqPayload),
        DownlinkMacCommand::NewChannelReq(mc::NewChannelReqPayload),
        DownlinkMacCommand::RXTimingSetupReq(mc::RXTimingSetupReqPayload),
        DownlinkMacCommand::TXParamSetupReq(mc::TXParamSetupReqPayload),
        DownlinkMacCommand::DlChannelReq(mc::DlChannelReqPayload),
        DownlinkMacCommand::DeviceTimeAns(mc::DeviceTimeAnsPayload),
        UplinkMacCommand::LinkADRAns(mc::LinkADRAnsPayload),
        UplinkMacCommand::RXParamSetupAns(mc::RXParamSetupAnsPayload),
        UplinkMacCommand::DevStatusAns(mc::DevStatusAnsPayload),
        UplinkMacCommand::NewChannelAns(mc::NewChannelAnsPayload),
        UplinkMacCommand::DlChannelAns(mc::DlChannelAnsPayload),
        DownlinkDUTCommand::AdrBitChangeReq(ce::AdrBitChangeReqPayload),
        DownlinkDUTCommand::TxPeriodicityChangeReq(ce::TxPeriodicityChangeReqPayload),
        DownlinkDUTCommand::TxFramesCtrlReq(ce::TxFramesCtrlReqPayload),
        DownlinkDUTCommand::EchoIncPayloadReq(ce::EchoIncPayloadReqPayload),
        UplinkDUTCommand::EchoIncPayloadAns(ce::EchoIncPayloadAnsPayload),
        UplinkDUTCommand::RxAppCntAns(ce::RxAppCntAnsPayload),
        UplinkDUTCommand::DutVersionsAns(ce::DutVersionsAnsPayload),
        DownlinkRemoteSetup::McGroupStatusReq(mu::McGroupStatusReqPayload),
        DownlinkRemoteSetup::McGroupSetupReq(mu::McGroupSetupReqPayload),
        DownlinkRemoteSetup::McGroupDeleteReq(mu::McGroupDeleteReqPayload),
        DownlinkRemoteSetup::McClassCSessionReq(mu::McClassCSessionReqPayload),
        DownlinkRemoteSetup::McClassBSessionReq(mu::McClassBSessionReqPayload),
        UplinkRemoteSetup::PackageVersionAns(mu::PackageVersionAnsPayload),
        UplinkRemoteSetup::McGroupStatusAns(mu::McGroupStatusAnsPayload),
        UplinkRemoteSetup::McGroupSetupAns(mu::McGroupSetupAnsPayload),
        UplinkRemoteSetup::McGroupDeleteAns(mu::McGroupDeleteAnsPayload),
        UplinkRemoteSetup::McClassCSessionAns(mu::McClassCSessionAnsPayload),
        UplinkRemoteSetup::McClassBSessionAns(mu::McClassBSessionAnsPayload),
    );
    // value types built from a slice: checked constructors and their bounds-checked readers
    let r = trap(|| {
        use lorawan::types::{ChannelMask, Frequency};
        let mut n = 0u64;
        if let Ok(m) = ChannelMask::<2>::new(&data) {
            for i in 0..40 {
                bb(m.is_enabled(i).ok());
            }
            bb(m.statuses::<16>());
            bb(m.as_ref().len());
            n += 1;
        }
        if let Ok(m) = ChannelMask::<9>::new(&data) {
            for i in 0..90 {
                bb(m.is_enabled(i).ok());
            }
            bb(m.statuses::<72>());
            n += 1;
        }
        if let Some(f) = Frequency::new(&data) {
            touch_freq(&f);
            n += 1;
        }
        n
    });
    match r {
        Ok(n) => accepted += n,
        Err(t) => col.violation(&format!("C03|direct-new|panic|types|{}", t.file()), "a checked constructor of ChannelMask / Frequency, or a bounds-checked reader of the value it returned, panicked", json!({"input": hex(&data), "panic": t.msg, "loc": t.loc})),
    }
    col.event_n("direct_new_views", accepted);
}
