//! Construction of real drivers (`lora_phy::LoRa`, `LorawanRadio`) on top of the emulated chips,
//! and a small uniform "probe" interface over both chip models for the monitors.

use crate::bus::*;
use crate::chip126x::{self, Chip126x};
use crate::chip127x::{self, Chip127x};
use crate::exec;
use lora_phy::mod_params::{RadioError, RadioMode, RxMode};
use lora_phy::mod_traits::RadioKind;
use lora_phy::sx126x::{self, Sx1261, Sx1262, Sx126x, TcxoCtrlVoltage};
use lora_phy::sx127x::{self, Sx1272, Sx1276, Sx127x};
use lora_phy::LoRa;

#[derive(Clone, Copy, Debug, PartialEq, Eq, Hash)]
pub enum Var {
    Sx1261,
    Sx1262,
    Sx1276,
    Sx1272,
}

pub const VARS: [Var; 4] = [Var::Sx1261, Var::Sx1262, Var::Sx1276, Var::Sx1272];

impl Var {
    pub fn name(self) -> &'static str {
        match self {
            Var::Sx1261 => "sx1261",
            Var::Sx1262 => "sx1262",
            Var::Sx1276 => "sx1276",
            Var::Sx1272 => "sx1272",
        }
    }
    pub fn family(self) -> &'static str {
        match self {
            Var::Sx1261 | Var::Sx1262 => "sx126x",
            _ => "sx127x",
        }
    }
    pub fn is_126x(self) -> bool {
        matches!(self, Var::Sx1261 | Var::Sx1262)
    }
    /// Items the board configuration of this variant makes the driver responsible for
    /// (regulator and TCXO only matter on boards that use them).
    pub fn board_items(self) -> u16 {
        match self {
            // SX1261 board: DC-DC regulator and TCXO on DIO3
            Var::Sx1261 => item::REGULATOR | item::TCXO,
            // SX1262 board: DC-DC regulator, crystal
            Var::Sx1262 => item::REGULATOR,
            // SX1276 board: TCXO
            Var::Sx1276 => item::TCXO,
            // SX1272 board: crystal
            Var::Sx1272 => 0,
        }
    }
}

/// Uniform access to what the monitors program into / read out of a chip model.
pub trait Probe: ChipModel {
    fn push_outcome(&mut self, o: Vec<Ev>);
    fn set_default_outcome(&mut self, o: Vec<Ev>);
    /// Forces the reported (length, start) now and at the next RxDone.
    fn set_report(&mut self, len: u8, start: u8);
    fn set_next_packet(&mut self, p: Option<Vec<u8>>);
    fn fill_data(&mut self, f: &dyn Fn(u8) -> u8);
    fn data(&self, pos: u8) -> u8;
    /// Status byte forced onto the status-returning read commands (SX126x only).
    fn set_status(&mut self, s: Option<u8>);
    /// Raw packet status bytes (SX126x: RssiPkt, SnrPkt, SignalRssiPkt; SX127x: RegPktRssiValue,
    /// RegPktSnrValue, RegRssiValue).
    fn set_pkt_status(&mut self, b: [u8; 3]);
    fn alarms(&self) -> &Vec<Alarm>;
    fn op_starts(&self) -> &Vec<OpStart>;
    /// LoRa sync word registers now (SX126x: MSB<<8 | LSB; SX127x: RegSyncWord)
    fn sync_value(&self) -> u16;
    /// SX126x: the next transaction finds a chip that runs SetRxDutyCycle in its sleep phase.
    fn arm_duty_sleep(&mut self, _on: bool) {}
    /// The driver's API was asked for a cold sleep (`sleep(false)`) and reported success. The statement
    /// counts that as a loss of configuration on every chip family ("after a cold sleep or reset
    /// everything ... is programmed again"): a chip that keeps its registers while asleep (SX127x) is
    /// marked here, the SX126x model loses its configuration by itself when it executes the command.
    fn api_cold_sleep(&mut self) {}
    fn prog(&self) -> u16;
    fn losses(&self) -> u32;
    fn last_loss(&self) -> &'static str;
    fn clear_transcript(&mut self);
    fn tx_payloads(&self) -> &Vec<Vec<u8>>;
}

impl Probe for Chip126x {
    fn push_outcome(&mut self, o: Vec<Ev>) {
        self.script.push_back(o);
    }
    fn set_default_outcome(&mut self, o: Vec<Ev>) {
        self.default_outcome = o;
    }
    fn set_report(&mut self, len: u8, start: u8) {
        self.rx_len = len;
        self.rx_start = start;
        self.report_override = Some((len, start));
    }
    fn set_next_packet(&mut self, p: Option<Vec<u8>>) {
        self.next_packet = p;
    }
    fn fill_data(&mut self, f: &dyn Fn(u8) -> u8) {
        for i in 0..256usize {
            self.buf[i] = f(i as u8);
        }
    }
    fn data(&self, pos: u8) -> u8 {
        self.buf[pos as usize]
    }
    fn set_status(&mut self, s: Option<u8>) {
        self.status_override = s;
    }
    fn set_pkt_status(&mut self, b: [u8; 3]) {
        self.pkt_status = b;
    }
    fn alarms(&self) -> &Vec<Alarm> {
        &self.alarms
    }
    fn op_starts(&self) -> &Vec<OpStart> {
        &self.op_starts
    }
    fn arm_duty_sleep(&mut self, on: bool) {
        self.duty_asleep_next = on;
    }
    fn sync_value(&self) -> u16 {
        (self.reg(chip126x::REG_LORA_SYNC_WORD_MSB) as u16) << 8 | self.reg(chip126x::REG_LORA_SYNC_WORD_LSB) as u16
    }
    fn prog(&self) -> u16 {
        self.prog
    }
    fn losses(&self) -> u32 {
        self.losses
    }
    fn last_loss(&self) -> &'static str {
        self.last_loss
    }
    fn clear_transcript(&mut self) {
        self.transcript.clear();
        self.op_starts.clear();
    }
    fn tx_payloads(&self) -> &Vec<Vec<u8>> {
        &self.tx_payloads
    }
}

impl Probe for Chip127x {
    fn push_outcome(&mut self, o: Vec<Ev>) {
        self.script.push_back(o);
    }
    fn set_default_outcome(&mut self, o: Vec<Ev>) {
        self.default_outcome = o;
    }
    fn set_report(&mut self, len: u8, start: u8) {
        self.regs[chip127x::REG_RX_NB_BYTES as usize] = len;
        self.regs[chip127x::REG_FIFO_RX_CURRENT_ADDR as usize] = start;
        self.report_override = Some((len, start));
    }
    fn set_next_packet(&mut self, p: Option<Vec<u8>>) {
        self.next_packet = p;
    }
    fn fill_data(&mut self, f: &dyn Fn(u8) -> u8) {
        for i in 0..256usize {
            self.fifo[i] = f(i as u8);
        }
    }
    fn data(&self, pos: u8) -> u8 {
        self.fifo[pos as usize]
    }
    fn set_status(&mut self, _s: Option<u8>) {}
    fn set_pkt_status(&mut self, b: [u8; 3]) {
        self.regs[chip127x::REG_PKT_RSSI_VALUE as usize] = b[0];
        self.regs[chip127x::REG_PKT_SNR_VALUE as usize] = b[1];
        self.regs[chip127x::REG_RSSI_VALUE as usize] = b[2];
    }
    fn alarms(&self) -> &Vec<Alarm> {
        &self.alarms
    }
    fn op_starts(&self) -> &Vec<OpStart> {
        &self.op_starts
    }
    fn sync_value(&self) -> u16 {
        self.regs[chip127x::REG_SYNC_WORD as usize] as u16
    }
    fn prog(&self) -> u16 {
        Chip127x::prog(self)
    }
    fn losses(&self) -> u32 {
        self.losses
    }
    fn last_loss(&self) -> &'static str {
        self.last_loss
    }
    fn api_cold_sleep(&mut self) {
        self.mark_cold_sleep();
    }
    fn clear_transcript(&mut self) {
        self.transcript.clear();
        self.op_starts.clear();
    }
    fn tx_payloads(&self) -> &Vec<Vec<u8>> {
        &self.tx_payloads
    }
}

pub type Rk1261 = Sx126x<SpiDev<Chip126x>, Iv<Chip126x>, Sx1261>;
pub type Rk1262 = Sx126x<SpiDev<Chip126x>, Iv<Chip126x>, Sx1262>;
pub type Rk1276 = Sx127x<SpiDev<Chip127x>, Iv<Chip127x>, Sx1276>;
pub type Rk1272 = Sx127x<SpiDev<Chip127x>, Iv<Chip127x>, Sx1272>;

pub fn rk1261(bus: &Bus<Chip126x>) -> Rk1261 {
    let cfg = sx126x::Config { chip: Sx1261, tcxo_ctrl: Some(TcxoCtrlVoltage::Ctrl1V7), use_dcdc: true, rx_boost: false };
    Sx126x::new(SpiDev(bus.clone()), Iv { bus: bus.clone(), irq_err: || RadioError::DIO1 }, cfg)
}

pub fn rk1262(bus: &Bus<Chip126x>) -> Rk1262 {
    let cfg = sx126x::Config { chip: Sx1262, tcxo_ctrl: None, use_dcdc: true, rx_boost: true };
    Sx126x::new(SpiDev(bus.clone()), Iv { bus: bus.clone(), irq_err: || RadioError::DIO1 }, cfg)
}

pub fn rk1276(bus: &Bus<Chip127x>) -> Rk1276 {
    let cfg = sx127x::Config { chip: Sx1276, tcxo_used: true, tx_boost: false, rx_boost: false };
    Sx127x::new(SpiDev(bus.clone()), Iv { bus: bus.clone(), irq_err: || RadioError::Irq }, cfg)
}

pub fn rk1272(bus: &Bus<Chip127x>) -> Rk1272 {
    let cfg = sx127x::Config { chip: Sx1272, tcxo_used: false, tx_boost: true, rx_boost: true };
    Sx127x::new(SpiDev(bus.clone()), Iv { bus: bus.clone(), irq_err: || RadioError::Irq }, cfg)
}

pub fn chip126x_bus() -> Bus<Chip126x> {
    new_bus(Chip126x::new())
}

pub fn chip127x_bus(v: Var) -> Bus<Chip127x> {
    new_bus(Chip127x::new(if v == Var::Sx1272 { chip127x::Variant::Sx1272 } else { chip127x::Variant::Sx1276 }))
}

/// Builds `LoRa::new(..)` (which resets and initialises the chip) on the poll-loop executor.
pub fn new_lora<RK: RadioKind, C: ChipModel>(rk: RK, bus: &Bus<C>) -> Result<LoRa<RK, Delay<C>>, String> {
    match exec::run(LoRa::new(rk, true, Delay(bus.clone())), exec::POLL_BUDGET) {
        Ok((Ok(l), _)) => Ok(l),
        Ok((Err(e), _)) => Err(format!("LoRa::new failed: {:?}", e)),
        Err(p) => Err(format!("LoRa::new did not finish within {} polls", p)),
    }
}

/// Generic code that needs a driver over "some chip" implements this and is dispatched by `with_var`.
pub trait Visitor {
    type Out;
    fn visit<RK: RadioKind, C: Probe>(self, var: Var, rk: RK, bus: Bus<C>) -> Self::Out;
}

pub fn with_var<V: Visitor>(var: Var, v: V) -> V::Out {
    match var {
        Var::Sx1261 => {
            let b = chip126x_bus();
            v.visit(var, rk1261(&b), b)
        }
        Var::Sx1262 => {
            let b = chip126x_bus();
            v.visit(var, rk1262(&b), b)
        }
        Var::Sx1276 => {
            let b = chip127x_bus(var);
            v.visit(var, rk1276(&b), b)
        }
        Var::Sx1272 => {
            let b = chip127x_bus(var);
            v.visit(var, rk1272(&b), b)
        }
    }
}

pub fn mode_name(m: RadioMode) -> String {
    match m {
        RadioMode::Sleep => "Sleep".into(),
        RadioMode::Standby => "Standby".into(),
        RadioMode::FrequencySynthesis => "FrequencySynthesis".into(),
        RadioMode::Transmit => "Transmit".into(),
        RadioMode::Receive(RxMode::Single(_)) => "Receive(Single)".into(),
        RadioMode::Receive(RxMode::Continuous) => "Receive(Continuous)".into(),
        RadioMode::Receive(RxMode::DutyCycle(_)) => "Receive(DutyCycle)".into(),
        RadioMode::Listen => "Listen".into(),
        RadioMode::ChannelActivityDetection => "ChannelActivityDetection".into(),
    }
}
