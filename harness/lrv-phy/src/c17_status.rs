//! C17 / status: RSSI and SNR reported for programmed raw status bytes agree with the data
//! sheet conversions to within 1 dB, and no raw byte makes the conversion panic.

use crate::bus::*;
use crate::exec::block_on;
use crate::viol;
use lora_phy::mod_traits::RadioKind;
use lrv_core::*;

pub fn assumptions() -> Vec<String> {
    vec![
        "SX126x / LR11xx GetPacketStatus (LoRa): RssiPkt = -raw/2 dBm, SnrPkt = two's-complement raw / 4 dB; GetRssiInst = -raw/2 dBm; 'within rounding' is read as |reported - exact| <= 1 dB; a call that returns Err is not a conversion and is only counted".into(),
        "SX127x: SNR = two's-complement RegPktSnrValue / 4; packet RSSI is set-valued: offset + raw or offset + 16/15 raw (data sheet 5.5.5 note), plus the SNR term when the SNR is negative, where the SNR term may be the exact quarter-dB value or an integer-dB rounding of it (floor / nearest / toward zero, as Semtech's drivers use); offsets -157 (HF, > 525 MHz) / -164 (LF) for SX1276 and -139 for SX1272; RegRssiValue: offset + raw".into(),
    ]
}

fn snr_class(s: u8) -> &'static str {
    match s {
        126..=127 => "snr-raw>=126",
        0..=125 => "snr-raw=0..125",
        _ => "snr-raw<0",
    }
}

/// SX126x-style conversion check. rssi in half-dB units, snr in quarter-dB units.
fn check_126(name: &str, raw: [u8; 3], got: (i16, i16), col: &mut Collector) {
    let s8 = raw[1] as i8 as i32;
    if (2 * got.0 as i32 + raw[0] as i32).abs() > 2 {
        viol(col, &format!("C17|pktstatus|rssi-off|{}", name), "packet RSSI differs from -raw/2 by more than 1 dB", || json!({"chip": name, "raw": hex(&raw), "reported_rssi": got.0, "exact_rssi": -(raw[0] as f64) / 2.0}));
    }
    if (4 * got.1 as i32 - s8).abs() > 4 {
        viol(col, &format!("C17|pktstatus|snr-off|{}/{}", name, snr_class(raw[1])), "packet SNR differs from raw/4 by more than 1 dB", || json!({"chip": name, "raw": hex(&raw), "reported_snr": got.1, "exact_snr": s8 as f64 / 4.0}));
    }
}

fn sweep_126<RK: RadioKind>(name: &str, rk: &mut RK, bus: &Bus, r0: u8, all_third: bool, rng: &mut Prng, col: &mut Collector) {
    let stride = if col.tier == Tier::Sanitizer { 37 } else { 1 };
    let mut n = 0u64;
    let mut ok = 0u64;
    let mut neg = 0u64;
    let mut errs = 0u64;
    let mut s = 0u32;
    while s < 256 {
        let thirds = if all_third && col.tier != Tier::Sanitizer { 256u32 } else { 1 };
        for q in 0..thirds {
            let third = if all_third && thirds == 256 { q as u8 } else { rng.u8() };
            let raw = [r0, s as u8, third];
            bus.chip().pkt_status = raw;
            let r = trap(|| block_on(rk.get_rx_packet_status()));
            n += 1;
            match r {
                Err(t) => {
                    viol(col, &format!("C17|pktstatus|panic|{}/{}", name, snr_class(raw[1])), "get_rx_packet_status panicked on a raw status value", || json!({"chip": name, "raw": hex(&raw), "panic": t.msg, "loc": t.loc}));
                }
                Ok(Err(_)) => errs += 1,
                Ok(Ok(ps)) => {
                    ok += 1;
                    if (raw[1] as i8) < 0 {
                        neg += 1;
                    }
                    check_126(name, raw, (ps.rssi, ps.snr), col);
                }
            }
        }
        s += stride;
    }
    col.eval_n(n);
    col.class(&format!("{}|pktstatus|rssi-raw-{}x", name, r0 >> 4));
    col.event_n(&format!("pktstatus_ok:{}", name), ok);
    col.event_n("pktstatus_snr_negative", neg);
    if errs > 0 {
        col.event_n(&format!("pktstatus_err:{}", name), errs);
    }
    if col.want_sample() {
        col.sample(json!({"chip": name, "rssi_raw": r0, "snr_raw": "0..255", "third_byte": if all_third { "0..255" } else { "random" }}));
    }
}

pub fn run_sx126x(idx: u64, rng: &mut Prng, col: &mut Collector) {
    let r0 = if col.tier == Tier::Sanitizer { [0u8, 255][(idx % 2) as usize] } else { idx as u8 };
    let (mut rk, bus) = new_sx1262();
    sweep_126("sx126x", &mut rk, &bus, r0, true, rng, col);
}

pub fn run_lr1110(idx: u64, rng: &mut Prng, col: &mut Collector) {
    let r0 = if col.tier == Tier::Sanitizer { [0u8, 255][(idx % 2) as usize] } else { idx as u8 };
    let (mut rk, bus) = new_lr1110(lora_phy::lr1110::PaSelection::Lp);
    sweep_126("lr1110", &mut rk, &bus, r0, false, rng, col);
}

// ---- SX127x ---------------------------------------------------------------------------------------

/// Candidates for the packet RSSI in 1/60 dB.
fn rssi127_candidates(offset: i32, raw: u8, s8: i32) -> Vec<i32> {
    let a = 60 * (offset + raw as i32);
    let b = 60 * offset + 64 * raw as i32;
    // SNR term forms, in 1/60 dB: exact, floor, nearest, toward zero
    let forms = [15 * s8, 60 * s8.div_euclid(4), 60 * ((s8 + 2).div_euclid(4)), 60 * (s8 / 4)];
    let mut v = vec![];
    for f in forms {
        if f < 0 {
            v.push(a + f);
            v.push(b + f);
        } else {
            v.push(a);
            v.push(b);
        }
    }
    v
}

fn sweep_127<RK: RadioKind>(name: &str, offset: i32, freq: u32, rk: &mut RK, bus: &Bus, r0: u8, col: &mut Collector) {
    if let Err(t) = trap(|| block_on(rk.set_channel(freq))) {
        viol(col, &format!("C17|freq|panic|{}/setup", name), "set_channel panicked", || json!({"chip": name, "freq": freq, "panic": t.msg}));
        return;
    }
    let stride = if col.tier == Tier::Sanitizer { 37 } else { 1 };
    let mut n = 0u64;
    let mut ok = 0u64;
    let mut neg = 0u64;
    let mut errs = 0u64;
    let mut s = 0u32;
    while s < 256 {
        {
            let mut c = bus.chip();
            c.regs[SX127X_REG_PKT_RSSI as usize] = r0;
            c.regs[SX127X_REG_PKT_SNR as usize] = s as u8;
        }
        let s8 = s as u8 as i8 as i32;
        let r = trap(|| block_on(rk.get_rx_packet_status()));
        n += 1;
        let sc = if s8 < 0 { "snr<0" } else { "snr>=0" };
        match r {
            Err(t) => viol(col, &format!("C17|pktstatus|panic|{}/{}", name, sc), "get_rx_packet_status panicked on a raw status value", || json!({"chip": name, "rssi_raw": r0, "snr_raw": s, "panic": t.msg, "loc": t.loc})),
            Ok(Err(_)) => errs += 1,
            Ok(Ok(ps)) => {
                ok += 1;
                if s8 < 0 {
                    neg += 1;
                }
                if (4 * ps.snr as i32 - s8).abs() > 4 {
                    viol(col, &format!("C17|pktstatus|snr-off|{}/{}", name, sc), "packet SNR differs from raw/4 by more than 1 dB", || json!({"chip": name, "snr_raw": s, "reported_snr": ps.snr, "exact_snr": s8 as f64 / 4.0}));
                }
                let cands = rssi127_candidates(offset, r0, s8);
                let got = 60 * ps.rssi as i32;
                if !cands.iter().any(|c| (got - c).abs() <= 60) {
                    viol(col, &format!("C17|pktstatus|rssi-off|{}/{}", name, sc), "packet RSSI is more than 1 dB away from every data sheet / reference-driver conversion", || {
                        json!({"chip": name, "freq": freq, "rssi_raw": r0, "snr_raw": s, "reported_rssi": ps.rssi, "accepted_dbm": cands.iter().map(|c| *c as f64 / 60.0).collect::<Vec<_>>()})
                    });
                }
            }
        }
        s += stride;
    }
    col.eval_n(n);
    col.class(&format!("{}|pktstatus|rssi-raw-{}x", name, r0 >> 4));
    col.event_n("pktstatus_ok:sx127x", ok);
    col.event_n("pktstatus_snr_negative", neg);
    if errs > 0 {
        col.event_n(&format!("pktstatus_err:{}", name), errs);
    }
    if col.want_sample() {
        col.sample(json!({"chip": name, "freq": freq, "rssi_raw": r0, "snr_raw": "0..255"}));
    }
}

pub fn run_sx127x(idx: u64, _rng: &mut Prng, col: &mut Collector) {
    let per = if col.tier == Tier::Sanitizer { 2 } else { 256 };
    let cfg = (idx / per) % 3;
    let r0 = if col.tier == Tier::Sanitizer { [0u8, 255][(idx % 2) as usize] } else { (idx % 256) as u8 };
    match cfg {
        0 => {
            let (mut rk, bus) = new_sx1276(false);
            // (the port, and with it the offset, follows the channel: frequencies across each port's range)
            let f = [868_100_000u32, 779_500_000, 862_000_000, 915_000_000, 1_020_000_000, 863_000_100][(r0 % 6) as usize];
            sweep_127("sx1276-hf", -157, f, &mut rk, &bus, r0, col)
        }
        1 => {
            let (mut rk, bus) = new_sx1276(false);
            let f = [433_175_000u32, 137_000_000, 470_300_000, 510_000_000, 524_900_000, 525_000_000, 524_000_100, 410_000_000][(r0 % 8) as usize];
            sweep_127("sx1276-lf", -164, f, &mut rk, &bus, r0, col)
        }
        _ => {
            let (mut rk, bus) = new_sx1272(false);
            sweep_127("sx1272", -139, 868_100_000, &mut rk, &bus, r0, col)
        }
    }
}

// ---- instantaneous RSSI -----------------------------------------------------------------------------

fn rssi_inst<RK: RadioKind>(name: &str, rk: &mut RK, bus: &Bus, exact2: impl Fn(u8) -> i32, setup_freq: Option<u32>, col: &mut Collector) {
    if let Some(f) = setup_freq {
        if trap(|| block_on(rk.set_channel(f))).is_err() {
            col.event("rssi_inst_setup_panic");
            return;
        }
    }
    for raw in 0..=255u8 {
        {
            let mut c = bus.chip();
            c.rssi_inst = raw;
            if c.family == Family::Sx127x {
                c.regs[SX127X_REG_RSSI as usize] = raw;
            }
        }
        let r = trap(|| block_on(rk.get_rssi()));
        col.eval(&format!("{}|rssi-inst|{}x", name, raw >> 6));
        match r {
            Err(t) => viol(col, &format!("C17|rssi-inst|panic|{}", name), "get_rssi panicked on a raw value", || json!({"chip": name, "raw": raw, "panic": t.msg, "loc": t.loc})),
            Ok(Err(_)) => col.event("rssi_inst_err"),
            Ok(Ok(v)) => {
                col.event("rssi_inst_ok");
                // half-dB units
                let e2 = exact2(raw);
                if (2 * v as i32 - e2).abs() > 2 {
                    viol(col, &format!("C17|rssi-inst|off|{}", name), "instantaneous RSSI is more than 1 dB away from the data sheet conversion", || json!({"chip": name, "raw": raw, "reported": v, "exact": e2 as f64 / 2.0}));
                }
            }
        }
    }
}

pub fn run_rssi_inst(idx: u64, _rng: &mut Prng, col: &mut Collector) {
    match idx % 5 {
        0 => {
            let (mut rk, bus) = new_sx1262();
            rssi_inst("sx126x", &mut rk, &bus, |r| -(r as i32), None, col)
        }
        1 => {
            let (mut rk, bus) = new_lr1110(lora_phy::lr1110::PaSelection::Lp);
            rssi_inst("lr1110", &mut rk, &bus, |r| -(r as i32), None, col)
        }
        2 => {
            let (mut rk, bus) = new_sx1276(false);
            rssi_inst("sx1276-hf", &mut rk, &bus, |r| 2 * (-157 + r as i32), Some(868_100_000), col)
        }
        3 => {
            let (mut rk, bus) = new_sx1276(false);
            rssi_inst("sx1276-lf", &mut rk, &bus, |r| 2 * (-164 + r as i32), Some(433_175_000), col)
        }
        _ => {
            let (mut rk, bus) = new_sx1272(false);
            rssi_inst("sx1272", &mut rk, &bus, |r| 2 * (-139 + r as i32), None, col)
        }
    }
}

// ---- SX127x status after a channel hop --------------------------------------------------------------

const HOP_FREQS: [u32; 4] = [433_175_000, 470_300_000, 868_100_000, 915_000_000];

fn configure_127<RK: RadioKind>(rk: &mut RK, freq: u32, full: bool) -> Result<(), String> {
    let r = trap(|| -> Result<(), lora_phy::mod_params::RadioError> {
        if full {
            let mp = rk.create_modulation_params(SFS[2], BWS[7], CRS[0], freq)?;
            block_on(rk.set_modulation_params(&mp))?;
            let pp = rk.create_packet_params(8, false, 64, true, true, &mp)?;
            block_on(rk.set_packet_params(&pp))?;
        }
        block_on(rk.set_channel(freq))
    });
    match r {
        Ok(Ok(())) => Ok(()),
        Ok(Err(e)) => Err(format!("{:?}", e)),
        Err(t) => Err(format!("panic: {}", t.msg)),
    }
}

fn after_hop<RK: RadioKind>(name: &str, offset_of: impl Fn(u32) -> i32, rk: &mut RK, bus: &Bus, from: u32, to: u32, full_hop: bool, col: &mut Collector) {
    // reception configured on `from` (modulation, packet parameters, channel), then the
    // receiver is moved to `to`: either a bare channel switch (LoRa::rx_switch_channel) or a
    // complete reconfiguration; status conversions must follow the channel now programmed
    if let Err(e) = configure_127(rk, from, true) {
        col.event("hop_setup_failed");
        col.notes.insert("hop_setup_error".into(), json!(e));
        return;
    }
    if let Err(e) = configure_127(rk, to, full_hop) {
        col.event("hop_setup_failed");
        col.notes.insert("hop_setup_error".into(), json!(e));
        return;
    }
    let offset = offset_of(to);
    let hop = if full_hop { "reconfigured" } else { "channel-switch" };
    let band = |f: u32| if f > 525_000_000 { "hf" } else { "lf" };
    for raw in (0..=255u8).step_by(5) {
        {
            let mut c = bus.chip();
            c.regs[SX127X_REG_RSSI as usize] = raw;
            c.regs[SX127X_REG_PKT_RSSI as usize] = raw;
            c.regs[SX127X_REG_PKT_SNR as usize] = 20;
        }
        col.eval(&format!("{}|after-hop|{}->{}|{}", name, band(from), band(to), hop));
        col.event("status_after_hop");
        match trap(|| block_on(rk.get_rssi())) {
            Err(t) => viol(col, &format!("C17|rssi-inst|panic|{}", name), "get_rssi panicked on a raw value", || json!({"chip": name, "raw": raw, "panic": t.msg, "loc": t.loc})),
            Ok(Err(_)) => col.event("rssi_inst_err"),
            Ok(Ok(v)) => {
                if (v as i32 - (offset + raw as i32)).abs() > 1 {
                    viol(col, &format!("C17|rssi-inst|off-after-hop|{}|{}->{}|{}", name, band(from), band(to), hop), "after moving the receiver to another channel the instantaneous RSSI is converted with the offset of a band the chip is no longer on", || {
                        json!({"chip": name, "configured_on": from, "moved_to": to, "hop": hop, "raw": raw, "reported": v, "exact": offset + raw as i32})
                    });
                }
            }
        }
        match trap(|| block_on(rk.get_rx_packet_status())) {
            Err(t) => viol(col, &format!("C17|pktstatus|panic|{}/after-hop", name), "get_rx_packet_status panicked", || json!({"chip": name, "raw": raw, "panic": t.msg, "loc": t.loc})),
            Ok(Err(_)) => col.event("pktstatus_err_after_hop"),
            Ok(Ok(ps)) => {
                let cands = rssi127_candidates(offset, raw, 20);
                let got = 60 * ps.rssi as i32;
                if !cands.iter().any(|c| (got - c).abs() <= 60) {
                    viol(col, &format!("C17|pktstatus|rssi-off-after-hop|{}|{}->{}|{}", name, band(from), band(to), hop), "after moving the receiver to another channel the packet RSSI is converted with the offset of a band the chip is no longer on", || {
                        json!({"chip": name, "configured_on": from, "moved_to": to, "hop": hop, "rssi_raw": raw, "reported_rssi": ps.rssi, "accepted_dbm": cands.iter().map(|c| *c as f64 / 60.0).collect::<Vec<_>>()})
                    });
                }
            }
        }
    }
}

pub const HOP_CASES: u64 = 2 * 4 * 4 * 2;

pub fn run_after_hop(idx: u64, _rng: &mut Prng, col: &mut Collector) {
    let chip = idx % 2;
    let from = HOP_FREQS[((idx / 2) % 4) as usize];
    let to = HOP_FREQS[((idx / 8) % 4) as usize];
    let full = (idx / 32) % 2 == 1;
    if chip == 0 {
        let (mut rk, bus) = new_sx1276(false);
        after_hop("sx1276", |f| if f > 525_000_000 { -157 } else { -164 }, &mut rk, &bus, from, to, full, col)
    } else {
        let (mut rk, bus) = new_sx1272(false);
        after_hop("sx1272", |_| -139, &mut rk, &bus, from, to, full, col)
    }
}
