#!/usr/bin/env python3
"""Regenerates /verif/MANIFEST.json from the table below (kept in one place so that the
manifest is always valid JSON and always lists every property either as claimed or as
not_applicable)."""
import json
import os
import subprocess

ROOT = os.path.dirname(os.path.dirname(os.path.abspath(__file__)))

ALL = ["C%02d" % i for i in range(1, 21)]

# id -> (level, technique, level text, level note, design ref)
CLAIMED = {
    "C01": ("exploration", "differential runtime monitor: frame builders vs independent reference codec (own AES/CMAC), panic trap, overflow-checked build; Miri + release legs in thorough",
            "Every description generated (full cross of type x flags x FOptsLen x payload kind, every payload length, all DevNonces, all DLSettings x RxDelay) is built by the real code and compared byte-for-byte with an independently written LoRaWAN 1.0.x encoder; forbidden descriptions must be refused. Held on the executions observed; counts in the evidence.",
            "Trusts the reference codec in harness/lrv-core (self-tested against FIPS-197, RFC 4493 and a public LoRaWAN vector at every start).", "6/C01"),
    "C02": ("exploration", "differential runtime monitor: parser/MIC/decrypt vs independent reference decoder on valid, bit-flipped, mutated, resized and random byte strings; buffer-before/after comparison",
            "Every byte string generated is fed to every receive-path entry point; classification, fields, MIC verdicts under several counters, plaintext, buffer preservation on error and decrypt involution are compared with the reference.",
            "Trusts the reference codec; Error variants are not compared, only accept/reject and values.", "6/C02"),
    "C03": ("exploration", "runtime monitor: panic trap + iterator-contract oracle (own command length table) over exhaustive short inputs and mutated valid frames/streams; every public accessor called; Miri/ASan legs in thorough",
            "All byte strings of length 0..3 (16.8 M) through all 12 entry points, every CID x every truncation point of all six command sets, every MHDR x length x FOptsLen, mutated valid frames and command streams, random strings up to 255 bytes; nested inputs (FOpts, decrypted payloads) fed back to the iterators.",
            "Command length table transcribed from LoRaWAN 1.0.4 / TS009 / TS005; an Err at an offset where the table finds a whole command counts as a breach.", "6/C03"),
    "C04": ("exploration", "runtime monitor: panic trap + RNG-draw and poll budgets (bounded progress) around every public Device call; 'can still transmit' probe after every history; Miri leg in thorough",
            "One authentic downlink per value of a byte position of every handled MAC command, every DLSettings byte x RxDelay x CFList class in JoinAccepts, every sequence of 3 (thorough: 4) symbols over a 26-symbol event alphabet, random histories of 200-2000 events mixing hostile MAC commands, hostile JoinAccepts, garbage/foreign/replayed/oversized/unknown-CID/truncated frames in RX1/RX2/Class C/rxc_listen, 9 regions x {OTAA, ABP} x 3 front-ends, scripted-counter and seeded RNG.",
            "Application preconditions listed in the evidence (payload size, port 0 empty, set_datarate consistent with the mask); the radio never fails here.", "6/C04"),
    "C05": ("exploration", "runtime monitor: exhaustive hook-level counter arithmetic vs the statement's rule + reference acceptance model over device sessions (reference codec decides every verdict)",
            "Counter reconstruction is compared for all 2^16 wire values per `last` around every boundary class; sessions created at chosen counters receive fresh/replayed/reordered/far-future/forged/oversized frames in RX1, RX2 and Class C gaps on both front-ends and after every transaction the remembered counter, response, delivered payloads and MAC answers are compared with the model.",
            "Trusts the reference codec; size-limit clause only exercised clearly within/beyond the limit; hook verif::next_fcnt_down is a thin wrapper of the private function.", "6/C05"),
    "C06": ("fault_enumeration", "runtime monitor with fault injection at every radio-call position; every frame handed to the radio is decoded by the reference codec and counters checked for strict increase",
            "Base histories over the event alphabet are re-run once per radio call with an injected error at that call (plus sampled double faults and near-2^32 sessions) on nb, async and async+ClassC front-ends; the full counter of every uplink is recovered by MIC verification and must strictly increase until SessionExpired.",
            "Trusts the reference codec; a frame passed to tx counts as handed to the radio even if the call then errors; guarantee ends once expiry was reported.", "6/C06"),
    "C07": ("exploration", "twin-run comparator (2-safety monitor): two devices with identical configuration and RNG stream driven in lock-step, one additionally receiving frames the reference codec classifies as rejected; all radio requests and responses compared to the end of the history",
            "Histories that first create state to lose (pending sticky answers, owed ACK, ADR counter, near-wrap counters), then insert 1-3 rejected frames of 10 kinds (random, every single-bit flip, other session, replay, stale, far future, reflected own uplink, JoinAccept while joined, oversized, truncated) at RX1/RX2/before an authentic frame/Class C gaps, then >= 4 further uplinks including one after an accepted downlink; join attempts with rejected JoinAccept variants; three front-ends, nine regions.",
            "Reference codec decides what counts as rejected; insertion only where twin A's window is silent; oversized frames compared on response and later transactions only.", "6/C07"),
    "C08": ("exploration", "runtime monitor: executable model of the stated clauses applied to the hook snapshot before/after each accepted Class A downlink and to the answers decoded (reference codec) from the following uplinks",
            "Every DataRate x TXPower x ChMaskCntl per region with 12 mask patterns, every DLSettings byte x 5 frequency classes, every DrRange byte x index/frequency classes, random single and multi-command downlinks (LinkADR blocks, answer overflow, up to 3 downlinks in sequence) in FOpts or port 0, RX1 or RX2, three front-ends; sticky answers followed over silent uplinks, a Class C downlink and the next Class A downlink.",
            "Must-reject list restricted to unambiguous cases; snapshot trusted as the device's state (its behavioural consequences are checked by C09/C10); state comparison skipped when trailing answers were dropped.", "6/C08"),
    "C09": ("exploration", "runtime monitor: every TxConfig handed to the radio judged against the hook snapshot taken immediately before the call and independent regional tables; scripted RNG enumerates every start value so each possible channel choice is observed; RNG-draw budget as bounded-progress trap",
            "Channel-plan states reached by histories of LinkADRReq/NewChannelReq/DlChannelReq/CFList/set_datarate/ADR back-off bursts/join bias, five board (power, gain) combinations, three front-ends, nine regions; per state one uplink for each scripted RNG start value 0..127 and 16 from-scratch replays; join attempts incl. biases and re-joins.",
            "Regional tables (MaxEIRP, channel formulae, rate tables) transcribed from RP002; application precondition: set_datarate only to rates the mask leaves a channel for.", "6/C09"),
    "C10": ("exploration", "runtime monitor at the radio boundary: every RX1/RX2/Class C RfConfig and timer request compared with independent regional tables applied to the parameters in force (hook snapshot) and the TxConfig actually used",
            "Grid of region x front-end x uplink DR x RX1DROffset x RxDelay class with RX2 overrides, DlChannel remaps, lead/TX-done times, all 72 fixed-plan channels via the scripted RNG, join attempts with forced join rates, histories with parameter changes in flight, and re-joins after the old session moved RX2 / the RX1 offset (join windows and the new session's RX2 frequency judged against the regional defaults).",
            "Regional tables are transcriptions (set-valued where editions differ); parameters in force come from the verif-hooks snapshot.", "6/C10"),
    "C11": ("exploration", "runtime monitor: JoinRequest/JoinAccept judged by the reference codec and regional tables; state read through public API + snapshot; first uplink decoded under the derived keys",
            "Every DLSettings byte x region x front-end, RxDelay 0..255, CFList type 0/1/RFU with in-band/zero/out-of-band/random contents, delivery in RX1/RX2/never/after corrupted or wrong-key copies/after Class C noise, failed attempts first, re-join from joined.",
            "Trusts reference codec and regional tables; optional data rates and frequencies between the inner and the widest band are accepted either way.", "6/C11"),
    "C12": ("exploration", "runtime monitor: step-by-step executable reference model of header bits and ADR back-off over long histories; uplinks decoded by the reference codec",
            "Histories of 100-600 uplinks per region/front-end with downlinks placed around n=64/96/128, confirmed/rejected/Class C downlinks, ADR toggles and rate overrides; DevAddr, MType, ACK, ADR, ADRACKReq and data rate compared at every uplink.",
            "n-dependent comparisons suspended between an ADR toggle and the next accepted downlink; two model states while the statement leaves n open by one (Class C downlink before the uplink's own windows).", "6/C12"),
    "C13": ("exploration", "differential runtime monitor: lora-phy RadioKind implementations vs Semtech's C reference driver (SWL2001 via smtc-modem-cores FFI) on identical recording SPI models; valgrind memcheck leg on the FFI binary",
            "For every shared operation and legal parameter value the SX126x wire transcripts (trailing NOPs trimmed) and the SX127x chip-visible outcome (final register file from a random prior, FIFO, IRQ clears) are compared; documented errata/structural divergences are mirrored on the reference side exactly as the drivers' comments/tests state.",
            "Oracle = vendor C driver; mirrors and uncompared registers listed in evidence assumptions; values the reference cannot express are counted, not compared.", "6/C13"),
    "C14": ("fault_enumeration", "runtime monitor with behavioural SPI-level chip models (SX126x, SX127x, own opcode/register constants) checking the four stated clauses where the bad state becomes observable; fault injection at every bus/busy/irq position; droppable futures dropped after every poll count; hook accessors for the driver's mode",
            "All API sequences up to depth 4 (thorough: 5) over 17 symbols x chip outcomes {done, timeout, CRC/header error, spurious IRQ} x 4 chips, one run per SPI/BUSY/IRQ fault position (depth 2, thorough 3), wait_for_irq dropped after 0..15 polls with 7 continuations, Class A/C call orders through LorawanRadio with faults and drops; a panic out of any call is a violation.",
            "Chip models written from the data sheets (what is lost on cold sleep/reset, what wakes the chip); double failures and continuous-RX errors exempt as the driver documents; a cold sleep carried out by the driver counts as a loss of configuration on SX127x too (statement, clause b) although the chip keeps its registers; get_rssi/process_irq_event on a sleeping chip are observations only.", "6/C14"),
    "C15": ("exploration", "exhaustive differential runtime monitor: calculator and every driver's LDRO decision vs exact-rational 16.38 ms rule, plus the bit actually written on SPI decoded by an independent chip decoder",
            "All 8 SF x 10 BW cells x 6 chip variants x coding rates x two frequency bands, exhaustive in both tiers.",
            "One cell (SF8/15.6 kHz) is set-valued for the reference but must be identical across implementations; datasheet register/command layout for decoding the written bit.", "6/C15"),
    "C16": ("exploration", "exhaustive differential runtime monitor: time_on_air_us vs the Semtech formula in i128 for all 42,106,880 inputs; overflow-checked build; monotonicity",
            "Complete enumeration in both tiers (8 SF x 10 BW x 4 CR x 2 header modes x 256 lengths x 257 preamble options).",
            "Formula transcription (CRC on, DE = crate's ldro, t_sym truncated to the microsecond as documented).", "6/C16"),
    "C17": ("exploration", "runtime monitor: SPI writes of the real drivers decoded with datasheet formulas (independent decoder) and compared with the request; exhaustive raw status sweeps",
            "Every 1 Hz of the LoRaWAN bands + stride over 137-1020 MHz (thorough: every 1 Hz), every power -128..127 and i32 extremes per PA path/variant/band, all 65536 symbol counts, adapter margins 0..1000 ms per (SF,BW), all 2^24 SX126x status triples and 2^16 SX127x pairs.",
            "Datasheet formulas; set-valued where datasheet gives two numbers (listed in evidence assumptions); LR11xx power only clamping/monotonic clauses.", "6/C17"),
    "C18": ("exploration", "exhaustive runtime monitor over the chip models: caller buffer with guard zones and canaries, returned length/bytes compared with the model's buffer at the reported position; panic trap; Miri and ASan legs in thorough",
            "4 chips x {get_rx_result, LoRa::rx, LorawanRadio rx_single/rx_continuous} x buffer sizes {0,1,12,64,255,256} x every reported length 0..255 x every start offset 0..255, explicit/implicit header, hostile status bytes and packet-status bytes; exhaustive in both tiers (about 10 M cases).",
            "Chip buffer model (256 bytes, wrap-around) from the data sheets; the full Device is not in the loop (RadioBuffer is crate-private), the adapter is observed at the PhyRxTx boundary.", "6/C18"),
    "C19": ("exploration", "runtime monitor: independent per-field description (owned bits, admissible range, truncation rule, unit mapping) judges every set/build/parse round trip; text-form round trips; panic trap; Miri leg on the unsafe text code in thorough",
            "Exhaustive values for every field up to 16 bits (three scenarios: fresh, other fields pre-set, override), boundaries + random for wider ones, all 2^16 DevNonces, 10^5 values for each of 18 identifier/key types, variable-length creators, 300k command sequences through build_mac_commands.",
            "Field descriptions transcribed from LoRaWAN 1.0.4 / TS009 / TS005; set-valued where the statement allows refusal or truncation.", "6/C19"),
    "C20": ("fault_enumeration", "crash-point enumeration with twin-run comparator: snapshot/restore (serde_json; also a positional postcard/bincode-like view of the document and a CBOR round trip) after every step of every history, restored device run in lock-step with the original; structural mutation of documents with a panic-trapped operation battery",
            "Histories of 4-12 transactions from chosen counters/ADR counters reaching empty/partial/full (15-byte) pending answers, owed ACK, fcnt_down None, 16-bit boundaries; after every step the document is round-tripped and installed in a second device (nb: fresh and in-place, async: new_with_session) that must emit byte-identical uplinks, identical downlink verdicts/payloads and identical documents for the rest of the history and a tail of replayed/stale/fresh downlinks; every snapshot is also read back from a positional (field-sequence) view and from CBOR and compared field by field (Debug form); 12 classes of malformed documents.",
            "Unpersisted MAC configuration is restored by the application (data rate) or left at defaults; histories avoid LinkADRReq.", "6/C20"),
}

NOT_YET = "monitor not built yet in this revision (planned in DESIGN.md section 6)"


def main():
    commits = []
    try:
        out = subprocess.run(["git", "-C", "/repo", "log", "--format=%H %s"], stdout=subprocess.PIPE, text=True).stdout
        for line in out.splitlines():
            h, _, subj = line.partition(" ")
            if subj.startswith("verif-hooks:") or subj.startswith("hooks:"):
                commits.append(h)
    except Exception:
        pass
    checks = []
    for pid in ALL:
        if pid not in CLAIMED:
            continue
        level, tech, text, note, ref = CLAIMED[pid]
        checks.append({
            "property_id": pid,
            "quick_cmd": f"./check {pid} --tier quick",
            "thorough_cmd": f"./check {pid} --tier thorough",
            "evidence_file": f"/verif/evidence/{pid}.json",
            "replay_cmd_template": f"./check {pid} --replay {{path}}",
            "engine": "lrv",
            "level_claimed": {"category": level, "text": text, "design_ref": "DESIGN.md section " + ref},
            "level_note": note,
            "technique": tech,
        })
    m = {
        "version": 1,
        "setup_cmd": "./setup.sh",
        "hooks": {
            "guard": "cargo feature `verif-hooks` (lorawan-device, lora-phy), off by default",
            "enable": "the harness crates depend on /repo/* by path with features = [\"verif-hooks\"]; every ./check rebuilds them with cargo (offline)",
            "baseline_off_cmd": "cd /repo && cargo test --workspace --no-fail-fast --offline",
            "source_commits": commits,
            "add_only": True,
        },
        "engines": [
            {"name": "lrv", "path": "/verif/harness", "serves_properties": sorted(CLAIMED),
             "kind_free_text": "Rust monitor binaries (lrv-codec, lrv-mac, lrv-phy, lrv-phyref) driving the real crates through their public API with independent oracles (reference codec, regional tables, chip models), panic trap, step budgets; python driver ./check adds Miri/ASan/valgrind/release legs, signature de-duplication and known-finding matching"},
        ],
        "checks": checks,
        "notes": "Runtime monitoring and sanitizers only. Exit 0 held / 1 unlisted violation / 2 inconclusive (never a VIOLATION line). VERIF_SEED seeds all sampled parts.",
        "not_applicable": [{"property_id": p, "reason": NOT_YET} for p in ALL if p not in CLAIMED],
    }
    with open(os.path.join(ROOT, "MANIFEST.json"), "w") as f:
        json.dump(m, f, indent=1)
        f.write("\n")
    print("MANIFEST.json:", len(checks), "checks,", len(m["not_applicable"]), "not applicable")


if __name__ == "__main__":
    main()
