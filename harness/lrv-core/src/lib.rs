//! lrv-core: independent oracles and plumbing for the lora-rs runtime monitors.
//! Nothing in this crate depends on the code under test.

pub mod aes;
pub mod prng;
pub mod refcodec;
pub mod runner;

pub use aes::{hex, unhex};
pub use prng::{fnv64, Prng};
pub use runner::{gen, trap, Collector, Gen, Monitor, Tier, Trapped};
pub use serde_json::{json, Value};
