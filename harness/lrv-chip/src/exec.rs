//! Single-threaded poll-loop executor: manual `Future::poll` with a no-op waker.
//!
//! * `run` polls a future to completion and counts the polls; more than `budget` polls of one
//!   future is a bounded-progress failure (`Err(polls)`), the future is dropped.
//! * `run_cut` polls at most `k` times and then drops the future (cancellation at an await
//!   point). Every model future (SPI transaction, BUSY wait, IRQ wait) returns `Pending` at
//!   least once per bus transaction, so "k polls" enumerates the await points.

use std::future::Future;
use std::pin::pin;
use std::task::{Context, Poll, Waker};

/// Polls per future before the executor gives up (DESIGN 4.6).
pub const POLL_BUDGET: u64 = 10_000;

/// Runs `fut` to completion. `Ok((value, polls))` or `Err(polls)` when the budget is exhausted.
pub fn run<F: Future>(fut: F, budget: u64) -> Result<(F::Output, u64), u64> {
    let mut fut = pin!(fut);
    let mut cx = Context::from_waker(Waker::noop());
    let mut polls = 0u64;
    loop {
        polls += 1;
        if let Poll::Ready(v) = fut.as_mut().poll(&mut cx) {
            return Ok((v, polls));
        }
        if polls >= budget {
            return Err(polls);
        }
    }
}

/// Polls `fut` at most `k` times; `Some(value)` if it completed within them, else the future
/// is dropped where it stands and `None` is returned.
pub fn run_cut<F: Future>(fut: F, k: u64) -> Option<F::Output> {
    let mut fut = pin!(fut);
    let mut cx = Context::from_waker(Waker::noop());
    for _ in 0..k {
        if let Poll::Ready(v) = fut.as_mut().poll(&mut cx) {
            return Some(v);
        }
    }
    None
}

/// A future that is `Pending` exactly once.
pub struct YieldOnce(bool);

pub fn yield_once() -> YieldOnce {
    YieldOnce(false)
}

impl Future for YieldOnce {
    type Output = ();
    fn poll(mut self: std::pin::Pin<&mut Self>, cx: &mut Context<'_>) -> Poll<()> {
        if self.0 {
            Poll::Ready(())
        } else {
            self.0 = true;
            cx.waker().wake_by_ref();
            Poll::Pending
        }
    }
}
