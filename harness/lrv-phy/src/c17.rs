use lrv_core::*;
pub struct C17;
impl Monitor for C17 {
    fn prop(&self) -> &'static str { "C17" }
    fn gens(&self, _t: Tier) -> Vec<Gen> { vec![] }
    fn run_case(&self, _g: &str, _i: u64, _r: &mut Prng, _c: &mut Collector) {}
    fn rule(&self) -> String { String::new() }
}
