#!/bin/bash
# Runs every claimed check in the given tier (default quick) and prints one line per check.
tier=${1:-quick}
cd "$(dirname "$0")/.."
for p in $(python3 -c "import json;print(' '.join(c['property_id'] for c in json.load(open('MANIFEST.json'))['checks']))"); do
  start=$(date +%s)
  out=$(./check $p --tier $tier 2>&1); rc=$?
  echo "$p rc=$rc $(( $(date +%s) - start ))s :: $(echo "$out" | grep -E "^C[0-9]+ |INCONCLUSIVE|VIOLATION|KNOWN-FINDING" | head -4 | cut -c1-220 | tr '\n' '|')"
done
