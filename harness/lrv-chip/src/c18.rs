//! C18 — reading a received packet never overruns the caller's buffer.
//!
//! The emulated chip reports every (length, start offset) pair, hostile status bytes and packet
//! status bytes; the packet is fetched through `LoRa::get_rx_result`, through `LoRa::rx`
//! (start + complete) and through the LoRaWAN adapter (`LorawanRadio::rx_single` /
//! `rx_continuous`) into caller buffers embedded in canary-filled arenas.
//!
//! Oracle (exactly the statement): either `Ok(len)` with `len` = the reported length (implicit
//! header: the configured length) `<= buf.len()`, `buf[..len]` = the chip's data buffer read
//! circularly from the reported start, every other byte of the caller's buffer (and the guard
//! zones around it) untouched; or `Err`. Never a trapped panic.

use crate::bus::*;
use crate::exec;
use crate::rig::*;
use lora_phy::mod_params::{Bandwidth, CodingRate, RadioError, RxMode, SpreadingFactor};
use lora_phy::mod_traits::RadioKind;
use lorawan_device::async_device::radio::{PhyRxTx, RfConfig, RxConfig, RxMode as WanRxMode, RxStatus};
use lora_phy::lorawan_radio::LorawanRadio;
use lora_modulation::BaseBandModulationParams;
use lrv_core::*;

pub struct C18;

const BUFS: [usize; 6] = [0, 1, 12, 64, 255, 256];
const GUARD: usize = 16;
/// hostile status bytes for the SX126x status-returning reads: the three "error" command
/// statuses (time-out, processing error, execution failure) in two chip-mode contexts, plus
/// all-zero / all-one / reserved patterns
const STATUSES: [u8; 10] = [0x26, 0x28, 0x2A, 0x56, 0x58, 0x5A, 0x00, 0xFF, 0x2E, 0x0E];
const PKT_STATUS_EDGE: [[u8; 3]; 8] = [[0, 0, 0], [255, 255, 255], [1, 127, 1], [200, 128, 200], [37, 126, 40], [90, 125, 90], [90, 129, 7], [128, 252, 128]];
const NCASE: u64 = 4 * 2 * 6 * 256;
const NCASE_ADAPTER: u64 = 4 * 2 * 6 * 256;

fn canary(i: usize) -> u8 {
    ((i * 131 + 0x5A) & 0xFF) as u8
}

fn pattern(nonce: u8) -> impl Fn(u8) -> u8 {
    move |i: u8| i.wrapping_mul(167).wrapping_add(13).wrapping_add(nonce)
}

#[derive(Clone, Copy, PartialEq, Eq, Debug)]
enum Path {
    Direct,
    Rx,
    AdapterSingle,
    AdapterContinuous,
}

impl Path {
    fn name(self) -> &'static str {
        match self {
            Path::Direct => "get_rx_result",
            Path::Rx => "rx",
            Path::AdapterSingle => "adapter.rx_single",
            Path::AdapterContinuous => "adapter.rx_continuous",
        }
    }
}

struct Case {
    path: Path,
    implicit: bool,
    bufsize: usize,
    len: u8,
    offsets: u32,
    idx: u64,
}

impl Monitor for C18 {
    fn prop(&self) -> &'static str {
        "C18"
    }
    fn gens(&self, tier: Tier) -> Vec<Gen> {
        // every case sweeps all 256 start offsets (4 under the sanitizers)
        vec![
            gen("direct", tier.pick(NCASE, NCASE, 96)),
            gen("rx", tier.pick(NCASE, NCASE, 96)),
            gen("adapter", tier.pick(NCASE_ADAPTER, NCASE_ADAPTER, 96)),
            gen("mac-handoff", tier.pick(4 * 243, 4 * 243, 8)),
        ]
    }
    fn rule(&self) -> String {
        "direct: chip {sx1261,sx1262,sx1276,sx1272} x header {explicit,implicit} x caller buffer {0,1,12,64,255,256} x length 0..255, each case sweeping all 256 start offsets, fetched with LoRa::get_rx_result after prepare_for_rx; rx: same space through LoRa::rx (start_rx + IRQ + complete_rx); adapter: chip x {rx_single,rx_continuous} x buffer x length x 256 offsets through LorawanRadio (always explicit header). In implicit-header cases 'length' is the configured length and the chip-reported length is hostile (varies with the offset). Per case additionally: 10 hostile SX126x status bytes x 3 offsets, and packet-status bytes from 8 boundary triples + random. Class = (chip, path, header mode, buffer size, length class vs buffer, offset class, status class, verdict).".into()
    }
    fn assumptions(&self) -> Vec<String> {
        vec![
            "in explicit-header mode the only admissible Ok length is the length the chip reports; in implicit-header mode it is the length configured through prepare_for_rx (SX126x: mirrored by the chip in register 0x0702 as the data sheet describes, SX127x: the caller's packet parameters)".into(),
            "on an Err result the contents of the caller's own buffer are unconstrained (the statement only constrains the Ok case); the guard zones outside the caller's slice must stay intact in every case".into(),
            "SX126x data buffer and SX127x FIFO are circular: a read that passes address 255 continues at 0 (data sheet SX1261/2 ch. 7.1, SX1276 ch. 4.1.2.3)".into(),
            "a hostile SX126x status byte may be answered by Err(OpError) or ignored; both are accepted as long as an Ok result carries the right bytes".into(),
            "the adapter is observed at the PhyRxTx boundary (what rx_single / rx_continuous return and leave in the MAC's buffer); lorawan-device's RadioBuffer is crate-private and is exercised only with the buffer sizes {64,256} a Device would pass, not through a full Device".into(),
            "build profile has overflow-checks on: an arithmetic overflow while converting packet-status bytes is a panic and therefore counted".into(),
        ]
    }
    fn required_events(&self, tier: Tier) -> Vec<&'static str> {
        if tier == Tier::Sanitizer {
            vec!["ok", "err_oversize"]
        } else {
            vec!["ok", "ok_wrap", "ok_zero_len", "ok_exact_fit", "err_oversize", "err_oversize_by_one", "hostile_status", "implicit_ok", "adapter_ok", "mac_handoff_ok", "mac_handoff_exact_fit", "mac_handoff_nb", "mac_handoff_nb_after_ignored_packet", "refetch_after_lost_transaction"]
        }
    }
    fn exhaustive(&self, tier: Tier) -> bool {
        tier != Tier::Sanitizer
    }

    fn run_case(&self, g: &str, idx: u64, rng: &mut Prng, col: &mut Collector) {
        if g == "mac-handoff" {
            mac_handoff_case(idx, rng, col);
            return;
        }
        let offsets = if col.tier == Tier::Sanitizer { 4 } else { 256 };
        // under the sanitizer tier spread the few cases over the whole space
        let i = if col.tier == Tier::Sanitizer { idx.wrapping_mul(127) % NCASE } else { idx };
        let len = (i % 256) as u8;
        let bufsize = BUFS[((i / 256) % 6) as usize];
        let two = ((i / 1536) % 2) as usize;
        let var = VARS[((i / 3072) % 4) as usize];
        let (path, implicit) = match g {
            "direct" => (Path::Direct, two == 1),
            "rx" => (Path::Rx, two == 1),
            "adapter" => (if two == 0 { Path::AdapterSingle } else { Path::AdapterContinuous }, false),
            _ => unreachable!(),
        };
        let case = Case { path, implicit, bufsize, len, offsets, idx };
        with_var(var, RunCase { case, rng, col });
    }
}

struct RunCase<'a> {
    case: Case,
    rng: &'a mut Prng,
    col: &'a mut Collector,
}

/// One fetch, as the oracle sees it.
struct Shot {
    expected_len: u8,
    reported_len: u8,
    start: u8,
    status: Option<u8>,
    pkt_status: [u8; 3],
    nonce: u8,
}

impl<'a> Visitor for RunCase<'a> {
    type Out = ();
    fn visit<RK: RadioKind, C: Probe>(self, var: Var, rk: RK, bus: Bus<C>) {
        let RunCase { case, rng, col } = self;
        let mut lora = match new_lora(rk, &bus) {
            Ok(l) => l,
            Err(e) => {
                harness_problem(col, &e);
                return;
            }
        };
        let freq = 868_100_000;
        let (mdl, pkt) = match (|| {
            let mdl = lora.create_modulation_params(SpreadingFactor::_7, Bandwidth::_125KHz, CodingRate::_4_5, freq)?;
            let pkt = lora.create_rx_packet_params(8, case.implicit, if case.implicit { case.len } else { 255 }, true, true, &mdl)?;
            Ok::<_, RadioError>((mdl, pkt))
        })() {
            Ok(x) => x,
            Err(e) => {
                harness_problem(col, &format!("parameter creation failed: {:?}", e));
                return;
            }
        };
        let continuous = case.path == Path::AdapterContinuous || (case.path != Path::AdapterSingle && case.len % 2 == 1);

        // ---- bring the driver into receive mode ------------------------------------------
        let mut adapter: Option<LorawanRadio<RK, Delay<C>, 22>> = None;
        match case.path {
            Path::Direct | Path::Rx => {
                let mode = if continuous { RxMode::Continuous } else { RxMode::Single(12) };
                match exec::run(lora.prepare_for_rx(mode, &mdl, &pkt), exec::POLL_BUDGET) {
                    Ok((Ok(()), _)) => {}
                    other => {
                        harness_problem(col, &format!("prepare_for_rx failed: {:?}", other));
                        return;
                    }
                }
            }
            Path::AdapterSingle | Path::AdapterContinuous => {
                let mut a: LorawanRadio<RK, Delay<C>, 22> = lora.into();
                let cfg = RxConfig {
                    rf: RfConfig { frequency: freq, bb: BaseBandModulationParams::new(SpreadingFactor::_7, Bandwidth::_125KHz, CodingRate::_4_5), max_payload_len: 255 },
                    mode: if continuous { WanRxMode::Continuous } else { WanRxMode::Single { ms: 20 } },
                };
                match exec::run(a.setup_rx(cfg), exec::POLL_BUDGET) {
                    Ok((Ok(()), _)) => {}
                    _ => {
                        harness_problem(col, "adapter setup_rx failed");
                        return;
                    }
                }
                adapter = Some(a);
                // `lora` has moved into the adapter; build a placeholder-free flow below
                return run_shots(var, &case, None::<&mut lora_phy::LoRa<RK, Delay<C>>>, adapter.as_mut(), &pkt, &bus, rng, col);
            }
        }
        run_shots(var, &case, Some(&mut lora), adapter.as_mut(), &pkt, &bus, rng, col);
    }
}

fn harness_problem(col: &mut Collector, what: &str) {
    col.event("harness_setup_failed");
    let n = col.notes.entry("harness_setup_failed".into()).or_insert(json!([]));
    if let Some(a) = n.as_array_mut() {
        if a.len() < 5 {
            a.push(json!(what));
        }
    }
}

#[allow(clippy::too_many_arguments)]
fn run_shots<RK: RadioKind, C: Probe>(
    var: Var,
    case: &Case,
    mut lora: Option<&mut lora_phy::LoRa<RK, Delay<C>>>,
    mut adapter: Option<&mut LorawanRadio<RK, Delay<C>, 22>>,
    pkt: &lora_phy::mod_params::PacketParams,
    bus: &Bus<C>,
    rng: &mut Prng,
    col: &mut Collector,
) {
    // the shots of this case: all start offsets with a sane status, then hostile status bytes
    let mut shots: Vec<Shot> = Vec::with_capacity(case.offsets as usize + 32);
    for k in 0..case.offsets {
        let start = if case.offsets == 256 { k as u8 } else { [0u8, 1, 255u8.wrapping_sub(case.len).wrapping_add(2), 255][k as usize % 4] };
        // (explicit header: every third packet of the series is shorter than the one before it - what an
        // earlier, longer packet left in the caller's buffer is the caller's, not the driver's)
        let len = if !case.implicit && k % 3 == 2 { case.len / 2 } else { case.len };
        let reported = if case.implicit { (start as u32 * 37 + case.len as u32 * 11 + 5) as u8 } else { len };
        let ps = if k % 4 == 0 { PKT_STATUS_EDGE[((k / 4) as usize + case.len as usize) % PKT_STATUS_EDGE.len()] } else { rng.arr::<3>() };
        shots.push(Shot { expected_len: len, reported_len: reported, start, status: None, pkt_status: ps, nonce: rng.u8() });
    }
    if var.is_126x() {
        // under the sanitizers: two status bytes, one shot each
        let (ns, nt) = if case.offsets == 256 { (STATUSES.len(), 3u32) } else { (2, 1u32) };
        for (j, s) in STATUSES.iter().enumerate().take(ns) {
            for t in 0..nt {
                let start = match t {
                    0 => 0,
                    1 => 255u8.wrapping_sub(case.len / 2),
                    _ => rng.u8(),
                };
                let reported = if case.implicit { rng.u8() } else { case.len };
                let _ = j;
                shots.push(Shot { expected_len: case.len, reported_len: reported, start, status: Some(*s), pkt_status: rng.arr::<3>(), nonce: rng.u8() });
            }
        }
    }

    let mut arena = vec![0u8; GUARD + case.bufsize + GUARD];
    for shot in shots.iter() {
        // ---- program the chip -------------------------------------------------------------
        {
            let mut sh = bus.borrow_mut();
            sh.chip.clear_transcript();
            sh.chip.fill_data(&pattern(shot.nonce));
            sh.chip.set_report(shot.reported_len, shot.start);
            sh.chip.set_status(shot.status);
            sh.chip.set_pkt_status(shot.pkt_status);
            sh.chip.set_next_packet(None);
            if case.path != Path::Direct {
                // RxDone arrives with the start command, just after it, or while the driver waits
                // on the IRQ line. (Latencies that put RxDone between the driver's "read IRQ
                // status" and "clear all IRQs" make the driver lose the interrupt and wait for
                // ever; that is not a C18 matter and is avoided here.)
                sh.chip.push_outcome(vec![ev(EvKind::Done, [0, 1, 10][shot.nonce as usize % 3])]);
            }
        }
        for (i, b) in arena.iter_mut().enumerate() {
            *b = canary(i);
        }
        // ---- run the code under test ------------------------------------------------------
        let buf = &mut arena[GUARD..GUARD + case.bufsize];
        // result: Ok(Some(len)) / Ok(None) = Err from the driver (with its text) / Err = budget
        let r: Result<Result<(Result<usize, String>, u64), u64>, Trapped> = match case.path {
            Path::Direct => {
                let l = lora.as_mut().unwrap();
                trap(|| exec::run(l.get_rx_result(pkt, buf), exec::POLL_BUDGET).map(|(r, p)| (r.map(|x| x.0 as usize).map_err(|e| format!("{:?}", e)), p)))
            }
            Path::Rx => {
                let l = lora.as_mut().unwrap();
                trap(|| exec::run(l.rx(pkt, buf), exec::POLL_BUDGET).map(|(r, p)| (r.map(|x| x.0 as usize).map_err(|e| format!("{:?}", e)), p)))
            }
            Path::AdapterSingle => {
                let a = adapter.as_mut().unwrap();
                trap(|| {
                    exec::run(a.rx_single(buf), exec::POLL_BUDGET).map(|(r, p)| {
                        (
                            match r {
                                Ok(RxStatus::Rx(n, _)) => Ok(n),
                                Ok(RxStatus::RxTimeout) => Err("RxTimeout".to_string()),
                                Err(e) => Err(format!("{:?}", e)),
                            },
                            p,
                        )
                    })
                })
            }
            Path::AdapterContinuous => {
                let a = adapter.as_mut().unwrap();
                trap(|| exec::run(a.rx_continuous(buf), exec::POLL_BUDGET).map(|(r, p)| (r.map(|x| x.0).map_err(|e| format!("{:?}", e)), p)))
            }
        };
        judge(var, case, shot, &r, &arena, bus, col);
        if matches!(r, Ok(Err(_))) {
            // a call that does not return leaves the driver in an unknown state: stop this case
            break;
        }
        // ---- the same packet fetched again after a fetch that a bus fault cut short ---------
        // (helper-level API only: get_rx_result may be called again for the same packet; whatever
        // the lost transaction left behind on the chip, the second fetch is held to the statement)
        let n_txn = bus.borrow().chip.transcript().len() as u32;
        if case.path == Path::Direct && shot.status.is_none() && matches!(r, Ok(Ok((Ok(_), _)))) && (shot.start == 0 || shot.nonce % 16 == 0) && n_txn > 0 && n_txn < 40 {
            for j in 1..=n_txn {
                {
                    let mut sh = bus.borrow_mut();
                    sh.chip.clear_transcript();
                    sh.arm(Some(crate::bus::Fault { kind: crate::bus::FaultKind::Spi, at: j }));
                    // every other time the transfer that fails has reached the chip (the error arose on the
                    // way back): a repeated read then starts where the first one left the chip's pointer
                    sh.fault_executes = (j as u64 + shot.nonce as u64) % 2 == 1;
                }
                for (i, b) in arena.iter_mut().enumerate() {
                    *b = canary(i);
                }
                {
                    let buf = &mut arena[GUARD..GUARD + case.bufsize];
                    let l = lora.as_mut().unwrap();
                    let r1: Result<Result<(Result<usize, String>, u64), u64>, Trapped> = trap(|| exec::run(l.get_rx_result(pkt, buf), exec::POLL_BUDGET).map(|(r, p)| (r.map(|x| x.0 as usize).map_err(|e| format!("{:?}", e)), p)));
                    // the fetch that lost a transaction: an error, or (when the lost transaction did
                    // not matter) the packet - never 'Ok' with other bytes
                    col.event("fetch_with_lost_transaction");
                    judge(var, case, shot, &r1, &arena, bus, col);
                    if matches!(r1, Ok(Err(_))) {
                        return;
                    }
                }
                {
                    let mut sh = bus.borrow_mut();
                    sh.arm(None);
                    sh.fault_executes = false;
                    sh.chip.clear_transcript();
                }
                for (i, b) in arena.iter_mut().enumerate() {
                    *b = canary(i);
                }
                let r2: Result<Result<(Result<usize, String>, u64), u64>, Trapped> = {
                    let buf = &mut arena[GUARD..GUARD + case.bufsize];
                    let l = lora.as_mut().unwrap();
                    trap(|| exec::run(l.get_rx_result(pkt, buf), exec::POLL_BUDGET).map(|(r, p)| (r.map(|x| x.0 as usize).map_err(|e| format!("{:?}", e)), p)))
                };
                col.event("refetch_after_lost_transaction");
                judge(var, case, shot, &r2, &arena, bus, col);
                if matches!(r2, Ok(Err(_))) {
                    return;
                }
            }
        }
    }
}

fn len_class(len: usize, bufsize: usize) -> &'static str {
    if len == 0 {
        "0"
    } else if len + 1 == bufsize {
        "buf-1"
    } else if len == bufsize {
        "=buf"
    } else if len == bufsize + 1 {
        "buf+1"
    } else if len > bufsize {
        ">buf"
    } else if len == 255 {
        "255"
    } else {
        "<buf"
    }
}

fn off_class(start: u8, len: usize) -> &'static str {
    if start as usize + len > 256 {
        "wrap"
    } else if start == 0 {
        "0"
    } else if start as usize + len == 256 {
        "to-end"
    } else if start == 255 {
        "255"
    } else {
        "mid"
    }
}

fn judge<C: Probe>(var: Var, case: &Case, shot: &Shot, r: &Result<Result<(Result<usize, String>, u64), u64>, Trapped>, arena: &[u8], bus: &Bus<C>, col: &mut Collector) {
    let l = shot.expected_len as usize;
    let hdr = if case.implicit { "implicit" } else { "explicit" };
    let lc = len_class(l, case.bufsize);
    let oc = off_class(shot.start, l);
    let sc = match shot.status {
        None => "status-ok",
        Some(s) if matches!((s >> 1) & 7, 3 | 4 | 5) => "status-error",
        Some(_) => "status-odd",
    };
    let verdict = match r {
        Err(_) => "panic",
        Ok(Err(_)) => "no-return",
        Ok(Ok((Ok(_), _))) => "ok",
        Ok(Ok((Err(_), _))) => "err",
    };
    col.eval(&format!("{}|{}|{}|{}|{}|{}|{}|{}", var.name(), case.path.name(), hdr, case.bufsize, lc, oc, sc, verdict));
    if shot.status.is_some() {
        col.event("hostile_status");
    }
    let detail = |extra: Value| {
        let sh = bus.borrow();
        json!({
            "chip": var.name(), "path": case.path.name(), "header": hdr, "caller_buffer": case.bufsize,
            "expected_len": l, "chip_reported_len": shot.reported_len, "chip_reported_start": shot.start,
            "forced_status": shot.status, "pkt_status_bytes": shot.pkt_status, "case_idx": case.idx,
            "observed": extra, "transcript": transcript_json(sh.chip.transcript(), 0),
        })
    };
    if col.want_sample() {
        let d = detail(json!(verdict));
        col.sample(d);
    }
    // signatures distinguish the chip family and "through LoRa" vs "through the adapter" only
    let base = format!("C18|{}|{}", var.family(), if matches!(case.path, Path::Direct | Path::Rx) { "lora" } else { "adapter" });
    // guard zones: must be intact whatever happened
    let guards_ok = (0..GUARD).all(|i| arena[i] == canary(i)) && (GUARD + case.bufsize..arena.len()).all(|i| arena[i] == canary(i));
    if !guards_ok {
        col.violation(&format!("{}|guard-zone-written|{}|len{}", base, hdr, lc), "bytes outside the caller's buffer were modified", detail(json!({"arena": hex(arena)})));
    }
    match r {
        Err(t) => {
            col.event("panic");
            if t.in_harness() {
                // a panic in harness code is not a verdict on the code under test
                col.event("harness_panic");
                let n = col.notes.entry("harness_panics".into()).or_insert(json!([]));
                if let Some(a) = n.as_array_mut() {
                    if a.len() < 5 {
                        a.push(json!({"msg": t.msg, "loc": t.loc}));
                    }
                }
                return;
            }
            // class of the input that makes it panic: oversize length or not; packet-status driven or not
            let cls = if l > case.bufsize { "len>buf" } else { "len<=buf" };
            col.violation(
                &format!("C18|{}|panic|{}|{}|{}", var.family(), t.file(), t.kind(), cls),
                "fetching a received packet panicked",
                detail(json!({"panic": t.msg, "at": t.loc})),
            );
        }
        Ok(Err(polls)) => {
            // not a clause of C18; reported as an event so that the run is visibly incomplete
            col.event("no_return_within_poll_budget");
            let n = col.notes.entry("no_return".into()).or_insert(json!([]));
            if let Some(a) = n.as_array_mut() {
                if a.len() < 3 {
                    a.push(detail(json!({"polls": polls})));
                }
            }
        }
        Ok(Ok((Ok(n), _))) => {
            let n = *n;
            col.event("ok");
            if case.path == Path::AdapterSingle || case.path == Path::AdapterContinuous {
                col.event("adapter_ok");
            }
            if case.implicit {
                col.event("implicit_ok");
            }
            let buf = &arena[GUARD..GUARD + case.bufsize];
            if n > case.bufsize {
                col.violation(&format!("{}|ok-len-exceeds-buffer|{}|len{}", base, hdr, lc), "Ok length larger than the caller's buffer", detail(json!({"returned_len": n})));
                return;
            }
            if n != l {
                let which = if case.implicit && n == shot.reported_len as usize { "chip-reported-instead-of-configured" } else { "other" };
                col.violation(&format!("{}|wrong-length|{}|{}", base, hdr, which), "returned length is not the reported (explicit) / configured (implicit) length", detail(json!({"returned_len": n})));
                return;
            }
            let sh = bus.borrow();
            let mut bad = None;
            for j in 0..n {
                let exp = sh.chip.data(shot.start.wrapping_add(j as u8));
                if buf[j] != exp {
                    bad = Some((j, buf[j], exp));
                    break;
                }
            }
            drop(sh);
            if let Some((j, got, exp)) = bad {
                let wrapped = shot.start as usize + j >= 256;
                col.violation(
                    &format!("{}|wrong-bytes|{}|{}", base, hdr, if wrapped { "after-wrap" } else { "before-wrap" }),
                    "returned bytes are not the chip's buffer content at the reported position",
                    detail(json!({"first_bad_index": j, "got": got, "expected": exp, "buffer": hex(&buf[..n])})),
                );
                return;
            }
            if let Some(j) = (n..case.bufsize).find(|j| buf[*j] != canary(GUARD + *j)) {
                col.violation(&format!("{}|rest-of-buffer-touched|{}", base, hdr), "bytes of the caller's buffer beyond the returned length were modified", detail(json!({"first_touched_index": j, "returned_len": n})));
                return;
            }
            if n == 0 {
                col.event("ok_zero_len");
            }
            if n == case.bufsize && n > 0 {
                col.event("ok_exact_fit");
            }
            if shot.start as usize + n > 256 {
                col.event("ok_wrap");
            }
        }
        Ok(Ok((Err(e), _))) => {
            if l > case.bufsize {
                col.event("err_oversize");
                if l == case.bufsize + 1 {
                    col.event("err_oversize_by_one");
                }
            } else if shot.status.is_some() {
                col.event("err_hostile_status");
            } else if e == "RxTimeout" {
                // not an error: the adapter tells the MAC that nothing was received although the
                // chip signalled a reception whose packet fits the MAC's buffer
                col.violation(
                    &format!("{}|received-packet-reported-as-timeout|{}|len{}", base, hdr, if l < 16 { format!("={}", l) } else { lc.to_string() }),
                    "the adapter reports RxTimeout (no error) for a received packet that fits the MAC's buffer: the MAC is not handed the bytes",
                    detail(json!({"returned": "Ok(RxStatus::RxTimeout)"})),
                );
            } else {
                // allowed by the statement ("or fails with an error") but worth seeing in the evidence
                col.event("err_although_it_fits");
                let n = col.notes.entry("err_although_it_fits".into()).or_insert(json!([]));
                if let Some(a) = n.as_array_mut() {
                    if a.len() < 3 {
                        a.push(detail(json!({"error": e})));
                    }
                }
            }
        }
    }
}


// ---- the hand-off of a received packet into the MAC's buffer ---------------------------------------

mod handoff {
    use lorawan_device::async_device::radio::{PhyRxTx, RxConfig, RxQuality, RxStatus, Timer, TxConfig};

    /// A radio that hands out one scripted packet in the first receive window.
    pub struct OnePacket {
        pub packet: Option<Vec<u8>>,
        pub wrote: usize,
    }
    impl PhyRxTx for OnePacket {
        type PhyError = ();
        const MAX_RADIO_POWER: u8 = 20;
        async fn tx(&mut self, _c: TxConfig, _b: &[u8]) -> Result<u32, ()> {
            Ok(0)
        }
        async fn setup_rx(&mut self, _c: RxConfig) -> Result<(), ()> {
            Ok(())
        }
        async fn rx_continuous(&mut self, _b: &mut [u8]) -> Result<(usize, RxQuality), ()> {
            core::future::pending().await
        }
        async fn rx_single(&mut self, buf: &mut [u8]) -> Result<RxStatus, ()> {
            match self.packet.take() {
                Some(p) => {
                    // (a packet longer than the MAC's buffer is the adapter's business to refuse)
                    let n = p.len().min(buf.len());
                    buf[..n].copy_from_slice(&p[..n]);
                    self.wrote = n;
                    Ok(RxStatus::Rx(n, RxQuality::new(-60, 7)))
                }
                None => Ok(RxStatus::RxTimeout),
            }
        }
    }
    impl lorawan_device::async_device::Timings for OnePacket {
        fn get_rx_window_lead_time_ms(&self) -> u32 {
            0
        }
    }
    /// The state-machine front-end's radio: transmits at once, receives what the driver hands it.
    pub struct NbOne {
        pub rx: Vec<u8>,
    }
    impl lorawan_device::nb_device::radio::PhyRxTx for NbOne {
        type PhyEvent = Vec<u8>;
        type PhyError = ();
        type PhyResponse = ();
        const MAX_RADIO_POWER: u8 = 20;
        fn get_mut_radio(&mut self) -> &mut Self {
            self
        }
        fn get_received_packet(&mut self) -> &mut [u8] {
            &mut self.rx
        }
        fn handle_event(&mut self, event: lorawan_device::nb_device::radio::Event<'_, Self>) -> Result<lorawan_device::nb_device::radio::Response<Self>, ()> {
            use lorawan_device::nb_device::radio::{Event, Response};
            Ok(match event {
                Event::TxRequest(..) => Response::TxDone(0),
                Event::RxRequest(_) => Response::Rxing,
                Event::CancelRx => Response::Idle,
                Event::Phy(p) => {
                    self.rx = p;
                    Response::RxDone(lorawan_device::nb_device::radio::RxQuality::new(-60, 7))
                }
            })
        }
    }
    impl lorawan_device::Timings for NbOne {
        fn get_rx_window_offset_ms(&self) -> i32 {
            0
        }
        fn get_rx_window_duration_ms(&self) -> u32 {
            800
        }
    }
    pub struct Now;
    impl Timer for Now {
        fn reset(&mut self) {}
        async fn at(&mut self, _ms: u64) {}
        async fn delay_ms(&mut self, _ms: u64) {}
    }
    pub struct Count(pub u32);
    impl rand_core::RngCore for Count {
        fn next_u32(&mut self) -> u32 {
            self.0 = self.0.wrapping_add(0x9E37_79B9);
            self.0
        }
        fn next_u64(&mut self) -> u64 {
            self.next_u32() as u64
        }
        fn fill_bytes(&mut self, dest: &mut [u8]) {
            for b in dest {
                *b = self.next_u32() as u8;
            }
        }
        fn try_fill_bytes(&mut self, dest: &mut [u8]) -> Result<(), rand_core::Error> {
            self.fill_bytes(dest);
            Ok(())
        }
    }
}

/// Last clause of the statement seen from the MAC's side: a received packet of every length that
/// fits the MAC's radio buffer (sizes 255 and 256) reaches the MAC whole - an authentic downlink of
/// that length is accepted and its payload delivered byte for byte.
fn mac_handoff_case(idx: u64, rng: &mut Prng, col: &mut Collector) {
    use lorawan_device::async_device::{Device, SendResponse};
    use lorawan_device::region::{Configuration, Region, DR};
    use lrv_core::refcodec::{encode_data, DataDesc};
    let phy_len = 13 + (idx / 2) as usize % 243; // 13..=255
    let small_buf = idx % 2 == 0;
    let nwk: [u8; 16] = rng.arr();
    let app: [u8; 16] = rng.arr();
    let addr = rng.next_u32();
    let payload = rng.bytes(phy_len - 13);
    let d = DataDesc { mtype: 3, dev_addr: addr, adr: false, adr_ack_req: false, ack: false, f_pending: false, fcnt: 1, f_opts: vec![], f_port: Some(10), frm: payload.clone() };
    let frame = encode_data(&d, &nwk, &app).expect("reference frame");
    assert_eq!(frame.len(), phy_len);
    macro_rules! go {
        ($n:literal) => {{
            let radio = handoff::OnePacket { packet: Some(frame.clone()), wrote: 0 };
            let mut dev: Device<handoff::OnePacket, handoff::Now, handoff::Count, $n, 2> = Device::new(Configuration::new(Region::EU868), radio, handoff::Now, handoff::Count(rng.next_u32()));
            let jm = lorawan_device::JoinMode::ABP { nwkskey: lorawan_device::NwkSKey::from(nwk), appskey: lorawan_device::AppSKey::from(app), devaddr: lorawan_device::DevAddr::from_value(addr) };
            let r = trap(|| {
                let _ = exec::run(dev.join(&jm), exec::POLL_BUDGET);
                dev.set_datarate(DR::_5); // RX1 at SF7: 250 octets of MACPayload allowed
                let resp = exec::run(dev.send(&[1], 1, false), exec::POLL_BUDGET).map(|x| x.0);
                let got = dev.take_downlink().map(|d| (d.fport, d.data.to_vec()));
                (resp.map(|r| matches!(r, Ok(SendResponse::DownlinkReceived(1)))), got)
            });
            (r, $n as usize)
        }};
    }
    // every third case goes through the state-machine front-end instead, where several packets may
    // arrive in one window: a packet the MAC ignores (noise, or a well-formed frame for nobody) comes
    // first, then the downlink; the MAC must be handed the second packet alone
    let nb = idx >= 486;
    let stray: Option<Vec<u8>> = if nb {
        match rng.below(3) {
            0 => None,
            1 => {
                let n = rng.range(1, 64) as usize;
                Some(rng.bytes(n))
            }
            _ => {
                let mut v = frame.clone();
                let l = v.len();
                v[l - 1] ^= 0x5a;
                v.truncate(l.min(13 + rng.below(60) as usize).max(13));
                Some(v)
            }
        }
    } else {
        None
    };
    macro_rules! go_nb {
        ($n:literal) => {{
            use lorawan_device::nb_device::{Device as NbDevice, Event, Response};
            let mut dev: NbDevice<handoff::NbOne, handoff::Count, $n, 2> = NbDevice::new(Configuration::new(Region::EU868), handoff::NbOne { rx: vec![] }, handoff::Count(rng.next_u32()));
            let jm = lorawan_device::JoinMode::ABP { nwkskey: lorawan_device::NwkSKey::from(nwk), appskey: lorawan_device::AppSKey::from(app), devaddr: lorawan_device::DevAddr::from_value(addr) };
            let r = trap(|| {
                let _ = dev.join(jm);
                dev.set_datarate(DR::_5);
                let mut log: Vec<String> = vec![];
                let mut accepted = false;
                if let Ok(Response::TimeoutRequest(_)) = dev.send(&[1], 1, false) {
                    if let Ok(Response::TimeoutRequest(_)) = dev.handle_event(Event::TimeoutFired) {
                        if let Some(st) = &stray {
                            let r = dev.handle_event(Event::RadioEvent(lorawan_device::nb_device::radio::Event::Phy(st.clone())));
                            log.push(format!("stray({}) -> {:?}", st.len(), r.as_ref().map_err(|_| "Err")));
                        }
                        let r = dev.handle_event(Event::RadioEvent(lorawan_device::nb_device::radio::Event::Phy(frame.clone())));
                        log.push(format!("downlink({}) -> {:?}", frame.len(), r.as_ref().map_err(|_| "Err")));
                        accepted = matches!(r, Ok(Response::DownlinkReceived(1)));
                    }
                }
                let got = dev.take_downlink().map(|d| (d.fport, d.data.to_vec()));
                let _ = log;
                (Ok::<bool, u64>(accepted), got)
            });
            (r, $n as usize)
        }};
    }
    if nb {
        col.event(if stray.is_some() { "mac_handoff_nb_after_ignored_packet" } else { "mac_handoff_nb" });
    }
    let (r, n) = match (nb, small_buf) {
        (false, true) => go!(255),
        (false, false) => go!(256),
        (true, true) => go_nb!(255),
        (true, false) => go_nb!(256),
    };
    col.eval(&format!("mac-handoff|{}buf{}|len{}", if nb { if stray.is_some() { "nb+stray|" } else { "nb|" } } else { "" }, n, if phy_len == 255 { "255".to_string() } else if phy_len == 254 { "254".into() } else { format!("{}x", phy_len / 32) }));
    let detail = |obs: Value| json!({"front_end": if nb { "nb_device" } else { "async_device" }, "ignored_packet_before": stray.as_ref().map(|s| s.len()), "mac_radio_buffer": n, "phy_payload_len": phy_len, "observed": obs});
    match r {
        Err(t) => col.violation(&format!("C18|mac-handoff|panic|buf{}|{}", n, t.file()), "handing a received packet to the MAC panicked", detail(json!({"panic": t.msg, "loc": t.loc}))),
        Ok((Err(polls), _)) => {
            col.event("no_return_within_poll_budget");
            let _ = polls;
        }
        Ok((Ok(accepted), got)) => {
            if accepted && got.as_ref().map(|g| g.0 == 10 && g.1 == payload).unwrap_or(false) {
                col.event("mac_handoff_ok");
                if phy_len == n.min(255) {
                    col.event("mac_handoff_exact_fit");
                }
            } else {
                col.violation(
                    &format!("C18|mac-handoff|packet-not-handed-over-whole|{}buf{}|{}", if stray.is_some() { "after-ignored-packet|" } else { "" }, n, if phy_len == n { "len=buf" } else if phy_len + 1 == n { "len=buf-1" } else { "len<buf" }),
                    "a received packet that fits the MAC's radio buffer did not reach the MAC whole (an authentic downlink of that length was not accepted or its payload differs)",
                    detail(json!({"accepted": accepted, "delivered_len": got.map(|g| g.1.len())})),
                );
            }
        }
    }
}
