//! C08 — MAC command handling is consistent and atomic: the device does what it answers.

use crate::c12::uplink_drs;
use crate::net::*;
use crate::regions::{self, Reg};
use crate::sim::*;
use lorawan_device::verif::{ChannelSnapshot, Snapshot};
use lrv_core::*;

pub struct C08;

impl Monitor for C08 {
    fn prop(&self) -> &'static str {
        "C08"
    }
    fn scalable(&self, g: &str) -> bool {
        let _ = g;
        true
    }
    fn gens(&self, tier: Tier) -> Vec<Gen> {
        vec![
            gen("linkadr-sweep", 9 * 16 * 16 * 8 * tier.pick(1, 12, 0)),
            gen("rxparam-sweep", 9 * 256 * tier.pick(2, 20, 0)),
            gen("newchannel-sweep", 7 * 256 * tier.pick(3, 30, 0)),
            gen("single", tier.pick(30_000, 8_000_000, 20)),
            gen("multi", tier.pick(30_000, 10_000_000, 20)),
            gen("sticky", tier.pick(6_000, 1_000_000, 6)),
        ]
    }
    fn rule(&self) -> String {
        "linkadr-sweep: every DataRate x TXPower x ChMaskCntl per region with 12 mask patterns; rxparam-sweep: every DLSettings byte per region x 5 frequency classes; newchannel-sweep: every DrRange byte x index/frequency classes per dynamic region; single: one random command per downlink (all handled kinds, FOpts or port 0, RX1/RX2); multi: 2-9 commands per downlink incl. LinkADR blocks and answer overflow, sequences of up to 3 downlinks; sticky: answers followed over 3 silent uplinks and across the next accepted downlink. Oracle: an executable model of the stated clauses applied to the hook snapshot before/after and the answers decoded from the following uplinks. Class = (region, command kind, per-field class, carrier, ack bits).".into()
    }
    fn assumptions(&self) -> Vec<String> {
        vec![
            "handled requests = LinkADRReq, RXParamSetupReq, DevStatusReq, NewChannelReq, RXTimingSetupReq, DlChannelReq; on fixed plans NewChannelReq/DlChannelReq may be answered or silently dropped; other commands need no answer".into(),
            "must-reject list (unambiguous only): RFU ChMaskCntl for the plan, data rate no edition defines (not 15), TXPower index beyond the table (not 15), mask without any usable channel, RX1DROffset above the regional maximum, RX2 data rate no edition defines (not 15), RX2/NewChannel/DlChannel frequency outside the widest band, NewChannelReq on a default channel, DrRange with min > max or rates no edition defines, DlChannelReq for an undefined channel".into(),
            "effects are compared on the verif-hooks snapshot; the channel mask is compared on the channels that exist (dynamic plans) / all 72 bits (fixed plans); US915 TXPower accepts 30-2p and min(21, 30-2p); RX2 data rate 15 acknowledged may keep or store".into(),
            "when trailing answers are missing because of the 15-byte limit, the state comparison is skipped for that downlink (the acknowledgement of the dropped answers is unknown)".into(),
        ]
    }
    fn required_events(&self, tier: Tier) -> Vec<&'static str> {
        if tier == Tier::Sanitizer {
            vec!["downlinks_judged"]
        } else {
            vec!["downlinks_judged", "linkadr_all_ack", "linkadr_nak", "linkadr_block", "rxparam_all_ack", "rxparam_nak", "newchannel_ack", "newchannel_nak", "dlchannel_ack", "dlchannel_nak", "rxtiming", "devstatus", "answer_overflow", "must_reject_cases", "sticky_repeated", "sticky_cleared", "port0_carrier", "fopts_carrier"]
        }
    }

    fn run_case(&self, g: &str, idx: u64, rng: &mut Prng, col: &mut Collector) {
        let front = FRONTS[(idx % 3) as usize];
        match g {
            "linkadr-sweep" => {
                let reg = regions::ALL[((idx / 1) % 9) as usize];
                let dr = ((idx / 9) % 16) as u8;
                let p = ((idx / 144) % 16) as u8;
                let ctl = ((idx / 2304) % 8) as u8;
                let front = FRONTS[((idx / 18432) % 3) as usize];
                for pat in 0..12 {
                    let mask = mask_pattern(pat, rng);
                    let cmds = vec![Cmd::LinkAdr { dr, p, mask, ctl, nb: 1 }];
                    one_downlink(reg, front, &cmds, rng, col, "sweep");
                }
            }
            "rxparam-sweep" => {
                let reg = regions::ALL[(idx % 9) as usize];
                let dl = ((idx / 9) % 256) as u8;
                for fc in 0..5 {
                    let f = freq_class(reg, fc, rng);
                    one_downlink(reg, front, &[Cmd::RxParam { dl, f }], rng, col, "sweep");
                }
            }
            "newchannel-sweep" => {
                let dynr: Vec<Reg> = regions::ALL.iter().copied().filter(|r| !r.fixed()).collect();
                let reg = dynr[(idx % 7) as usize];
                let drr = ((idx / 7) % 256) as u8;
                for ic in 0..4 {
                    let index = match ic {
                        0 => rng.below(reg.default_channels().len() as u64) as u8,
                        1 => rng.range(3, 15) as u8,
                        2 => 15,
                        _ => rng.range(16, 255) as u8,
                    };
                    let f = freq_class(reg, rng.below(5) as u8, rng);
                    one_downlink(reg, front, &[Cmd::NewCh { index, f, drr }], rng, col, "sweep");
                }
            }
            "single" => {
                let reg = regions::ALL[((idx / 3) % 9) as usize];
                let c = gen_cmd(reg, rng);
                one_downlink(reg, front, &[c], rng, col, "single");
            }
            "multi" => {
                let reg = regions::ALL[((idx / 3) % 9) as usize];
                multi_case(reg, front, rng, col);
            }
            _ => {
                let reg = regions::ALL[((idx / 3) % 9) as usize];
                sticky_case(reg, front, rng, col);
            }
        }
    }
}

#[derive(Clone, Debug, PartialEq)]
enum Cmd {
    LinkAdr { dr: u8, p: u8, mask: u16, ctl: u8, nb: u8 },
    RxParam { dl: u8, f: u32 }, // f in 100 Hz units
    DevStatus,
    NewCh { index: u8, f: u32, drr: u8 },
    RxTiming { del: u8 },
    DlCh { index: u8, f: u32 },
    DutyCycle(u8),
    TxParam(u8),
    LinkCheckAns,
    DeviceTimeAns,
}

impl Cmd {
    fn bytes(&self) -> Vec<u8> {
        match self {
            Cmd::LinkAdr { dr, p, mask, ctl, nb } => link_adr_req(*dr, *p, *mask, *ctl, *nb),
            Cmd::RxParam { dl, f } => rx_param_setup_req(*dl, *f),
            Cmd::DevStatus => dev_status_req(),
            Cmd::NewCh { index, f, drr } => new_channel_req(*index, *f, *drr),
            Cmd::RxTiming { del } => rx_timing_setup_req(*del),
            Cmd::DlCh { index, f } => dl_channel_req(*index, *f),
            Cmd::DutyCycle(v) => duty_cycle_req(*v),
            Cmd::TxParam(v) => tx_param_setup_req(*v),
            Cmd::LinkCheckAns => link_check_ans(10, 1),
            Cmd::DeviceTimeAns => device_time_ans(1_300_000_000, 7),
        }
    }
    fn kind(&self) -> &'static str {
        match self {
            Cmd::LinkAdr { .. } => "LinkADR",
            Cmd::RxParam { .. } => "RXParamSetup",
            Cmd::DevStatus => "DevStatus",
            Cmd::NewCh { .. } => "NewChannel",
            Cmd::RxTiming { .. } => "RXTimingSetup",
            Cmd::DlCh { .. } => "DlChannel",
            Cmd::DutyCycle(_) => "DutyCycle",
            Cmd::TxParam(_) => "TXParamSetup",
            Cmd::LinkCheckAns => "LinkCheckAns",
            Cmd::DeviceTimeAns => "DeviceTimeAns",
        }
    }
    /// CID and payload length of the answer a handling device sends.
    fn answer(&self) -> Option<(u8, usize)> {
        match self {
            Cmd::LinkAdr { .. } => Some((0x03, 1)),
            Cmd::RxParam { .. } => Some((0x05, 1)),
            Cmd::DevStatus => Some((0x06, 2)),
            Cmd::NewCh { .. } => Some((0x07, 1)),
            Cmd::RxTiming { .. } => Some((0x08, 0)),
            Cmd::DlCh { .. } => Some((0x0A, 1)),
            _ => None,
        }
    }
}

fn mask_pattern(pat: u64, rng: &mut Prng) -> u16 {
    match pat {
        0 => 0,
        1 => 0xFFFF,
        2 => 1,
        3 => 0x8000,
        4 => 0x0007,
        5 => 0x00FF,
        6 => 0xFF00,
        7 => 0x0003,
        8 => 1 << rng.below(16),
        9 => 0x0100,
        _ => rng.next_u32() as u16,
    }
}

/// 0: zero, 1: clearly valid, 2: band edge, 3: out of band, 4: random 24-bit
fn freq_class(reg: Reg, c: u8, rng: &mut Prng) -> u32 {
    let (lo, hi) = reg.inner_band();
    let (wlo, whi) = reg.band();
    match c {
        0 => 0,
        1 => (lo + rng.below(((hi - lo) / 100) as u64) as u32 * 100) / 100,
        2 => *rng.pick(&[lo / 100, hi / 100]),
        3 => *rng.pick(&[(wlo - 100) / 100, (whi + 100) / 100, 1_000_000, 0xFF_FFFF, (whi + 5_000_000) / 100, 1]),
        _ => rng.below(1 << 24) as u32,
    }
}

fn gen_cmd(reg: Reg, rng: &mut Prng) -> Cmd {
    match rng.below(12) {
        0 | 1 | 2 => {
            let dr = if rng.chance(1, 4) { 15 } else if rng.chance(1, 6) { rng.below(16) as u8 } else { *rng.pick(&uplink_drs(reg)) };
            let p = if rng.chance(1, 3) { 15 } else { rng.below(16) as u8 };
            let ctl = if reg.fixed() { rng.below(8) as u8 } else { *rng.pick(&[0u8, 0, 0, 6, 6, 1, 2, 3, 4, 5, 7]) };
            Cmd::LinkAdr { dr, p, mask: mask_pattern(rng.below(12), rng), ctl, nb: rng.below(16) as u8 }
        }
        3 | 4 => Cmd::RxParam { dl: if rng.bool() { rng.u8() } else { (rng.below(reg.max_rx1_offset() as u64 + 1) as u8) << 4 | reg.rx2_default().1 }, f: freq_class(reg, *rng.pick(&[1u8, 1, 1, 2, 3, 4, 0]), rng) },
        5 => Cmd::DevStatus,
        6 | 7 => Cmd::NewCh { index: if rng.chance(1, 6) { rng.u8() } else { rng.below(16) as u8 }, f: freq_class(reg, *rng.pick(&[1u8, 1, 1, 0, 2, 3, 4]), rng), drr: if rng.chance(1, 3) { rng.u8() } else { 0x50 } },
        8 => Cmd::RxTiming { del: rng.u8() },
        9 => Cmd::DlCh { index: if rng.chance(1, 8) { rng.u8() } else { rng.below(8) as u8 }, f: freq_class(reg, *rng.pick(&[1u8, 1, 1, 2, 3, 4, 0]), rng) },
        10 => rng.pick(&[Cmd::DutyCycle(3), Cmd::TxParam(0x25), Cmd::LinkCheckAns, Cmd::DeviceTimeAns]).clone(),
        _ => Cmd::DevStatus,
    }
}

// ---- the executable model of the stated clauses -----------------------------------------------------

/// Effective enabled-channel view used for comparisons.
fn eff_mask(reg: Reg, s: &Snapshot) -> Vec<bool> {
    if reg.fixed() {
        (0..72).map(|i| s.region.channel_mask[i / 8] & (1 << (i % 8)) != 0).collect()
    } else {
        (0..16).map(|i| s.region.channels[i].is_some() && s.region.channel_mask[i / 8] & (1 << (i % 8)) != 0).collect()
    }
}

fn apply_chmask(reg: Reg, mask: &mut [u8; 9], ctl: u8, m: u16) {
    let lo = m as u8;
    let hi = (m >> 8) as u8;
    if reg.fixed() {
        match ctl {
            0..=3 => {
                mask[ctl as usize * 2] = lo;
                mask[ctl as usize * 2 + 1] = hi;
            }
            4 => mask[8] = lo,
            5 => {
                for i in 0..8 {
                    mask[i] = if lo & (1 << i) != 0 { 0xFF } else { 0 };
                }
                mask[8] = lo;
            }
            6 => {
                for b in mask[..8].iter_mut() {
                    *b = 0xFF;
                }
                mask[8] = lo;
            }
            7 => {
                for b in mask[..8].iter_mut() {
                    *b = 0;
                }
                mask[8] = lo;
            }
            _ => {}
        }
    } else {
        match ctl {
            0 => {
                mask[0] = lo;
                mask[1] = hi;
            }
            6 => {
                mask[0] = 0xFF;
                mask[1] = 0xFF;
            }
            _ => {}
        }
    }
}

#[derive(Clone, Debug, PartialEq)]
struct Model {
    dr: u8,
    /// set of acceptable stored TX power values (None = not commanded)
    tx_power: Vec<Option<u8>>,
    mask: [u8; 9],
    rx1_off: u8,
    rx2_dr: Vec<Option<u8>>,
    rx2_f: Option<u32>,
    rx1_delay: u32,
    channels: [Option<ChannelSnapshot>; 16],
}

fn model_of(s: &Snapshot) -> Model {
    Model { dr: s.data_rate, tx_power: vec![s.tx_power], mask: s.region.channel_mask, rx1_off: s.rx1_dr_offset, rx2_dr: vec![s.rx2_data_rate], rx2_f: s.rx2_frequency, rx1_delay: s.rx1_delay, channels: s.region.channels }
}

/// Does request `c` fall into the must-reject list? (given the state it would apply to)
fn must_reject(reg: Reg, c: &Cmd, m: &Model, block_mask: Option<&[u8; 9]>) -> Option<&'static str> {
    match c {
        Cmd::LinkAdr { dr, p, ctl, .. } => {
            if !reg.chmaskcntl_valid(*ctl) {
                return Some("rfu-chmaskcntl");
            }
            if *dr != 15 && !reg.dr_defined_in_some_edition(*dr) {
                return Some("undefined-dr");
            }
            if *p != 15 && *p > reg.max_txpower_index() {
                return Some("txpower-beyond-table");
            }
            if let Some(bm) = block_mask {
                let usable = if reg.fixed() { bm.iter().any(|b| *b != 0) } else { (0..16).any(|i| m.channels[i].is_some() && bm[i / 8] & (1 << (i % 8)) != 0) };
                if !usable {
                    return Some("mask-no-usable-channel");
                }
            }
            None
        }
        Cmd::RxParam { dl, f } => {
            let off = (dl >> 4) & 7;
            let d = dl & 0x0f;
            if off > reg.max_rx1_offset() {
                return Some("rx1droffset-above-max");
            }
            if d != 15 && !reg.dr_defined_in_some_edition(d) {
                return Some("undefined-rx2-dr");
            }
            if !reg.in_band(f.wrapping_mul(100)) || *f > 42_949_672 {
                return Some("rx2-freq-out-of-band");
            }
            None
        }
        Cmd::NewCh { index, f, drr } => {
            if reg.fixed() {
                return None;
            }
            if (*index as usize) < reg.default_channels().len() {
                return Some("default-channel");
            }
            if *f != 0 {
                if !reg.in_band(f * 100) {
                    return Some("newchannel-freq-out-of-band");
                }
                let (mn, mx) = (drr & 0x0f, drr >> 4);
                if mn > mx {
                    return Some("drrange-min-gt-max");
                }
                if (mn..=mx).any(|d| !reg.dr_defined_in_some_edition(d)) {
                    return Some("drrange-undefined-rate");
                }
            }
            None
        }
        Cmd::DlCh { index, f } => {
            if reg.fixed() {
                return None;
            }
            if !reg.in_band(f * 100) {
                return Some("dlchannel-freq-out-of-band");
            }
            if *index as usize >= 16 || m.channels[*index as usize].is_none() {
                return Some("dlchannel-undefined-channel");
            }
            None
        }
        _ => None,
    }
}

struct Judged {
    overflow: bool,
}

/// Judges one accepted Class A downlink: `cmds` as sent, snapshots around it, `answers` from the
/// next uplink.
#[allow(clippy::too_many_arguments)]
fn judge(reg: Reg, front: Front, cmds: &[Cmd], carrier: &str, s0: &Snapshot, s1: &Snapshot, answers: &[u8], tag: &str, col: &mut Collector) -> Judged {
    col.event("downlinks_judged");
    col.event(if carrier == "port0" { "port0_carrier" } else { "fopts_carrier" });
    let ctx = |k: &str| json!({"kind": k, "region": reg.name(), "front": front.name(), "carrier": carrier, "tag": tag, "commands": format!("{:?}", cmds), "command_bytes": hex(&cmds.iter().flat_map(|c| c.bytes()).collect::<Vec<u8>>()), "answers": hex(answers), "before": format!("{:?}", s0), "after": format!("{:?}", s1)});
    // ---- clause 1: answers ------------------------------------------------------------------------
    let parsed = match parse_uplink_cmds(answers) {
        Ok(p) => p,
        Err(off) => {
            col.violation(&format!("C08|answers|not-whole-commands|{}", carrier), "the answers in the next uplink are not a sequence of whole commands", json!({"ctx": ctx("answers"), "offset": off}));
            return Judged { overflow: false };
        }
    };
    // expected sequence (fixed plans may drop NewChannel/DlChannel silently)
    let mut exp: Vec<(usize, u8, usize, bool)> = vec![]; // (cmd index, cid, payload len, optional)
    for (i, c) in cmds.iter().enumerate() {
        if let Some((cid, n)) = c.answer() {
            let optional = reg.fixed() && matches!(c, Cmd::NewCh { .. } | Cmd::DlCh { .. });
            exp.push((i, cid, n, optional));
        }
    }
    // match observed answers against expected, greedily skipping optional ones
    let mut matched: Vec<(usize, Vec<u8>)> = vec![]; // (cmd index, answer payload)
    let mut ei = 0;
    let mut ok = true;
    for (cid, pl) in parsed.iter() {
        while ei < exp.len() && exp[ei].1 != *cid && exp[ei].3 {
            ei += 1;
        }
        if ei < exp.len() && exp[ei].1 == *cid {
            matched.push((exp[ei].0, pl.clone()));
            ei += 1;
        } else {
            ok = false;
            break;
        }
    }
    let first_kind = cmds.first().map(|c| c.kind()).unwrap_or("none");
    if !ok {
        // is the observed sequence the expected one with answers dropped from the *middle*?
        let mut k = 0;
        let mut subseq = true;
        for (cid, _) in parsed.iter() {
            while k < exp.len() && exp[k].1 != *cid {
                k += 1;
            }
            if k == exp.len() {
                subseq = false;
                break;
            }
            k += 1;
        }
        let _ = first_kind;
        if subseq {
            col.violation(&format!("C08|answers|dropped-answer-not-a-suffix|{}", carrier), "an answer was dropped from the middle of the sequence: only trailing answers may be missing", ctx("answers"));
        } else {
            col.violation(&format!("C08|answers|order-or-extra|{}", carrier), "answers are not one per handled request in request order", ctx("answers"));
        }
        return Judged { overflow: false };
    }
    // missing tail?
    let missing: Vec<&(usize, u8, usize, bool)> = exp[ei..].iter().filter(|e| !e.3).collect();
    let mut overflow = false;
    if let Some(first_missing) = missing.first() {
        let used = answers.len();
        if used + 1 + first_missing.2 > 15 {
            overflow = true;
            col.event("answer_overflow");
        } else {
            col.violation(&format!("C08|answers|missing-without-overflow|{}|cid={:02x}", carrier, first_missing.1), "an answer is missing although it would have fitted the 15-byte limit", json!({"ctx": ctx("answers"), "used_bytes": used}));
            return Judged { overflow: false };
        }
    }
    // LinkADR blocks: identical copies
    let mut i = 0;
    while i < cmds.len() {
        if matches!(cmds[i], Cmd::LinkAdr { .. }) {
            let mut jx = i;
            while jx + 1 < cmds.len() && matches!(cmds[jx + 1], Cmd::LinkAdr { .. }) {
                jx += 1;
            }
            if jx > i {
                col.event("linkadr_block");
                let pls: Vec<&Vec<u8>> = matched.iter().filter(|(ci, _)| *ci >= i && *ci <= jx).map(|(_, p)| p).collect();
                if pls.windows(2).any(|w| w[0] != w[1]) {
                    col.violation("C08|answers|linkadr-block-not-identical", "answers to a LinkADRReq block are not identical copies", ctx("block"));
                }
            }
            i = jx + 1;
        } else {
            i += 1;
        }
    }
    // ---- clauses 2-4: walk the requests with their answers -----------------------------------------
    let mut m = model_of(s0);
    let ans_of = |ci: usize| matched.iter().find(|(c, _)| *c == ci).map(|(_, p)| p.clone());
    let mut i = 0;
    let mut unknown = false;
    while i < cmds.len() {
        match &cmds[i] {
            Cmd::LinkAdr { .. } => {
                let mut jx = i;
                while jx + 1 < cmds.len() && matches!(cmds[jx + 1], Cmd::LinkAdr { .. }) {
                    jx += 1;
                }
                // block mask
                let mut bm = m.mask;
                let mut rfu = false;
                for c in &cmds[i..=jx] {
                    if let Cmd::LinkAdr { mask, ctl, .. } = c {
                        if !reg.chmaskcntl_valid(*ctl) {
                            rfu = true;
                        }
                        apply_chmask(reg, &mut bm, *ctl, *mask);
                    }
                }
                let last = &cmds[jx];
                let Cmd::LinkAdr { dr, p, .. } = last else { unreachable!() };
                match ans_of(jx).or_else(|| ans_of(i)) {
                    None => unknown = true,
                    Some(a) => {
                        let st = a.first().copied().unwrap_or(0) & 7;
                        let mr = if rfu { Some("rfu-chmaskcntl") } else { must_reject(reg, last, &m, Some(&bm)) };
                        if let Some(why) = mr {
                            col.event("must_reject_cases");
                            if st == 7 {
                                col.violation(&format!("C08|must-reject-accepted|LinkADR|{}|{}", why, if reg.fixed() { "fixed" } else { "dynamic" }), "a LinkADRReq the regional rules make invalid was fully acknowledged", ctx("must-reject"));
                            }
                        }
                        if st == 7 {
                            col.event("linkadr_all_ack");
                            if *dr != 15 {
                                m.dr = *dr;
                            }
                            if *p != 15 {
                                let e = reg.txpower_eirp(*p).floor().max(0.0) as u8;
                                m.tx_power = if reg == Reg::US915 { vec![Some(e), Some(e.min(21))] } else { vec![Some(e)] };
                            }
                            m.mask = bm;
                        } else {
                            col.event("linkadr_nak");
                        }
                    }
                }
                i = jx + 1;
                continue;
            }
            c @ Cmd::RxParam { dl, f } => match ans_of(i) {
                None => unknown = true,
                Some(a) => {
                    let st = a.first().copied().unwrap_or(0) & 7;
                    if let Some(why) = must_reject(reg, c, &m, None) {
                        col.event("must_reject_cases");
                        if st == 7 {
                            col.violation(&format!("C08|must-reject-accepted|RXParamSetup|{}", why), "an RXParamSetupReq the regional rules make invalid was fully acknowledged", ctx("must-reject"));
                        }
                    }
                    if st == 7 {
                        col.event("rxparam_all_ack");
                        m.rx1_off = (dl >> 4) & 7;
                        let d = dl & 0x0f;
                        m.rx2_dr = if d == 15 { let mut v = m.rx2_dr.clone(); v.push(Some(15)); v } else { vec![Some(d)] };
                        m.rx2_f = Some(f * 100);
                    } else {
                        col.event("rxparam_nak");
                    }
                }
            },
            Cmd::RxTiming { del } => {
                if ans_of(i).is_some() {
                    col.event("rxtiming");
                    let d = del & 0x0f;
                    m.rx1_delay = if d < 2 { 1000 } else { d as u32 * 1000 };
                } else {
                    unknown = true;
                }
            }
            c @ Cmd::NewCh { index, f, drr } => {
                if reg.fixed() {
                    // nothing may change
                } else {
                    match ans_of(i) {
                        None => unknown = true,
                        Some(a) => {
                            let st = a.first().copied().unwrap_or(0) & 3;
                            if let Some(why) = must_reject(reg, c, &m, None) {
                                col.event("must_reject_cases");
                                if st == 3 {
                                    col.violation(&format!("C08|must-reject-accepted|NewChannel|{}", why), "a NewChannelReq the regional rules make invalid was fully acknowledged", ctx("must-reject"));
                                }
                            }
                            if st == 3 {
                                col.event("newchannel_ack");
                                let ix = *index as usize;
                                if ix < 16 {
                                    if *f == 0 {
                                        m.channels[ix] = None;
                                        m.mask[ix / 8] &= !(1 << (ix % 8));
                                    } else {
                                        m.channels[ix] = Some(ChannelSnapshot { ul_frequency: f * 100, rx1_frequency: f * 100, dr_min: drr & 0x0f, dr_max: drr >> 4 });
                                        m.mask[ix / 8] |= 1 << (ix % 8);
                                    }
                                }
                            } else {
                                col.event("newchannel_nak");
                            }
                        }
                    }
                }
            }
            c @ Cmd::DlCh { index, f } => {
                if !reg.fixed() {
                    match ans_of(i) {
                        None => unknown = true,
                        Some(a) => {
                            let st = a.first().copied().unwrap_or(0) & 3;
                            if let Some(why) = must_reject(reg, c, &m, None) {
                                col.event("must_reject_cases");
                                if st == 3 {
                                    col.violation(&format!("C08|must-reject-accepted|DlChannel|{}", why), "a DlChannelReq the regional rules make invalid was fully acknowledged", ctx("must-reject"));
                                }
                            }
                            if st == 3 {
                                col.event("dlchannel_ack");
                                let ix = *index as usize;
                                if ix < 16 {
                                    if let Some(ch) = m.channels[ix].as_mut() {
                                        ch.rx1_frequency = f * 100;
                                    }
                                }
                            } else {
                                col.event("dlchannel_nak");
                            }
                        }
                    }
                }
            }
            Cmd::DevStatus => {
                if ans_of(i).is_some() {
                    col.event("devstatus");
                }
            }
            _ => {}
        }
        i += 1;
    }
    // ---- compare the state -----------------------------------------------------------------------------
    let kinds: Vec<&str> = cmds.iter().map(|c| c.kind()).collect();
    let ackbits: String = matched.iter().map(|(_, p)| format!("{:x}", p.first().copied().unwrap_or(0) & 7)).collect();
    col.eval(&format!("{}|{}|{}|{}|{}", reg.name(), kinds.join("+"), carrier, ackbits, tag));
    if unknown || overflow {
        return Judged { overflow };
    }
    let mut diffs: Vec<String> = vec![];
    if s1.data_rate != m.dr {
        diffs.push(format!("data_rate {} != {}", s1.data_rate, m.dr));
    }
    if !m.tx_power.contains(&s1.tx_power) {
        diffs.push(format!("tx_power {:?} not in {:?}", s1.tx_power, m.tx_power));
    }
    if s1.rx1_dr_offset != m.rx1_off {
        diffs.push(format!("rx1_dr_offset {} != {}", s1.rx1_dr_offset, m.rx1_off));
    }
    if !m.rx2_dr.contains(&s1.rx2_data_rate) {
        diffs.push(format!("rx2_data_rate {:?} not in {:?}", s1.rx2_data_rate, m.rx2_dr));
    }
    if s1.rx2_frequency != m.rx2_f {
        diffs.push(format!("rx2_frequency {:?} != {:?}", s1.rx2_frequency, m.rx2_f));
    }
    if s1.rx1_delay != m.rx1_delay {
        diffs.push(format!("rx1_delay {} != {}", s1.rx1_delay, m.rx1_delay));
    }
    if s1.adr_enabled != s0.adr_enabled || s1.joined != s0.joined {
        diffs.push("adr/joined changed".into());
    }
    // channels
    for ix in 0..16 {
        let a = s1.region.channels[ix];
        let b = m.channels[ix];
        let same = match (a, b) {
            (None, None) => true,
            (Some(x), Some(y)) => x.ul_frequency == y.ul_frequency && x.rx1_frequency == y.rx1_frequency && (x.dr_min, x.dr_max) == (y.dr_min, y.dr_max),
            _ => false,
        };
        if !same {
            diffs.push(format!("channel[{}] {:?} != {:?}", ix, a, b));
        }
    }
    // effective mask
    let mut ms = *s1;
    ms.region.channel_mask = m.mask;
    ms.region.channels = m.channels;
    if eff_mask(reg, s1) != eff_mask(reg, &ms) {
        diffs.push(format!("enabled channels {} != {}", hex(&s1.region.channel_mask), hex(&m.mask)));
    }
    if !diffs.is_empty() {
        let any_nak = matched.iter().any(|(ci, p)| {
            let full = match cmds[*ci] {
                Cmd::LinkAdr { .. } | Cmd::RxParam { .. } => 7,
                Cmd::NewCh { .. } | Cmd::DlCh { .. } => 3,
                _ => 0,
            };
            full != 0 && p.first().copied().unwrap_or(0) & full != full
        });
        let field = diffs[0].split(' ').next().unwrap_or("?").split('[').next().unwrap_or("?").to_string();
        col.violation(
            &format!("C08|state|{}|{}|{}|{}", if any_nak { "nak-changed-state-or-ack-not-applied" } else { "ack-effect-differs" }, if cmds.len() == 1 { kinds[0] } else { "multi" }, field, if reg.fixed() { "fixed" } else { "dynamic" }),
            "the state after the downlink is not what the answers say (acknowledged = applied exactly, rejected = unchanged)",
            json!({"ctx": ctx("state"), "differences": diffs}),
        );
    }
    Judged { overflow }
}

fn carrier_name(in_fopts: bool, len: usize) -> &'static str {
    if in_fopts && len <= 15 {
        "fopts"
    } else {
        "port0"
    }
}

fn prepare(reg: Reg, front: Front, rng: &mut Prng) -> Option<Link> {
    let link = prepare_inner(reg, front, rng)?;
    // the radio reports whatever signal-to-noise ratio it measured (an i8): also values beyond the
    // 6-bit margin field of DevStatusAns
    link.dev.log.borrow_mut().snr = *rng.pick(&[5i8, 5, 5, 0, -1, -20, -32, -33, -40, -128, 31, 32, 33, 60, 127]);
    Some(link)
}

fn prepare_inner(reg: Reg, front: Front, rng: &mut Prng) -> Option<Link> {
    // fixed plans, half of the time: an OTAA device with a join bias whose retries are not used up
    // (the bias keeps steering the data uplinks until the network sends a channel mask)
    if reg.fixed() && rng.bool() {
        let bias = Some((rng.range(1, 9) as u8, rng.range(2, 5) as usize));
        let opts = DevOpts { rng_seed: Some(rng.next_u64()), bias, ..Default::default() };
        let creds = default_creds(rng);
        let mut dev: Dev = Dev::new(front, reg, creds.clone(), &opts);
        let ja = lrv_core::refcodec::JoinAcceptDesc { join_nonce: rng.below(1 << 24) as u32, net_id: 1, dev_addr: rng.next_u32(), dl_settings: 0, rx_delay: 1, cf_list: None };
        let w = lrv_core::refcodec::encode_join_accept(&creds.app_key, &ja);
        if !matches!(dev.transact(Action::Join, &Script::rx1(w)), Resp::JoinSuccess) {
            return None;
        }
        let (nk, ak, addr) = dev.session_keys()?;
        if rng.chance(1, 4) {
            dev.set_adr(false);
        }
        return Some(Link { dev, net: Net { nwk: nk, app: ak, addr }, fdown: 0, up_min: 0 });
    }
    let opts = DevOpts { rng_seed: Some(rng.next_u64()), ..Default::default() };
    let mut link: Link = Link::abp(front, reg, rng, &opts)?;
    // sometimes start from a non-default plan: extra channels
    if !reg.fixed() && rng.chance(1, 2) {
        let (lo, hi) = reg.inner_band();
        let n = rng.range(1, 4);
        let mut cmds = vec![];
        for k in 0..n {
            let f = (lo + rng.below(((hi - lo) / 100) as u64) as u32 * 100) / 100;
            cmds.extend(new_channel_req(3 + k as u8, f, 0x50));
        }
        let _ = link.deliver_mac(&cmds, false, false);
        let _ = link.txn(&[0], 1, false, &Script::silent()); // flush the answers
    }
    // one application in four has switched ADR off: what the network commands and what the device answers
    // are bound to each other all the same
    if rng.chance(1, 4) {
        link.dev.set_adr(false);
    }
    Some(link)
}

/// Sends `cmds` in one downlink and judges it; returns the link for further use.
fn send_and_judge(link: &mut Link, reg: Reg, front: Front, cmds: &[Cmd], in_fopts: bool, rx2: bool, tag: &str, col: &mut Collector) -> Option<Judged> {
    send_and_judge_split(link, reg, front, cmds, in_fopts, rx2, tag, col, None)
}

/// `split`: the first `split` commands travel in FOpts and the others in the port-0 FRMPayload of the
/// same frame. LoRaWAN tells a device to ignore a frame that carries commands in both places; a device
/// that accepts it handles and answers it under the stated rules like any other accepted downlink
/// (either outcome is taken). Without a given split, one port-0 frame in four is split at a command
/// boundary derived from its bytes (never inside a LinkADRReq block).
fn send_and_judge_split(link: &mut Link, reg: Reg, front: Front, cmds: &[Cmd], in_fopts: bool, rx2: bool, tag: &str, col: &mut Collector, split: Option<usize>) -> Option<Judged> {
    let bytes: Vec<u8> = cmds.iter().flat_map(|c| c.bytes()).collect();
    let mut split = split;
    if split.is_none() && carrier_name(in_fopts, bytes.len()) == "port0" && cmds.len() >= 2 {
        let h = bytes.iter().fold(7u32, |a, b| a.wrapping_mul(31).wrapping_add(*b as u32));
        if h % 4 == 0 {
            split = Some(1 + ((h / 4) as usize) % (cmds.len() - 1));
        }
    }
    let split_bytes = split.and_then(|ci| {
        if ci == 0 || ci >= cmds.len() || (matches!(cmds[ci - 1], Cmd::LinkAdr { .. }) && matches!(cmds[ci], Cmd::LinkAdr { .. })) {
            return None;
        }
        let k: usize = cmds[..ci].iter().map(|c| c.bytes().len()).sum();
        if k <= 15 { Some(k) } else { None }
    });
    let s0 = link.dev.snapshot();
    let t = match split_bytes {
        Some(k) => {
            col.event("both_carriers_frames");
            link.deliver_mac_both(&bytes[..k], &bytes[k..], rx2)
        }
        None => link.deliver_mac(&bytes, in_fopts, rx2),
    };
    if split_bytes.is_some() && matches!(t.resp, Resp::RxComplete | Resp::NoAck) {
        // the frame was ignored, as LoRaWAN prescribes for commands in both places
        col.event("both_carriers_frame_ignored");
        return None;
    }
    if let Resp::Panic(m, l) = &t.resp {
        col.violation(&format!("C08|panic|{}|{}", short_loc(l), cmds.first().map(|c| c.kind()).unwrap_or("none")), "device panicked while handling MAC commands", json!({"region": reg.name(), "commands": format!("{:?}", cmds), "msg": m, "loc": l}));
        return None;
    }
    if !matches!(t.resp, Resp::DownlinkReceived(_)) {
        // an earlier command may have moved the window to a rate whose payload limit the frame
        // exceeds: only a frame clearly within the limit of the window's rate must be accepted
        let wins: Vec<(u8, u32)> = t.evs.iter().filter_map(|e| if let Ev::SetupRx { sf, bw, single_ms, .. } = e { if single_ms.is_some() || front == Front::Nb { Some((*sf, *bw)) } else { None } } else { None }).collect();
        let w = if rx2 { wins.get(1) } else { wins.first() };
        let mac_payload = 8 + 1 + bytes.len();
        let within = w.map(|(sf, bw)| match (sf, bw) {
            (12, 125_000) | (11, 125_000) => 59,
            (10, 125_000) => 19,
            (9, 125_000) => 61,
            (8, 125_000) => 133,
            (12, 500_000) => 41,
            (11, 500_000) => 117,
            _ => 230,
        });
        if within.map(|l| mac_payload <= l).unwrap_or(false) {
            col.violation(&format!("C08|downlink-not-accepted|{}", t.resp.kind()), "an authentic fresh MAC downlink was not accepted", json!({"region": reg.name(), "commands": format!("{:?}", cmds), "resp": format!("{:?}", t.resp), "window": format!("{:?}", w)}));
        } else {
            col.event("frame_not_clearly_within_window_limit");
        }
        return None;
    }
    let s1 = link.dev.snapshot();
    // next uplink carries the answers
    let t2 = link.txn(&[0x33], 2, false, &Script::silent());
    if let Resp::Panic(m, l) = &t2.resp {
        if m != "rng-budget" {
            col.violation(&format!("C08|panic-next-uplink|{}", short_loc(l)), "device panicked in the uplink after MAC commands", json!({"region": reg.name(), "commands": format!("{:?}", cmds), "msg": m, "loc": l}));
        }
        return None;
    }
    let Some(u) = &t2.up else { return None };
    let answers = u.mac_bytes();
    if col.want_sample() {
        col.sample(json!({"region": reg.name(), "front": front.name(), "commands": format!("{:?}", cmds), "answers": hex(&answers)}));
    }
    let j = judge(reg, front, cmds, if split_bytes.is_some() { "both" } else { carrier_name(in_fopts, bytes.len()) }, &s0, &s1, &answers, tag, col);
    // "has taken effect": a fully accepted LinkADRReq is also what the very next uplink (the one
    // that carries the answer) is sent with
    if cmds.iter().any(|c| matches!(c, Cmd::LinkAdr { .. })) {
        if let Ok(a) = parse_uplink_cmds(&answers) {
            let last_linkadr = a.iter().filter(|(cid, _)| *cid == 0x03).last();
            if let Some((_, st)) = last_linkadr {
                if st.first().map(|b| b & 7 == 7).unwrap_or(false) {
                    if let Some(Ev::Tx { sf, bw, freq, .. }) = t2.evs.iter().find(|e| matches!(e, Ev::Tx { .. })) {
                        col.event("linkadr_effect_on_air_checked");
                        if reg.lora_dr(s1.data_rate) != Some((*sf, *bw)) {
                            col.violation(
                                &format!("C08|ack-effect-differs|data-rate-on-air|{}|{}", reg.name(), if s0.region.join_bias.preferred_subband.is_some() { "join-bias" } else { "no-bias" }),
                                "a fully acknowledged LinkADRReq is in force in the device's state, but the next uplink is not sent at that data rate",
                                json!({"region": reg.name(), "front": front.name(), "commands": format!("{:?}", cmds), "answers": hex(&answers), "data_rate_in_force": s1.data_rate, "uplink": {"sf": sf, "bw": bw, "freq": freq}, "join_bias_before": format!("{:?}", s0.region.join_bias)}),
                            );
                        }
                    }
                }
            }
        }
    }
    Some(j)
}

fn one_downlink(reg: Reg, front: Front, cmds: &[Cmd], rng: &mut Prng, col: &mut Collector, tag: &str) {
    let Some(mut link) = prepare(reg, front, rng) else { return };
    let _ = send_and_judge(&mut link, reg, front, cmds, rng.bool(), rng.chance(1, 4), tag, col);
}

fn multi_case(reg: Reg, front: Front, rng: &mut Prng, col: &mut Collector) {
    let Some(mut link) = prepare(reg, front, rng) else { return };
    let ndl = rng.range(1, 3);
    for _ in 0..ndl {
        let shape = rng.below(6);
        let mut cmds: Vec<Cmd> = vec![];
        let mut split: Option<usize> = None;
        match shape {
            5 => {
                // commands in FOpts and in the port-0 FRMPayload of one frame: the FOpts part fills the
                // answers up to 10-14 octets and may lose its last answer, the payload part goes on
                // with a short and a long answer
                for _ in 0..rng.range(3, 4) {
                    cmds.push(Cmd::DevStatus);
                }
                for _ in 0..rng.range(1, 2) {
                    cmds.push(Cmd::RxTiming { del: rng.below(16) as u8 });
                }
                cmds.push(Cmd::DevStatus);
                split = Some(cmds.len());
                cmds.push(Cmd::RxTiming { del: rng.below(16) as u8 });
                if rng.bool() {
                    cmds.push(Cmd::DevStatus);
                }
            }
            0 => {
                // LinkADR block of 2..8
                for _ in 0..rng.range(2, 8) {
                    let mut c = gen_cmd(reg, rng);
                    while !matches!(c, Cmd::LinkAdr { .. }) {
                        c = gen_cmd(reg, rng);
                    }
                    cmds.push(c);
                }
            }
            1 => {
                // overflow: many LinkADR + DevStatus + RXTiming
                for _ in 0..rng.range(5, 7) {
                    cmds.push(Cmd::LinkAdr { dr: 15, p: 15, mask: 0xFFFF, ctl: if reg.fixed() { 6 } else { 0 }, nb: 1 });
                }
                cmds.push(Cmd::DevStatus);
                cmds.push(Cmd::RxTiming { del: rng.below(16) as u8 });
                if rng.bool() {
                    cmds.push(Cmd::DevStatus);
                }
            }
            _ => {
                for _ in 0..rng.range(2, 9) {
                    cmds.push(gen_cmd(reg, rng));
                }
            }
        }
        // keep the frame clearly within the smallest payload limit of any window (M = 19 in
        // US915 DR8-less windows never applies to downlinks; 51 bytes FRMPayload at SF12)
        while cmds.iter().map(|c| c.bytes().len()).sum::<usize>() > 40 {
            cmds.pop();
        }
        let r = send_and_judge_split(&mut link, reg, front, &cmds, rng.bool(), rng.chance(1, 4), "multi", col, split);
        if r.is_none() {
            return;
        }
    }
}

fn sticky_case(reg: Reg, front: Front, rng: &mut Prng, col: &mut Collector) {
    let Some(mut link) = prepare(reg, front, rng) else { return };
    // a downlink with a mix of sticky and one-shot commands (kept small: no overflow)
    let mut cmds: Vec<Cmd> = vec![];
    let (lo, hi) = reg.inner_band();
    let f = (lo + rng.below(((hi - lo) / 100) as u64) as u32 * 100) / 100;
    if rng.bool() {
        cmds.push(Cmd::RxParam { dl: reg.rx2_default().1, f });
    }
    if rng.bool() {
        cmds.push(Cmd::DevStatus);
    }
    if rng.bool() {
        cmds.push(Cmd::RxTiming { del: rng.below(16) as u8 });
    }
    if !reg.fixed() && rng.bool() {
        cmds.push(Cmd::DlCh { index: 0, f });
    }
    // now and then the same kind of sticky request twice in one frame (two channels re-paired, the delay
    // set twice): two answers, identical octet for octet, and both are repeated
    if rng.chance(1, 4) {
        if !reg.fixed() && rng.bool() {
            cmds.push(Cmd::DlCh { index: 1, f });
            if !cmds.iter().any(|c| matches!(c, Cmd::DlCh { index: 0, .. })) {
                cmds.push(Cmd::DlCh { index: 0, f });
            }
        } else {
            let del = rng.below(16) as u8;
            cmds.push(Cmd::RxTiming { del });
            cmds.push(Cmd::RxTiming { del });
        }
    }
    if rng.bool() {
        cmds.push(Cmd::LinkAdr { dr: 15, p: 15, mask: 0xFFFF, ctl: if reg.fixed() { 6 } else { 0 }, nb: 1 });
    }
    if cmds.is_empty() {
        cmds.push(Cmd::RxTiming { del: 3 });
    }
    let bytes: Vec<u8> = cmds.iter().flat_map(|c| c.bytes()).collect();
    let t = link.deliver_mac(&bytes, rng.bool(), false);
    if !matches!(t.resp, Resp::DownlinkReceived(_)) {
        return;
    }
    let sticky_cids = [0x05u8, 0x08, 0x0A];
    let mut first: Option<Vec<(u8, Vec<u8>)>> = None;
    let nsilent = rng.range(2, 4);
    let ctx = |k: &str, extra: serde_json::Value| json!({"kind": k, "region": reg.name(), "front": front.name(), "commands": format!("{:?}", cmds), "extra": extra});
    for n in 0..nsilent {
        // port 0 uplinks carry the answers in the payload: exercise both carriers
        let port = if rng.chance(1, 4) { 0 } else { 5 };
        let data: &[u8] = if port == 0 { &[] } else { &[9] };
        // a rejected frame in between must not clear sticky answers (C07 overlap) - not injected here
        // one uplink in three asks for an acknowledgement that never comes: what it carried is spent all
        // the same (the application decides about sending the data again, the answers are not data)
        let confirmed = rng.chance(1, 3);
        if confirmed {
            col.event("sticky_unanswered_confirmed_uplink");
        }
        let t = link.txn(data, port, confirmed, &Script::silent());
        let Some(u) = &t.up else { return };
        let Ok(c) = parse_uplink_cmds(&u.mac_bytes()) else {
            col.violation("C08|sticky|answers-not-whole", "answers are not whole commands", ctx("sticky", json!({"uplink": n})));
            return;
        };
        match &first {
            None => first = Some(c),
            Some(f0) => {
                let exp: Vec<&(u8, Vec<u8>)> = f0.iter().filter(|(cid, _)| sticky_cids.contains(cid)).collect();
                let got: Vec<&(u8, Vec<u8>)> = c.iter().collect();
                if exp != got {
                    let extra = got.iter().any(|g| !sticky_cids.contains(&g.0));
                    col.violation(&format!("C08|sticky|{}|uplink={}", if extra { "one-shot-answer-repeated" } else { "sticky-answer-not-repeated" }, n.min(2)), "RXParamSetup/RXTimingSetup/DlChannel answers must repeat in every uplink until the next accepted Class A downlink, all others are sent once", ctx("sticky", json!({"first_uplink": format!("{:?}", f0), "this_uplink": format!("{:?}", c), "uplink": n})));
                    return;
                }
                if !exp.is_empty() {
                    col.event("sticky_repeated");
                }
            }
        }
    }
    // Class C downlink does not end the repetition; a Class A one does
    if front == Front::AsyncC && rng.bool() {
        let f = link.mac_frame(&[], true);
        let t = link.txn(&[1], 5, false, &Script { pre_rx1: vec![f], ..Default::default() });
        if let (Some(u), Some(f0)) = (&t.up, &first) {
            if let Ok(c) = parse_uplink_cmds(&u.mac_bytes()) {
                let exp: Vec<&(u8, Vec<u8>)> = f0.iter().filter(|(cid, _)| sticky_cids.contains(cid)).collect();
                if c.iter().collect::<Vec<_>>() != exp {
                    col.violation("C08|sticky|lost-before-classc", "sticky answers missing in an uplink before any Class A downlink", ctx("sticky", json!({"this_uplink": format!("{:?}", c)})));
                }
            }
        }
        // the uplink *after* the Class C downlink still repeats them
        let t = link.txn(&[1], 5, false, &Script::silent());
        if let (Some(u), Some(f0)) = (&t.up, &first) {
            if let Ok(c) = parse_uplink_cmds(&u.mac_bytes()) {
                let exp: Vec<&(u8, Vec<u8>)> = f0.iter().filter(|(cid, _)| sticky_cids.contains(cid)).collect();
                if c.iter().collect::<Vec<_>>() != exp {
                    col.violation("C08|sticky|cleared-by-classc-downlink", "a Class C downlink ended the repetition of sticky answers", ctx("sticky", json!({"this_uplink": format!("{:?}", c)})));
                }
            }
        }
    }
    let f = link.mac_frame(&[], true);
    let t = link.txn(&[1], 5, false, &Script::rx1(f));
    if !matches!(t.resp, Resp::DownlinkReceived(_)) {
        return;
    }
    let t = link.txn(&[1], 5, false, &Script::silent());
    if let Some(u) = &t.up {
        if !u.mac_bytes().is_empty() {
            col.violation("C08|sticky|not-cleared-by-downlink", "answers still repeated after the next accepted Class A downlink", ctx("sticky", json!({"uplink_mac": hex(&u.mac_bytes())})));
        } else {
            col.event("sticky_cleared");
        }
    }
}
