//! C19 — MAC-command builders, parsers and identifier text forms round-trip.
//!
//! Oracle: an independent description of every command (field -> bits of the wire image, unit
//! mapping of the accessor) transcribed from LoRaWAN 1.0.4 ch. 5, TS009 and TS005. The real
//! creators build, the real iterators parse, the description judges.

use lorawan::certification::*;
use lorawan::default_crypto::{DefaultCrypto, DefaultNetworkCrypto};
use lorawan::keys::{self, AES128};
use lorawan::maccommandcreator::build_mac_commands;
use lorawan::maccommands::*;
use lorawan::multicast::*;
use lorawan::parser::{self, McAddr};
use lrv_core::*;
use std::str::FromStr;

pub struct C19;

type Snap = Vec<(&'static str, u128)>;
const ERR_MARK: u128 = u128::MAX;
const MON: [&str; 6] = ["maccmd", "maccmd", "cert", "cert", "mcast", "mcast"];
const SETS: [&str; 6] = ["mac-up", "mac-down", "dut-up", "dut-down", "mc-up", "mc-down"];
const KEK: [u8; 16] = [0x66, 1, 2, 3, 4, 5, 6, 7, 8, 9, 10, 11, 12, 13, 14, 15];

fn expand16(v: u64) -> [u8; 16] {
    Prng::new(v ^ 0xC19).arr()
}
fn expand12(v: u64) -> [u8; 12] {
    Prng::new(v ^ 0xC19C).arr()
}
fn le128(b: &[u8]) -> u128 {
    let mut x = [0u8; 16];
    let n = b.len().min(16);
    x[..n].copy_from_slice(&b[..n]);
    u128::from_le_bytes(x)
}
fn s8(v: i8) -> u128 {
    v as i128 as u128
}

// ---- parse + read every accessor ----------------------------------------------------------

/// Parses `bytes` with the iterator of `set`; exactly one command spanning all of `bytes` is
/// expected. Keys starting with '~' are derived accessors (functions of the other fields).
fn snap_one(set: usize, bytes: &[u8]) -> Result<(&'static str, Snap), String> {
    let seq = snap_seq(set, bytes)?;
    if seq.len() != 1 {
        return Err(format!("{} commands parsed instead of 1", seq.len()));
    }
    let (name, len, s) = seq.into_iter().next().unwrap();
    if len != bytes.len() {
        return Err(format!("command spans {} of {} octets", len, bytes.len()));
    }
    Ok((name, s))
}

/// Parses a whole stream: (variant name, 1 + payload length, snapshot) per command.
fn snap_seq(set: usize, bytes: &[u8]) -> Result<Vec<(&'static str, usize, Snap)>, String> {
    let mut out = vec![];
    macro_rules! run {
        ($f:ident, $conv:ident) => {{
            let mut n = 0;
            for it in $f(bytes) {
                n += 1;
                if n > bytes.len() + 1 {
                    return Err("iterator does not terminate".into());
                }
                match it {
                    Ok(c) => {
                        let l = 1 + c.len();
                        let (name, s) = $conv(&c);
                        out.push((name, l, s));
                    }
                    Err(e) => return Err(format!("parse error {:?} after {} commands", e, out.len())),
                }
            }
        }};
    }
    match set {
        0 => run!(parse_uplink_mac_commands, snap_mac_up),
        1 => run!(parse_downlink_mac_commands, snap_mac_down),
        2 => run!(parse_uplink_dut_commands, snap_dut_up),
        3 => run!(parse_downlink_dut_commands, snap_dut_down),
        4 => run!(parse_uplink_multicast_commands, snap_mc_up),
        _ => run!(parse_downlink_multicast_commands, snap_mc_down),
    }
    Ok(out)
}

fn b(x: bool) -> u128 {
    x as u128
}

fn snap_mac_up(c: &UplinkMacCommand<'_>) -> (&'static str, Snap) {
    use UplinkMacCommand::*;
    match c {
        LinkCheckReq(_) => ("LinkCheckReq", vec![]),
        LinkADRAns(p) => ("LinkADRAns", vec![("channel_mask_ack", b(p.channel_mask_ack())), ("data_rate_ack", b(p.data_rate_ack())), ("tx_power_ack", b(p.powert_ack())), ("~ack", b(p.ack()))]),
        DutyCycleAns(_) => ("DutyCycleAns", vec![]),
        RXParamSetupAns(p) => ("RXParamSetupAns", vec![("channel_ack", b(p.channel_ack())), ("rx2_data_rate_ack", b(p.rx2_data_rate_ack())), ("rx1_dr_offset_ack", b(p.rx1_dr_offset_ack())), ("~ack", b(p.ack()))]),
        DevStatusAns(p) => ("DevStatusAns", vec![("battery", p.battery() as u128), ("margin", s8(p.margin()))]),
        NewChannelAns(p) => ("NewChannelAns", vec![("channel_freq_ack", b(p.channel_freq_ack())), ("data_rate_range_ack", b(p.data_rate_range_ack())), ("~ack", b(p.ack()))]),
        RXTimingSetupAns(_) => ("RXTimingSetupAns", vec![]),
        TXParamSetupAns(_) => ("TXParamSetupAns", vec![]),
        DlChannelAns(p) => ("DlChannelAns", vec![("channel_freq_ack", b(p.channel_freq_ack())), ("uplink_freq_ack", b(p.uplink_freq_ack())), ("~ack", b(p.ack()))]),
        DeviceTimeReq(_) => ("DeviceTimeReq", vec![]),
    }
}

fn snap_mac_down(c: &DownlinkMacCommand<'_>) -> (&'static str, Snap) {
    use DownlinkMacCommand::*;
    match c {
        LinkCheckAns(p) => ("LinkCheckAns", vec![("margin", p.margin() as u128), ("gateway_count", p.gateway_count() as u128)]),
        LinkADRReq(p) => {
            let m = p.channel_mask();
            let mut bits = 0u128;
            for i in 0..16 {
                if m.is_enabled(i) == Ok(true) {
                    bits |= 1 << i;
                }
            }
            let r = p.redundancy();
            (
                "LinkADRReq",
                vec![
                    ("data_rate", p.data_rate() as u8 as u128),
                    ("tx_power", p.tx_power() as u8 as u128),
                    ("channel_mask", le128(m.as_ref())),
                    ("~channel_mask.enabled", bits),
                    ("redundancy", r.raw_value() as u128),
                    ("~redundancy.chmaskcntl", r.channel_mask_control() as u128),
                    ("~redundancy.nbtrans", r.number_of_transmissions() as u128),
                ],
            )
        }
        DutyCycleReq(p) => ("DutyCycleReq", vec![("max_duty_cycle", p.max_duty_cycle_raw() as u128), ("~max_duty_cycle.f32", p.max_duty_cycle().to_bits() as u128)]),
        RXParamSetupReq(p) => {
            let d = p.dl_settings();
            let f = p.frequency();
            (
                "RXParamSetupReq",
                vec![
                    ("dl_settings", d.raw_value() as u128),
                    ("~dl_settings.rx1_dr_offset", d.rx1_dr_offset() as u128),
                    ("~dl_settings.rx2_data_rate", d.rx2_data_rate() as u8 as u128),
                    ("frequency", f.value() as u128),
                    ("~frequency.bytes", le128(f.as_ref())),
                ],
            )
        }
        DevStatusReq(_) => ("DevStatusReq", vec![]),
        NewChannelReq(p) => {
            let f = p.frequency();
            let (raw, mx, mn) = match p.data_rate_range() {
                Ok(r) => (r.raw_value() as u128, r.max_data_rate() as u128, r.min_data_rate() as u128),
                Err(_) => (ERR_MARK, ERR_MARK, ERR_MARK),
            };
            (
                "NewChannelReq",
                vec![("channel_index", p.channel_index() as u128), ("frequency", f.value() as u128), ("~frequency.bytes", le128(f.as_ref())), ("data_rate_range", raw), ("~data_rate_range.max", mx), ("~data_rate_range.min", mn)],
            )
        }
        RXTimingSetupReq(p) => ("RXTimingSetupReq", vec![("delay", p.delay() as u128)]),
        TXParamSetupReq(p) => ("TXParamSetupReq", vec![("downlink_dwell_time", b(p.downlink_dwell_time())), ("uplink_dwell_time", b(p.uplink_dwell_time())), ("max_eirp", p.max_eirp() as u128)]),
        DlChannelReq(p) => {
            let f = p.frequency();
            ("DlChannelReq", vec![("channel_index", p.channel_index() as u128), ("frequency", f.value() as u128), ("~frequency.bytes", le128(f.as_ref()))])
        }
        DeviceTimeAns(p) => ("DeviceTimeAns", vec![("seconds", p.seconds() as u128), ("nano_seconds", p.nano_seconds() as u128)]),
    }
}

fn snap_dut_up(c: &UplinkDUTCommand<'_>) -> (&'static str, Snap) {
    use UplinkDUTCommand::*;
    match c {
        // the payload itself is compared by the dedicated echo generator
        EchoIncPayloadAns(p) => ("EchoIncPayloadAns", vec![("payload_len", p.payload().len() as u128), ("payload_hash", fnv64(p.payload()) as u128)]),
        RxAppCntAns(p) => ("RxAppCntAns", vec![("rx_app_cnt", le128(p.bytes()))]),
        DutVersionsAns(p) => ("DutVersionsAns", vec![("versions_raw", le128(p.bytes()))]),
    }
}

fn snap_dut_down(c: &DownlinkDUTCommand<'_>) -> (&'static str, Snap) {
    use DownlinkDUTCommand::*;
    fn r<T: Into<u128>>(x: Result<T, lorawan::maccommands::Error>) -> u128 {
        x.map(|v| v.into()).unwrap_or(ERR_MARK)
    }
    match c {
        DutResetReq(_) => ("DutResetReq", vec![]),
        DutJoinReq(_) => ("DutJoinReq", vec![]),
        AdrBitChangeReq(p) => ("AdrBitChangeReq", vec![("adr_enable", r(p.adr_enable()))]),
        TxPeriodicityChangeReq(p) => ("TxPeriodicityChangeReq", vec![("periodicity", r(p.periodicity().map(|o| o.unwrap_or(0))))]),
        TxFramesCtrlReq(p) => ("TxFramesCtrlReq", vec![("frame_type", r(p.frame_type_override().map(|o| o.map(|x| 1 + x as u8).unwrap_or(0)))), ("bytes_hash", fnv64(p.bytes()) as u128)]),
        EchoIncPayloadReq(p) => ("EchoIncPayloadReq", vec![("payload_len", p.payload().len() as u128), ("payload_hash", fnv64(p.payload()) as u128)]),
        RxAppCntReq(_) => ("RxAppCntReq", vec![]),
        LinkCheckReq(_) => ("LinkCheckReq", vec![]),
        DutVersionsReq(_) => ("DutVersionsReq", vec![]),
    }
}

fn snap_mc_up(c: &UplinkRemoteSetup<'_>) -> (&'static str, Snap) {
    use UplinkRemoteSetup::*;
    match c {
        PackageVersionAns(p) => ("PackageVersionAns", vec![("package_identifier", p.package_identifier() as u128), ("package_version", p.package_version() as u128)]),
        McGroupStatusAns(p) => {
            let mut v: Snap = vec![("nb_total_groups", p.nb_total_groups() as u128), ("ans_group_mask", p.ans_group_mask() as u128)];
            let mut n = 0u128;
            let mut h = 0xcbf2_9ce4_8422_2325u64;
            for it in p.item_iterator().take(8) {
                n += 1;
                h = fnv64(&[&h.to_le_bytes()[..], &[it.mc_group_id()], &it.mc_addr().value().to_le_bytes()[..]].concat());
            }
            v.push(("items", n));
            v.push(("items_hash", h as u128));
            ("McGroupStatusAns", v)
        }
        McGroupSetupAns(p) => ("McGroupSetupAns", vec![("mc_group_id_header", p.mc_group_id_header() as u128)]),
        McGroupDeleteAns(p) => ("McGroupDeleteAns", vec![("mc_group_id_header", p.mc_group_id_header() as u128), ("mc_group_undefined", b(p.mc_group_undefined()))]),
        McClassCSessionAns(p) => ("McClassCSessionAns", vec![("bytes", le128(p.bytes()))]),
        McClassBSessionAns(p) => ("McClassBSessionAns", vec![("bytes", le128(p.bytes()))]),
    }
}

fn snap_mc_down(c: &DownlinkRemoteSetup<'_>) -> (&'static str, Snap) {
    use DownlinkRemoteSetup::*;
    match c {
        PackageVersionReq(_) => ("PackageVersionReq", vec![]),
        McGroupStatusReq(p) => ("McGroupStatusReq", vec![("req_group_mask", p.req_group_mask() as u128)]),
        McGroupSetupReq(p) => {
            let k = p.mc_key_decrypted(&DefaultCrypto::new(&AES128(KEK)));
            (
                "McGroupSetupReq",
                vec![
                    ("mc_group_id_header", p.mc_group_id_header() as u128),
                    ("mc_addr", p.mc_addr().value() as u128),
                    ("mc_key", le128(k.as_ref())),
                    ("min_mc_fcount", p.min_mc_fcount() as u128),
                    ("max_mc_fcount", p.max_mc_fcount() as u128),
                ],
            )
        }
        McGroupDeleteReq(p) => ("McGroupDeleteReq", vec![("mc_group_id_header", p.mc_group_id_header() as u128)]),
        McClassCSessionReq(p) => ("McClassCSessionReq", vec![("bytes", le128(p.bytes()))]),
        McClassBSessionReq(p) => ("McClassBSessionReq", vec![("bytes", le128(p.bytes()))]),
    }
}

/// Relations between derived accessors ('~' keys) and the fields, from the specifications.
fn check_derived(name: &str, s: &Snap) -> Result<(), (&'static str, String)> {
    let g = |k: &str| s.iter().find(|x| x.0 == k).map(|x| x.1);
    let fail = |what: &'static str| Err((what, format!("derived accessor {} inconsistent with the raw field: {:?}", what, s)));
    match name {
        "LinkADRAns" => {
            if g("~ack") != Some((g("channel_mask_ack") == Some(1) && g("data_rate_ack") == Some(1) && g("tx_power_ack") == Some(1)) as u128) {
                return fail("ack");
            }
        }
        "RXParamSetupAns" => {
            if g("~ack") != Some((g("channel_ack") == Some(1) && g("rx2_data_rate_ack") == Some(1) && g("rx1_dr_offset_ack") == Some(1)) as u128) {
                return fail("ack");
            }
        }
        "NewChannelAns" => {
            if g("~ack") != Some((g("channel_freq_ack") == Some(1) && g("data_rate_range_ack") == Some(1)) as u128) {
                return fail("ack");
            }
        }
        "DlChannelAns" => {
            if g("~ack") != Some((g("channel_freq_ack") == Some(1) && g("uplink_freq_ack") == Some(1)) as u128) {
                return fail("ack");
            }
        }
        "LinkADRReq" => {
            let r = g("redundancy").unwrap_or(0);
            if g("~channel_mask.enabled") != g("channel_mask") {
                return fail("channel_mask.is_enabled");
            }
            if g("~redundancy.chmaskcntl") != Some((r >> 4) & 7) || g("~redundancy.nbtrans") != Some(r & 15) {
                return fail("redundancy");
            }
        }
        "DutyCycleReq" => {
            let v = g("max_duty_cycle").unwrap_or(0) as u32;
            let e = 1.0f32 / (1u32 << (v & 15)) as f32;
            if g("~max_duty_cycle.f32") != Some(e.to_bits() as u128) {
                return fail("max_duty_cycle()");
            }
        }
        "RXParamSetupReq" => {
            let d = g("dl_settings").unwrap_or(0);
            if g("~dl_settings.rx1_dr_offset") != Some((d >> 4) & 7) || g("~dl_settings.rx2_data_rate") != Some(d & 15) {
                return fail("dl_settings");
            }
            if g("~frequency.bytes").map(|x| x * 100) != g("frequency") {
                return fail("frequency");
            }
        }
        "NewChannelReq" => {
            if g("~frequency.bytes").map(|x| x * 100) != g("frequency") {
                return fail("frequency");
            }
            let r = g("data_rate_range").unwrap_or(0);
            if r != ERR_MARK && (g("~data_rate_range.max") != Some(r >> 4) || g("~data_rate_range.min") != Some(r & 15)) {
                return fail("data_rate_range");
            }
        }
        "DlChannelReq" => {
            if g("~frequency.bytes").map(|x| x * 100) != g("frequency") {
                return fail("frequency");
            }
        }
        _ => {}
    }
    Ok(())
}

// ---- builders -----------------------------------------------------------------------------

trait B {
    fn set(&mut self, f: usize, v: u64) -> Result<(), String>;
    fn build(&self) -> Vec<u8>;
    fn len(&self) -> usize;
    fn ser(&self) -> &dyn SerializableMacCommand;
    /// The creator wrapped into its set's creator enum.
    fn wrap(self: Box<Self>) -> Box<dyn SerializableMacCommand>;
}

fn e2s<T, E: core::fmt::Debug>(r: Result<T, E>) -> Result<(), String> {
    r.map(|_| ()).map_err(|e| format!("{:?}", e))
}
fn freq3(v: u64) -> [u8; 3] {
    [v as u8, (v >> 8) as u8, (v >> 16) as u8]
}

macro_rules! builder {
    ($b:ident, $creator:ty, $wrap:path, |$c:ident, $f:ident, $v:ident| $body:expr) => {
        struct $b($creator);
        impl B for $b {
            #[allow(unused_variables)]
            fn set(&mut self, $f: usize, $v: u64) -> Result<(), String> {
                let $c = &mut self.0;
                $body
            }
            fn build(&self) -> Vec<u8> {
                self.0.build().to_vec()
            }
            fn len(&self) -> usize {
                self.0.len()
            }
            fn ser(&self) -> &dyn SerializableMacCommand {
                &self.0
            }
            fn wrap(self: Box<Self>) -> Box<dyn SerializableMacCommand> {
                Box::new($wrap(self.0))
            }
        }
    };
}

fn none() -> Result<(), String> {
    Ok(())
}

// mac-up
builder!(BLinkCheckReq, lorawan::maccommands::LinkCheckReqCreator, UplinkMacCommandCreator::LinkCheckReq, |c, f, v| none());
builder!(BLinkADRAns, LinkADRAnsCreator, UplinkMacCommandCreator::LinkADRAns, |c, f, v| {
    match f {
        0 => c.set_channel_mask_ack(v != 0),
        1 => c.set_data_rate_ack(v != 0),
        _ => c.set_tx_power_ack(v != 0),
    };
    Ok(())
});
builder!(BDutyCycleAns, DutyCycleAnsCreator, UplinkMacCommandCreator::DutyCycleAns, |c, f, v| none());
builder!(BRXParamSetupAns, RXParamSetupAnsCreator, UplinkMacCommandCreator::RXParamSetupAns, |c, f, v| {
    match f {
        0 => c.set_channel_ack(v != 0),
        1 => c.set_rx2_data_rate_ack(v != 0),
        _ => c.set_rx1_data_rate_offset_ack(v != 0),
    };
    Ok(())
});
builder!(BDevStatusAns, DevStatusAnsCreator, UplinkMacCommandCreator::DevStatusAns, |c, f, v| match f {
    0 => {
        c.set_battery(v as u8);
        Ok(())
    }
    _ => e2s(c.set_margin(v as u8 as i8)),
});
builder!(BNewChannelAns, NewChannelAnsCreator, UplinkMacCommandCreator::NewChannelAns, |c, f, v| {
    match f {
        0 => c.set_channel_frequency_ack(v != 0),
        _ => c.set_data_rate_range_ack(v != 0),
    };
    Ok(())
});
builder!(BRXTimingSetupAns, RXTimingSetupAnsCreator, UplinkMacCommandCreator::RXTimingSetupAns, |c, f, v| none());
builder!(BTXParamSetupAns, TXParamSetupAnsCreator, UplinkMacCommandCreator::TXParamSetupAns, |c, f, v| none());
builder!(BDlChannelAns, DlChannelAnsCreator, UplinkMacCommandCreator::DlChannelAns, |c, f, v| {
    match f {
        0 => c.set_channel_frequency_ack(v != 0),
        _ => c.set_uplink_frequency_exists_ack(v != 0),
    };
    Ok(())
});
builder!(BDeviceTimeReq, DeviceTimeReqCreator, UplinkMacCommandCreator::DeviceTimeReq, |c, f, v| none());

// mac-down
builder!(BLinkCheckAns, LinkCheckAnsCreator, DownlinkMacCommandCreator::LinkCheckAns, |c, f, v| {
    match f {
        0 => c.set_margin(v as u8),
        _ => c.set_gateway_count(v as u8),
    };
    Ok(())
});
builder!(BLinkADRReq, LinkADRReqCreator, DownlinkMacCommandCreator::LinkADRReq, |c, f, v| match f {
    0 => e2s(c.set_data_rate(v as u8)),
    1 => e2s(c.set_tx_power(v as u8)),
    2 => {
        c.set_channel_mask([v as u8, (v >> 8) as u8]);
        Ok(())
    }
    _ => {
        c.set_redundancy(v as u8);
        Ok(())
    }
});
builder!(BDutyCycleReq, DutyCycleReqCreator, DownlinkMacCommandCreator::DutyCycleReq, |c, f, v| e2s(c.set_max_duty_cycle(v as u8)));
builder!(BRXParamSetupReq, RXParamSetupReqCreator, DownlinkMacCommandCreator::RXParamSetupReq, |c, f, v| {
    match f {
        0 => c.set_dl_settings(v as u8),
        _ => c.set_frequency(&freq3(v)),
    };
    Ok(())
});
builder!(BDevStatusReq, DevStatusReqCreator, DownlinkMacCommandCreator::DevStatusReq, |c, f, v| none());
builder!(BNewChannelReq, NewChannelReqCreator, DownlinkMacCommandCreator::NewChannelReq, |c, f, v| {
    match f {
        0 => c.set_channel_index(v as u8),
        1 => c.set_frequency(&freq3(v)),
        _ => c.set_data_rate_range(v as u8),
    };
    Ok(())
});
builder!(BRXTimingSetupReq, RXTimingSetupReqCreator, DownlinkMacCommandCreator::RXTimingSetupReq, |c, f, v| e2s(c.set_delay(v as u8)));
builder!(BTXParamSetupReq, TXParamSetupReqCreator, DownlinkMacCommandCreator::TXParamSetupReq, |c, f, v| match f {
    0 => {
        c.set_downlink_dwell_time(v != 0);
        Ok(())
    }
    1 => {
        c.set_uplink_dwell_time(v != 0);
        Ok(())
    }
    _ => e2s(c.set_max_eirp(v as u8)),
});
builder!(BDlChannelReq, DlChannelReqCreator, DownlinkMacCommandCreator::DlChannelReq, |c, f, v| {
    match f {
        0 => c.set_channel_index(v as u8),
        _ => c.set_frequency(&freq3(v)),
    };
    Ok(())
});
builder!(BDeviceTimeAns, DeviceTimeAnsCreator, DownlinkMacCommandCreator::DeviceTimeAns, |c, f, v| match f {
    0 => {
        c.set_seconds(v as u32);
        Ok(())
    }
    _ => e2s(c.set_nano_seconds(v as u32)),
});

// dut-up
builder!(BRxAppCntAns, RxAppCntAnsCreator, UplinkDUTCommandCreator::RxAppCntAns, |c, f, v| {
    c.set_rx_app_cnt(v as u16);
    Ok(())
});
builder!(BDutVersionsAns, DutVersionsAnsCreator, UplinkDUTCommandCreator::DutVersionsAns, |c, f, v| {
    c.set_versions_raw(expand12(v));
    Ok(())
});
// dut-down (no setters)
builder!(BDutResetReq, DutResetReqCreator, DownlinkDUTCommandCreator::DutResetReq, |c, f, v| none());
builder!(BDutJoinReq, DutJoinReqCreator, DownlinkDUTCommandCreator::DutJoinReq, |c, f, v| none());
builder!(BAdrBitChangeReq, AdrBitChangeReqCreator, DownlinkDUTCommandCreator::AdrBitChangeReq, |c, f, v| none());
builder!(BTxPeriodicityChangeReq, TxPeriodicityChangeReqCreator, DownlinkDUTCommandCreator::TxPeriodicityChangeReq, |c, f, v| none());
builder!(BRxAppCntReq, RxAppCntReqCreator, DownlinkDUTCommandCreator::RxAppCntReq, |c, f, v| none());
builder!(BDutLinkCheckReq, lorawan::certification::LinkCheckReqCreator, DownlinkDUTCommandCreator::LinkCheckReq, |c, f, v| none());
builder!(BDutVersionsReq, DutVersionsReqCreator, DownlinkDUTCommandCreator::DutVersionsReq, |c, f, v| none());

// mc-up
builder!(BPackageVersionAns, PackageVersionAnsCreator, UplinkRemoteSetupCreator::PackageVersionAns, |c, f, v| {
    match f {
        0 => c.package_identifier(v as u8),
        _ => c.package_version(v as u8),
    };
    Ok(())
});
builder!(BMcGroupSetupAns, McGroupSetupAnsCreator, UplinkRemoteSetupCreator::McGroupSetupAns, |c, f, v| {
    c.mc_group_id_header(v as u8);
    Ok(())
});
builder!(BMcGroupDeleteAns, McGroupDeleteAnsCreator, UplinkRemoteSetupCreator::McGroupDeleteAns, |c, f, v| {
    match f {
        0 => c.mc_group_id_header(v as u8),
        _ => c.mc_group_undefined(v != 0),
    };
    Ok(())
});
builder!(BMcClassCSessionAns, McClassCSessionAnsCreator, UplinkRemoteSetupCreator::McClassCSessionAns, |c, f, v| none());
builder!(BMcClassBSessionAns, McClassBSessionAnsCreator, UplinkRemoteSetupCreator::McClassBSessionAns, |c, f, v| none());
// the only field of McGroupStatusAns handled generically; push() has its own generator
builder!(BMcGroupStatusAns, McGroupStatusAnsCreator, UplinkRemoteSetupCreator::McGroupStatusAns, |c, f, v| {
    c.nb_total_groups(v as u8);
    Ok(())
});

// mc-down
builder!(BPackageVersionReq, PackageVersionReqCreator, DownlinkRemoteSetupCreator::PackageVersionReq, |c, f, v| none());
builder!(BMcGroupStatusReq, McGroupStatusReqCreator, DownlinkRemoteSetupCreator::McGroupStatusReq, |c, f, v| {
    c.req_group_mask(v as u8);
    Ok(())
});
builder!(BMcGroupSetupReq, McGroupSetupReqCreator, DownlinkRemoteSetupCreator::McGroupSetupReq, |c, f, v| {
    match f {
        0 => c.mc_group_id_header(v as u8),
        1 => c.mc_addr(&McAddr::from_value(v as u32)),
        2 => c.mc_key(&DefaultNetworkCrypto::new(&AES128(KEK)), &keys::McKey::from(expand16(v))),
        3 => c.min_mc_fcount(v as u32),
        _ => c.max_mc_fcount(v as u32),
    };
    Ok(())
});
builder!(BMcGroupDeleteReq, McGroupDeleteReqCreator, DownlinkRemoteSetupCreator::McGroupDeleteReq, |c, f, v| {
    c.mc_group_id_header(v as u8);
    Ok(())
});
builder!(BMcClassCSessionReq, McClassCSessionReqCreator, DownlinkRemoteSetupCreator::McClassCSessionReq, |c, f, v| none());
builder!(BMcClassBSessionReq, McClassBSessionReqCreator, DownlinkRemoteSetupCreator::McClassBSessionReq, |c, f, v| none());

// ---- independent command descriptions -----------------------------------------------------

/// One settable field. `mask` lists the bits of the built command (index 0 = CID) the field
/// owns according to the specification.
struct F {
    name: &'static str,
    /// width of the setter's argument domain
    bits: u32,
    mask: Vec<(usize, u8)>,
    adm: fn(u64) -> bool,
    /// an admissible argument with the effect of `v` truncated to the field width
    trunc: fn(u64) -> u64,
    /// what the accessors must report after `set(v)`, v admissible: (key, acceptable values)
    exp: fn(u64) -> Vec<(&'static str, Vec<u128>)>,
    /// additional acceptable accessor outcome for an out-of-range value (the parser refuses it)
    oor_alt: Option<fn(u64) -> Vec<(&'static str, Vec<u128>)>>,
}

struct Cmd {
    set: usize,
    name: &'static str,
    cid: u8,
    plen: usize,
    fields: Vec<F>,
    make: fn() -> Box<dyn B>,
}

fn any(_: u64) -> bool {
    true
}
fn le15(v: u64) -> bool {
    v <= 15
}
fn idt(v: u64) -> u64 {
    v
}
fn lo4(v: u64) -> u64 {
    v & 15
}
fn lo2(v: u64) -> u64 {
    v & 3
}
fn lo3(v: u64) -> u64 {
    v & 7
}

fn fld(name: &'static str, bits: u32, mask: &[(usize, u8)], adm: fn(u64) -> bool, trunc: fn(u64) -> u64, exp: fn(u64) -> Vec<(&'static str, Vec<u128>)>) -> F {
    F { name, bits, mask: mask.to_vec(), adm, trunc, exp, oor_alt: None }
}

const EIRP: [u128; 16] = [8, 10, 12, 13, 14, 16, 18, 20, 21, 24, 26, 27, 29, 30, 33, 36];
const NS_STEP: u64 = 3_906_250; // 1/256 s

fn commands() -> Vec<Cmd> {
    macro_rules! mk {
        ($b:ident, $c:ty) => {
            || -> Box<dyn B> { Box::new($b(<$c>::new())) }
        };
    }
    macro_rules! e {
        ($k:expr, $v:expr) => {
            |v: u64| vec![($k, vec![($v)(v)])]
        };
    }
    let bit = |name: &'static str, key: &'static str, pos: u8| -> F {
        // boolean flag at bit `pos` of payload octet 1; the key is carried through a table
        // because fn pointers cannot capture
        let exp: fn(u64) -> Vec<(&'static str, Vec<u128>)> = match key {
            "channel_mask_ack" => |v| vec![("channel_mask_ack", vec![(v != 0) as u128])],
            "data_rate_ack" => |v| vec![("data_rate_ack", vec![(v != 0) as u128])],
            "tx_power_ack" => |v| vec![("tx_power_ack", vec![(v != 0) as u128])],
            "channel_ack" => |v| vec![("channel_ack", vec![(v != 0) as u128])],
            "rx2_data_rate_ack" => |v| vec![("rx2_data_rate_ack", vec![(v != 0) as u128])],
            "rx1_dr_offset_ack" => |v| vec![("rx1_dr_offset_ack", vec![(v != 0) as u128])],
            "channel_freq_ack" => |v| vec![("channel_freq_ack", vec![(v != 0) as u128])],
            "data_rate_range_ack" => |v| vec![("data_rate_range_ack", vec![(v != 0) as u128])],
            "uplink_freq_ack" => |v| vec![("uplink_freq_ack", vec![(v != 0) as u128])],
            "downlink_dwell_time" => |v| vec![("downlink_dwell_time", vec![(v != 0) as u128])],
            "uplink_dwell_time" => |v| vec![("uplink_dwell_time", vec![(v != 0) as u128])],
            _ => |v| vec![("mc_group_undefined", vec![(v != 0) as u128])],
        };
        fld(name, 1, &[(1, 1 << pos)], any, idt, exp)
    };
    let freq = |at: usize| -> F { fld("frequency", 24, &[(at, 0xff), (at + 1, 0xff), (at + 2, 0xff)], any, idt, |v| vec![("frequency", vec![v as u128 * 100])]) };
    let mut drr = fld("data_rate_range", 8, &[(5, 0xff)], |v| (v >> 4) >= (v & 15), idt, e!("data_rate_range", |v| v as u128));
    // a range with max < min is written as given and refused by the parser's accessor
    drr.oor_alt = Some(|_| vec![("data_rate_range", vec![ERR_MARK])]);
    let margin = fld(
        "margin",
        8,
        &[(2, 0x3f)],
        |v| (-32..=31).contains(&(v as u8 as i8)),
        |v| (((v as u8) << 2) as i8 >> 2) as u8 as u64,
        |v| vec![("margin", vec![s8(v as u8 as i8)])],
    );
    let nanos = fld(
        "nano_seconds",
        32,
        &[(5, 0xff)],
        |v| v < 1_000_000_000,
        |v| ((v / NS_STEP) & 0xff) * NS_STEP,
        // the 8-bit fraction counts 1/256 s; rounding down or to nearest are both accepted
        |v| {
            let lo = v / NS_STEP;
            let near = ((v + NS_STEP / 2) / NS_STEP).min(255);
            vec![("nano_seconds", vec![(lo * NS_STEP) as u128, (near * NS_STEP) as u128])]
        },
    );
    vec![
        // ---- LoRaWAN MAC, uplink ----
        Cmd { set: 0, name: "LinkCheckReq", cid: 0x02, plen: 0, fields: vec![], make: mk!(BLinkCheckReq, lorawan::maccommands::LinkCheckReqCreator) },
        Cmd {
            set: 0,
            name: "LinkADRAns",
            cid: 0x03,
            plen: 1,
            fields: vec![bit("channel_mask_ack", "channel_mask_ack", 0), bit("data_rate_ack", "data_rate_ack", 1), bit("tx_power_ack", "tx_power_ack", 2)],
            make: mk!(BLinkADRAns, LinkADRAnsCreator),
        },
        Cmd { set: 0, name: "DutyCycleAns", cid: 0x04, plen: 0, fields: vec![], make: mk!(BDutyCycleAns, DutyCycleAnsCreator) },
        Cmd {
            set: 0,
            name: "RXParamSetupAns",
            cid: 0x05,
            plen: 1,
            fields: vec![bit("channel_ack", "channel_ack", 0), bit("rx2_data_rate_ack", "rx2_data_rate_ack", 1), bit("rx1_data_rate_offset_ack", "rx1_dr_offset_ack", 2)],
            make: mk!(BRXParamSetupAns, RXParamSetupAnsCreator),
        },
        Cmd {
            set: 0,
            name: "DevStatusAns",
            cid: 0x06,
            plen: 2,
            fields: vec![fld("battery", 8, &[(1, 0xff)], any, idt, e!("battery", |v| v as u128)), margin],
            make: mk!(BDevStatusAns, DevStatusAnsCreator),
        },
        Cmd {
            set: 0,
            name: "NewChannelAns",
            cid: 0x07,
            plen: 1,
            fields: vec![bit("channel_frequency_ack", "channel_freq_ack", 0), bit("data_rate_range_ack", "data_rate_range_ack", 1)],
            make: mk!(BNewChannelAns, NewChannelAnsCreator),
        },
        Cmd { set: 0, name: "RXTimingSetupAns", cid: 0x08, plen: 0, fields: vec![], make: mk!(BRXTimingSetupAns, RXTimingSetupAnsCreator) },
        Cmd { set: 0, name: "TXParamSetupAns", cid: 0x09, plen: 0, fields: vec![], make: mk!(BTXParamSetupAns, TXParamSetupAnsCreator) },
        Cmd {
            set: 0,
            name: "DlChannelAns",
            cid: 0x0A,
            plen: 1,
            fields: vec![bit("channel_frequency_ack", "channel_freq_ack", 0), bit("uplink_frequency_exists_ack", "uplink_freq_ack", 1)],
            make: mk!(BDlChannelAns, DlChannelAnsCreator),
        },
        Cmd { set: 0, name: "DeviceTimeReq", cid: 0x0D, plen: 0, fields: vec![], make: mk!(BDeviceTimeReq, DeviceTimeReqCreator) },
        // ---- LoRaWAN MAC, downlink ----
        Cmd {
            set: 1,
            name: "LinkCheckAns",
            cid: 0x02,
            plen: 2,
            fields: vec![fld("margin", 8, &[(1, 0xff)], any, idt, e!("margin", |v| v as u128)), fld("gateway_count", 8, &[(2, 0xff)], any, idt, e!("gateway_count", |v| v as u128))],
            make: mk!(BLinkCheckAns, LinkCheckAnsCreator),
        },
        Cmd {
            set: 1,
            name: "LinkADRReq",
            cid: 0x03,
            plen: 4,
            fields: vec![
                fld("data_rate", 8, &[(1, 0xf0)], le15, lo4, e!("data_rate", |v| v as u128)),
                fld("tx_power", 8, &[(1, 0x0f)], le15, lo4, e!("tx_power", |v| v as u128)),
                fld("channel_mask", 16, &[(2, 0xff), (3, 0xff)], any, idt, e!("channel_mask", |v| v as u128)),
                fld("redundancy", 8, &[(4, 0xff)], any, idt, e!("redundancy", |v| v as u128)),
            ],
            make: mk!(BLinkADRReq, LinkADRReqCreator),
        },
        Cmd { set: 1, name: "DutyCycleReq", cid: 0x04, plen: 1, fields: vec![fld("max_duty_cycle", 8, &[(1, 0x0f)], le15, lo4, e!("max_duty_cycle", |v| v as u128))], make: mk!(BDutyCycleReq, DutyCycleReqCreator) },
        Cmd {
            set: 1,
            name: "RXParamSetupReq",
            cid: 0x05,
            plen: 4,
            fields: vec![fld("dl_settings", 8, &[(1, 0xff)], any, idt, e!("dl_settings", |v| v as u128)), freq(2)],
            make: mk!(BRXParamSetupReq, RXParamSetupReqCreator),
        },
        Cmd { set: 1, name: "DevStatusReq", cid: 0x06, plen: 0, fields: vec![], make: mk!(BDevStatusReq, DevStatusReqCreator) },
        Cmd {
            set: 1,
            name: "NewChannelReq",
            cid: 0x07,
            plen: 5,
            fields: vec![fld("channel_index", 8, &[(1, 0xff)], any, idt, e!("channel_index", |v| v as u128)), freq(2), drr],
            make: mk!(BNewChannelReq, NewChannelReqCreator),
        },
        Cmd { set: 1, name: "RXTimingSetupReq", cid: 0x08, plen: 1, fields: vec![fld("delay", 8, &[(1, 0x0f)], le15, lo4, e!("delay", |v| v as u128))], make: mk!(BRXTimingSetupReq, RXTimingSetupReqCreator) },
        Cmd {
            set: 1,
            name: "TXParamSetupReq",
            cid: 0x09,
            plen: 1,
            fields: vec![
                bit("downlink_dwell_time", "downlink_dwell_time", 5),
                bit("uplink_dwell_time", "uplink_dwell_time", 4),
                // MaxEIRP index -> dBm (LoRaWAN 1.0.4 table 5-? "TXParamSetupReq MaxEIRP")
                fld("max_eirp", 8, &[(1, 0x0f)], le15, lo4, |v| vec![("max_eirp", vec![EIRP[(v & 15) as usize]])]),
            ],
            make: mk!(BTXParamSetupReq, TXParamSetupReqCreator),
        },
        Cmd {
            set: 1,
            name: "DlChannelReq",
            cid: 0x0A,
            plen: 4,
            fields: vec![fld("channel_index", 8, &[(1, 0xff)], any, idt, e!("channel_index", |v| v as u128)), freq(2)],
            make: mk!(BDlChannelReq, DlChannelReqCreator),
        },
        Cmd {
            set: 1,
            name: "DeviceTimeAns",
            cid: 0x0D,
            plen: 5,
            fields: vec![fld("seconds", 32, &[(1, 0xff), (2, 0xff), (3, 0xff), (4, 0xff)], any, idt, e!("seconds", |v| v as u128)), nanos],
            make: mk!(BDeviceTimeAns, DeviceTimeAnsCreator),
        },
        // ---- certification, uplink (EchoIncPayloadAns has its own generator) ----
        Cmd { set: 2, name: "RxAppCntAns", cid: 0x09, plen: 2, fields: vec![fld("rx_app_cnt", 16, &[(1, 0xff), (2, 0xff)], any, idt, e!("rx_app_cnt", |v| v as u128))], make: mk!(BRxAppCntAns, RxAppCntAnsCreator) },
        Cmd {
            set: 2,
            name: "DutVersionsAns",
            cid: 0x7F,
            plen: 12,
            fields: vec![fld("versions_raw", 64, &[(1, 0xff), (2, 0xff), (3, 0xff), (4, 0xff), (5, 0xff), (6, 0xff), (7, 0xff), (8, 0xff), (9, 0xff), (10, 0xff), (11, 0xff), (12, 0xff)], any, idt, |v| vec![("versions_raw", vec![le128(&expand12(v))])])],
            make: mk!(BDutVersionsAns, DutVersionsAnsCreator),
        },
        // ---- certification, downlink: creators without setters ----
        Cmd { set: 3, name: "DutResetReq", cid: 0x01, plen: 0, fields: vec![], make: mk!(BDutResetReq, DutResetReqCreator) },
        Cmd { set: 3, name: "DutJoinReq", cid: 0x02, plen: 0, fields: vec![], make: mk!(BDutJoinReq, DutJoinReqCreator) },
        Cmd { set: 3, name: "AdrBitChangeReq", cid: 0x04, plen: 1, fields: vec![], make: mk!(BAdrBitChangeReq, AdrBitChangeReqCreator) },
        Cmd { set: 3, name: "TxPeriodicityChangeReq", cid: 0x06, plen: 1, fields: vec![], make: mk!(BTxPeriodicityChangeReq, TxPeriodicityChangeReqCreator) },
        Cmd { set: 3, name: "RxAppCntReq", cid: 0x09, plen: 0, fields: vec![], make: mk!(BRxAppCntReq, RxAppCntReqCreator) },
        Cmd { set: 3, name: "LinkCheckReq", cid: 0x20, plen: 0, fields: vec![], make: mk!(BDutLinkCheckReq, lorawan::certification::LinkCheckReqCreator) },
        Cmd { set: 3, name: "DutVersionsReq", cid: 0x7F, plen: 0, fields: vec![], make: mk!(BDutVersionsReq, DutVersionsReqCreator) },
        // ---- multicast setup, uplink ----
        Cmd {
            set: 4,
            name: "PackageVersionAns",
            cid: 0x00,
            plen: 2,
            fields: vec![fld("package_identifier", 8, &[(1, 0xff)], any, idt, e!("package_identifier", |v| v as u128)), fld("package_version", 8, &[(2, 0xff)], any, idt, e!("package_version", |v| v as u128))],
            make: mk!(BPackageVersionAns, PackageVersionAnsCreator),
        },
        Cmd { set: 4, name: "McGroupStatusAns", cid: 0x01, plen: 1, fields: vec![fld("nb_total_groups", 8, &[(1, 0x70)], |v| v <= 7, lo3, e!("nb_total_groups", |v| v as u128))], make: mk!(BMcGroupStatusAns, McGroupStatusAnsCreator) },
        Cmd { set: 4, name: "McGroupSetupAns", cid: 0x02, plen: 1, fields: vec![fld("mc_group_id_header", 8, &[(1, 0x03)], |v| v <= 3, lo2, e!("mc_group_id_header", |v| v as u128))], make: mk!(BMcGroupSetupAns, McGroupSetupAnsCreator) },
        Cmd {
            set: 4,
            name: "McGroupDeleteAns",
            cid: 0x03,
            plen: 1,
            fields: vec![fld("mc_group_id_header", 8, &[(1, 0x03)], |v| v <= 3, lo2, e!("mc_group_id_header", |v| v as u128)), bit("mc_group_undefined", "mc_group_undefined", 2)],
            make: mk!(BMcGroupDeleteAns, McGroupDeleteAnsCreator),
        },
        Cmd { set: 4, name: "McClassCSessionAns", cid: 0x04, plen: 4, fields: vec![], make: mk!(BMcClassCSessionAns, McClassCSessionAnsCreator) },
        Cmd { set: 4, name: "McClassBSessionAns", cid: 0x05, plen: 4, fields: vec![], make: mk!(BMcClassBSessionAns, McClassBSessionAnsCreator) },
        // ---- multicast setup, downlink ----
        Cmd { set: 5, name: "PackageVersionReq", cid: 0x00, plen: 0, fields: vec![], make: mk!(BPackageVersionReq, PackageVersionReqCreator) },
        Cmd { set: 5, name: "McGroupStatusReq", cid: 0x01, plen: 1, fields: vec![fld("req_group_mask", 8, &[(1, 0x0f)], le15, lo4, e!("req_group_mask", |v| v as u128))], make: mk!(BMcGroupStatusReq, McGroupStatusReqCreator) },
        Cmd {
            set: 5,
            name: "McGroupSetupReq",
            cid: 0x02,
            plen: 29,
            fields: vec![
                fld("mc_group_id_header", 8, &[(1, 0x03)], |v| v <= 3, lo2, e!("mc_group_id_header", |v| v as u128)),
                fld("mc_addr", 32, &[(2, 0xff), (3, 0xff), (4, 0xff), (5, 0xff)], any, idt, e!("mc_addr", |v| v as u128)),
                fld("mc_key", 64, &(6..22).map(|i| (i, 0xffu8)).collect::<Vec<_>>(), any, idt, |v| vec![("mc_key", vec![le128(&expand16(v))])]),
                fld("min_mc_fcount", 32, &[(22, 0xff), (23, 0xff), (24, 0xff), (25, 0xff)], any, idt, e!("min_mc_fcount", |v| v as u128)),
                fld("max_mc_fcount", 32, &[(26, 0xff), (27, 0xff), (28, 0xff), (29, 0xff)], any, idt, e!("max_mc_fcount", |v| v as u128)),
            ],
            make: mk!(BMcGroupSetupReq, McGroupSetupReqCreator),
        },
        Cmd { set: 5, name: "McGroupDeleteReq", cid: 0x03, plen: 1, fields: vec![fld("mc_group_id_header", 8, &[(1, 0x03)], |v| v <= 3, lo2, e!("mc_group_id_header", |v| v as u128))], make: mk!(BMcGroupDeleteReq, McGroupDeleteReqCreator) },
        Cmd { set: 5, name: "McClassCSessionReq", cid: 0x04, plen: 10, fields: vec![], make: mk!(BMcClassCSessionReq, McClassCSessionReqCreator) },
        Cmd { set: 5, name: "McClassBSessionReq", cid: 0x05, plen: 10, fields: vec![], make: mk!(BMcClassBSessionReq, McClassBSessionReqCreator) },
    ]
}

// ---- the field oracle ---------------------------------------------------------------------

fn full(bits: u32) -> u64 {
    if bits >= 64 {
        u64::MAX
    } else {
        (1u64 << bits) - 1
    }
}

fn vclass(f: &F, v: u64) -> &'static str {
    let top = full(f.bits);
    if (f.adm)(v) {
        if v == 0 {
            "zero"
        } else if v == top {
            "all-ones"
        } else if v < top && !(f.adm)(v + 1) {
            "max-admissible"
        } else if v.is_power_of_two() {
            "single-bit"
        } else {
            "admissible"
        }
    } else if v > 0 && (f.adm)(v - 1) {
        "first-out-of-range"
    } else if v == top {
        "out-of-range-all-ones"
    } else {
        "out-of-range"
    }
}

/// A random admissible argument for field `f`.
fn rand_adm(f: &F, rng: &mut Prng) -> u64 {
    for _ in 0..64 {
        let v = rng.next_u64() & full(f.bits);
        if (f.adm)(v) {
            return v;
        }
    }
    (f.trunc)(rng.next_u64() & full(f.bits))
}

fn get(s: &Snap, k: &str) -> Option<u128> {
    s.iter().find(|x| x.0 == k).map(|x| x.1)
}

fn swapped(exp: u128, got: u128, bytes: usize) -> bool {
    if bytes < 2 || exp == got {
        return false;
    }
    let mut e = exp.to_le_bytes()[..bytes].to_vec();
    e.reverse();
    le128(&e) == got
}

struct Verdict {
    class: &'static str,
    /// (failure kind, human text)
    fail: Option<(String, String)>,
}

fn ok(class: &'static str) -> Verdict {
    Verdict { class, fail: None }
}
fn bad(kind: &str, text: String) -> Verdict {
    Verdict { class: "violation", fail: Some((kind.to_string(), text)) }
}

/// Does snapshot `s` show field `f` holding (admissible) value `v`?
fn field_holds(f: &F, v: u64, s: &Snap) -> Result<(), (String, String)> {
    for (k, acc) in (f.exp)(v) {
        let got = get(s, k);
        match got {
            Some(g) if acc.contains(&g) => {}
            _ => {
                let g = got.unwrap_or(ERR_MARK);
                let nbytes = f.mask.len();
                let kind = if acc.iter().any(|e| swapped(*e, g, nbytes)) { "roundtrip-byteswapped" } else { "roundtrip-differs" };
                return Err((kind.into(), format!("accessor {} reports {:#x}, acceptable {:x?}", k, g, acc)));
            }
        }
    }
    Ok(())
}

/// Judges one `set(field, v)` on creator `c` whose state before the call was `before`.
fn judge_set(cmd: &Cmd, fi: usize, v: u64, before: &[u8], res: &Result<Result<(), String>, Trapped>, after: &[u8]) -> Verdict {
    let f = &cmd.fields[fi];
    let admissible = (f.adm)(v);
    match res {
        Err(t) => return bad("panic", format!("setter panicked: {} at {}", t.msg, t.loc)),
        Ok(Err(e)) => {
            if after != before {
                return bad("refused-but-changed", format!("setter returned Err({}) but the command changed", e));
            }
            if admissible {
                return bad("refused-admissible", format!("admissible value refused with Err({})", e));
            }
            return ok("refused");
        }
        Ok(Ok(())) => {}
    }
    if after.len() != 1 + cmd.plen || after.first() != Some(&cmd.cid) {
        return bad("wrong-shape", format!("built command has length {} / CID {:?}, specification says {} / {:#04x}", after.len(), after.first(), 1 + cmd.plen, cmd.cid));
    }
    let sa = match snap_one(cmd.set, after) {
        Ok((n, s)) if n == cmd.name => s,
        Ok((n, _)) => return bad("parses-as-other-command", format!("parsed as {}", n)),
        Err(e) => return bad("does-not-parse", e),
    };
    if let Err((acc, e)) = check_derived(cmd.name, &sa) {
        return Verdict { class: "violation", fail: Some((format!("derived-accessor:{}", acc), e)) };
    }
    let sb = match snap_one(cmd.set, before) {
        Ok((_, s)) => s,
        Err(e) => return bad("does-not-parse", format!("state before the call: {}", e)),
    };
    // keys this field determines
    let keys: Vec<&'static str> = (f.exp)((f.trunc)(v)).into_iter().map(|x| x.0).collect();
    let others_same = |sa: &Snap, sb: &Snap| -> Option<String> {
        for (k, val) in sa.iter() {
            if k.starts_with('~') || keys.contains(k) {
                continue;
            }
            if get(sb, k) != Some(*val) {
                return Some(format!("field {} changed from {:x?} to {:#x}", k, get(sb, k), val));
            }
        }
        None
    };
    if admissible {
        if let Err((k, t)) = field_holds(f, v, &sa) {
            return bad(&k, t);
        }
        if let Some(t) = others_same(&sa, &sb) {
            return bad("other-field-changed", t);
        }
        return ok("roundtrip");
    }
    // out of range and accepted: the field must hold the truncated value (or the parser must
    // refuse it) and no bit outside the field may have changed
    for (i, (x, y)) in before.iter().zip(after.iter()).enumerate() {
        let m = f.mask.iter().filter(|p| p.0 == i).fold(0u8, |a, p| a | p.1);
        if (x ^ y) & !m != 0 {
            return bad("out-of-range-disturbs-other-bits", format!("octet {} changed from {:#04x} to {:#04x}; the field owns mask {:#04x}", i, x, y, m));
        }
    }
    if let Some(alt) = f.oor_alt {
        if alt(v).iter().all(|(k, acc)| get(&sa, k).map(|g| acc.contains(&g)).unwrap_or(false)) {
            return ok("parser-refused");
        }
    }
    if let Err((_, t)) = field_holds(f, (f.trunc)(v), &sa) {
        return bad("out-of-range-wrong-value", format!("neither refused nor truncated to the field: {}", t));
    }
    if let Some(t) = others_same(&sa, &sb) {
        return bad("other-field-changed", t);
    }
    ok("truncated")
}

/// Runs scenario `sc` (0 fresh creator, 1 all fields pre-set, 2 same field pre-set to the
/// complement first) for `set(field, v)` and reports.
fn run_field(cmd: &Cmd, fi: usize, v: u64, sc: u8, rng: &mut Prng, col: &mut Collector) {
    let f = &cmd.fields[fi];
    let mut c = (cmd.make)();
    let mut script: Vec<(usize, u64)> = vec![];
    if sc > 0 {
        // the field's own earlier value first, the other fields after it: a setter that disturbs
        // its neighbours must not be able to do the damage during the pre-fill already
        let prev = if sc == 2 { (f.trunc)(!v & full(f.bits)) } else { rand_adm(f, rng) };
        script.push((fi, prev));
        for (gi, g) in cmd.fields.iter().enumerate() {
            if gi != fi {
                // neighbours all-ones half of the time: a cleared bit is then always visible
                let gv = if rng.bool() { (g.trunc)(full(g.bits)) } else { rand_adm(g, rng) };
                script.push((gi, if (g.adm)(gv) { gv } else { rand_adm(g, rng) }));
            }
        }
        for (gi, gv) in script.iter() {
            let r = trap(|| c.set(*gi, *gv));
            if r.is_err() {
                // judged when that field is the subject
                col.event("prefill_panicked");
                return;
            }
        }
    }
    let before = c.build();
    let res = trap(|| c.set(fi, v));
    let after = match trap(|| c.build()) {
        Ok(a) => a,
        Err(t) => {
            report(cmd, f.name, "build-panicked", vclass(f, v), &format!("build() panicked after set: {}", t.msg), json!({"value": v, "loc": t.loc}), col);
            return;
        }
    };
    let mut vd = judge_set(cmd, fi, v, &before, &res, &after);
    // a value that round-trips on a fresh creator but not over an earlier value of the same
    // field is the "later set overrides earlier" clause
    if sc > 0 {
        if let Some((k, _)) = &vd.fail {
            if k.starts_with("roundtrip") || k == "out-of-range-wrong-value" {
                let mut c0 = (cmd.make)();
                let b0 = c0.build();
                let r0 = trap(|| c0.set(fi, v));
                if let Ok(a0) = trap(|| c0.build()) {
                    if judge_set(cmd, fi, v, &b0, &r0, &a0).fail.is_none() {
                        vd.fail = vd.fail.map(|(_, t)| ("later-set-does-not-override".to_string(), t));
                    }
                }
            }
        }
    }
    col.eval(&format!("{}|{}|{}|{}|{}", SETS[cmd.set], cmd.name, f.name, vclass(f, v), vd.class));
    col.event(match vd.class {
        "roundtrip" => "field_roundtrip_ok",
        "refused" => "out_of_range_refused",
        "truncated" => "out_of_range_truncated",
        "parser-refused" => "out_of_range_refused_by_parser",
        _ => "field_violation",
    });
    if sc == 2 && vd.fail.is_none() {
        col.event("override_ok");
    }
    if col.want_sample() {
        col.sample(json!({"command": cmd.name, "field": f.name, "value": v, "scenario": sc, "before": hex(&before), "after": hex(&after), "verdict": vd.class}));
    }
    if let Some((kind, text)) = vd.fail {
        let scn = ["fresh creator", "all fields pre-set", "same field pre-set to the complement"][sc as usize];
        let oor = if (f.adm)(v) || kind == "later-set-does-not-override" || kind.starts_with("derived-accessor:") { "" } else { "|out-of-range" };
        let (subject, kind) = match kind.strip_prefix("derived-accessor:") {
            Some(acc) => (acc.to_string(), "derived-accessor".to_string()),
            None => (f.name.to_string(), kind),
        };
        report(
            cmd,
            &subject,
            &format!("{}{}", kind, oor),
            vclass(f, v),
            &text,
            json!({"value": v, "value_hex": format!("{:#x}", v), "scenario": scn,
                   "earlier_sets": script.iter().map(|(g, x)| json!([cmd.fields[*g].name, x])).collect::<Vec<_>>(),
                   "before": hex(&before), "after": hex(&after), "setter_result": format!("{:?}", res.as_ref().map_err(|t| &t.msg))}),
            col,
        );
    }
}

fn report(cmd: &Cmd, field: &str, kind: &str, vcls: &str, text: &str, mut detail: Value, col: &mut Collector) {
    let sig = format!("C19|{}|{}|{}|{}", MON[cmd.set], cmd.name, field, kind);
    if let Some(o) = detail.as_object_mut() {
        o.insert("command".into(), json!(cmd.name));
        o.insert("set".into(), json!(SETS[cmd.set]));
        o.insert("field".into(), json!(field));
        o.insert("value_class".into(), json!(vcls));
        o.insert("what".into(), json!(text));
    }
    col.violation(&sig, &format!("{}.{}: {}", cmd.name, field, text), detail);
}

/// Boundary values of a `bits`-wide argument.
fn boundaries(bits: u32) -> Vec<u64> {
    let top = full(bits);
    let mut v = vec![0, 1, 2, top, top - 1, top >> 1, (top >> 1) + 1, 0x0102_0304_0506_0708 & top, 0x8040_2010_0804_0201 & top, 0xff, 0x100, 0xffff, 0x1_0000, 0xff_ffff, 0x100_0000, 999_999_999, 1_000_000_000, 1_000_000_001, NS_STEP - 1, NS_STEP, 255 * NS_STEP, 256 * NS_STEP - 1];
    for k in 0..bits {
        v.push(1u64 << k);
        v.push((1u64 << k).wrapping_sub(1));
    }
    v.iter().map(|x| x & top).collect()
}

// ---- variable-length creators -------------------------------------------------------------

fn vreport(mon: &str, cmd: &str, field: &str, kind: &str, text: &str, detail: Value, col: &mut Collector) {
    let mut d = detail;
    if let Some(o) = d.as_object_mut() {
        o.insert("what".into(), json!(text));
    }
    col.violation(&format!("C19|{}|{}|{}|{}", mon, cmd, field, kind), &format!("{}.{}: {}", cmd, field, text), d);
}

/// EchoIncPayloadAnsCreator::payload with `len` octets; `over`: a longer/shorter payload was
/// set first (later set overrides earlier).
fn echo_case(len: usize, over: Option<usize>, rng: &mut Prng, col: &mut Collector) {
    let data = rng.bytes(len);
    let first = over.map(|n| rng.bytes(n));
    let lclass = match len {
        0 => "len=0",
        1..=241 => "len=1..241",
        _ => "len>241",
    };
    let r = trap(|| {
        let mut c = EchoIncPayloadAnsCreator::new();
        if let Some(f) = &first {
            c.payload(f);
        }
        let before = c.build().to_vec();
        c.payload(&data);
        (before, c.build().to_vec(), c.len(), c.cid())
    });
    let mut verdict = "roundtrip";
    match r {
        Err(t) => {
            if first.as_ref().map(|f| f.len() > 241).unwrap_or(false) && len <= 241 {
                // the panic belongs to the earlier, oversized call; judged in its own case
                col.event("prefill_panicked");
                return;
            }
            verdict = "violation";
            vreport("cert", "EchoIncPayloadAns", "payload", &format!("panic|{}", lclass), &format!("payload({} octets) panicked: {}", len, t.msg), json!({"len": len, "loc": t.loc, "earlier_payload_len": over}), col);
        }
        Ok((before, built, clen, cid)) => {
            let expect: Vec<u8> = std::iter::once(0x08u8).chain(data.iter().map(|x| x.wrapping_add(1))).collect();
            if (1..=241).contains(&len) {
                let parsed = trap(|| {
                    let mut it = parse_uplink_dut_commands(&built);
                    match (it.next(), it.next()) {
                        (Some(Ok(UplinkDUTCommand::EchoIncPayloadAns(p))), None) => Some(p.payload().to_vec()),
                        _ => None,
                    }
                });
                let what = if built != expect || clen != built.len() || cid != 0x08 {
                    Some(("wire-image-differs", format!("built {} (len() = {}), TS009 echo of the request is {}", hex(&built), clen, hex(&expect))))
                } else {
                    match parsed {
                        Err(t) => Some(("panic", format!("parsing the built command panicked: {}", t.msg))),
                        Ok(None) => Some(("does-not-parse", "the built command does not parse back as one EchoIncPayloadAns".to_string())),
                        Ok(Some(p)) if p[..] != expect[1..] => Some(("roundtrip-differs", format!("payload() = {}", hex(&p)))),
                        Ok(Some(_)) => None,
                    }
                };
                if let Some((k, t)) = what {
                    verdict = "violation";
                    let kind = if over.is_some() && k != "panic" { "later-set-does-not-override".to_string() } else { k.to_string() };
                    vreport("cert", "EchoIncPayloadAns", "payload", &kind, &t, json!({"len": len, "data": hex(&data), "earlier_payload_len": over, "built": hex(&built)}), col);
                }
            } else if len == 0 {
                // an empty echo is outside TS009 (and the parser's `new` refuses it): either no
                // change, or a bare CID (which the stream parser reports as truncated)
                if built == before || built == [0x08] {
                    verdict = "refused";
                } else {
                    verdict = "violation";
                    vreport("cert", "EchoIncPayloadAns", "payload", "out-of-range-wrong-value|len=0", "empty payload neither refused nor built as a bare CID", json!({"built": hex(&built), "before": hex(&before)}), col);
                }
            } else {
                // longer than the creator can hold: refused (no change) or truncated to 241
                let t241: Vec<u8> = expect[..242].to_vec();
                if built == before {
                    verdict = "refused";
                } else if built == t241 {
                    verdict = "truncated";
                } else {
                    verdict = "violation";
                    vreport("cert", "EchoIncPayloadAns", "payload", "out-of-range-wrong-value|len>241", "oversized payload neither refused nor truncated", json!({"len": len, "built_len": built.len()}), col);
                }
            }
        }
    }
    col.eval(&format!("dut-up|EchoIncPayloadAns|payload|{}{}|{}", lclass, if over.is_some() { "/override" } else { "" }, verdict));
    col.event(match verdict {
        "roundtrip" => "echo_roundtrip_ok",
        "violation" => "field_violation",
        _ => "out_of_range_refused",
    });
}

/// A script of McGroupStatusAnsCreator::push calls judged against the TS005 model.
fn push_case(nb: u8, ids: &[u8], rng: &mut Prng, col: &mut Collector) {
    let mut c = McGroupStatusAnsCreator::new();
    if trap(|| {
        c.nb_total_groups(nb);
    })
    .is_err()
    {
        return;
    }
    let mut model: Vec<(u8, u32)> = vec![];
    for (k, id) in ids.iter().enumerate() {
        let addr = rng.next_u32();
        let before = match trap(|| c.build().to_vec()) {
            Ok(b) => b,
            Err(_) => return,
        };
        let res = trap(|| c.push(*id, McAddr::from_value(addr)).map(|_| ()));
        let dup = model.iter().any(|m| m.0 == *id);
        let cls = if model.len() >= 4 {
            "fifth-push"
        } else if *id >= 8 {
            "group_id>=8"
        } else if *id >= 4 {
            "group_id=4..7"
        } else if dup {
            "duplicate-group_id"
        } else {
            "admissible"
        };
        let admissible = cls == "admissible";
        let detail = |extra: Value| json!({"nb_total_groups": nb, "group_ids_pushed_before": model.iter().map(|m| m.0).collect::<Vec<_>>(), "group_id": id, "mc_addr": addr, "push_number": k + 1, "before": hex(&before), "more": extra});
        let verdict;
        let after = trap(|| (c.build().to_vec(), c.len()));
        match (&res, &after) {
            (Err(t), _) => {
                verdict = "violation";
                vreport("mcast", "McGroupStatusAns", "push", &format!("panic|{}", cls), &format!("push panicked: {}", t.msg), detail(json!({"loc": t.loc})), col);
            }
            (_, Err(t)) => {
                verdict = "violation";
                vreport("mcast", "McGroupStatusAns", "push", &format!("build-panicked|{}", cls), &format!("build() panicked after push: {}", t.msg), detail(json!({"loc": t.loc})), col);
            }
            (Ok(Err(_)), Ok((a, _))) => {
                if *a != before {
                    verdict = "violation";
                    vreport("mcast", "McGroupStatusAns", "push", &format!("refused-but-changed|{}", cls), "push returned Err but the command changed", detail(json!({"after": hex(a)})), col);
                } else if admissible {
                    verdict = "violation";
                    vreport("mcast", "McGroupStatusAns", "push", "refused-admissible", "admissible push refused", detail(json!({})), col);
                } else {
                    verdict = "refused";
                }
            }
            (Ok(Ok(())), Ok((a, clen))) => {
                // accepted: the command must read back as the model with this entry added
                // (admissible), or with the group id truncated to its 2 bits (out of range)
                let mut cands: Vec<Vec<(u8, u32)>> = vec![];
                if admissible {
                    let mut m = model.clone();
                    m.push((*id, addr));
                    cands.push(m);
                } else if model.len() < 4 && !model.iter().any(|m| m.0 == *id & 3) {
                    let mut m = model.clone();
                    m.push((*id & 3, addr));
                    cands.push(m);
                }
                let got = trap(|| {
                    let mut it = parse_uplink_multicast_commands(a);
                    match (it.next(), it.next()) {
                        (Some(Ok(UplinkRemoteSetup::McGroupStatusAns(p))), None) => {
                            Some((p.nb_total_groups(), p.ans_group_mask(), p.item_iterator().take(8).map(|i| (i.mc_group_id(), i.mc_addr().value())).collect::<Vec<_>>(), 1 + p.len()))
                        }
                        _ => None,
                    }
                });
                let okay = match &got {
                    Ok(Some((gnb, gmask, items, plen))) => {
                        *plen == a.len()
                            && *clen == a.len()
                            && *gnb == nb & 7
                            && cands.iter().any(|m| {
                                let mask = m.iter().fold(0u8, |x, e| x | 1 << e.0);
                                let mut sorted = m.clone();
                                sorted.sort();
                                *gmask == mask && (items == m || *items == sorted)
                            })
                    }
                    _ => false,
                };
                if okay {
                    verdict = if admissible { "roundtrip" } else { "truncated" };
                    if let Some(m) = cands.into_iter().next() {
                        model = m;
                    }
                } else {
                    verdict = "violation";
                    let kind = if admissible { "roundtrip-differs".to_string() } else { format!("out-of-range-wrong-value|{}", cls) };
                    vreport(
                        "mcast",
                        "McGroupStatusAns",
                        "push",
                        &kind,
                        if admissible { "the built command does not read back as the groups pushed" } else { "inadmissible push neither refused nor truncated to the 2-bit group id; the command no longer reads back as a McGroupStatusAns with the groups pushed and NbTotalGroups kept" },
                        detail(json!({"after": hex(a), "creator_len": clen, "parsed": format!("{:?}", got.as_ref().map_err(|t| &t.msg))})),
                        col,
                    );
                }
            }
        }
        col.eval(&format!("mc-up|McGroupStatusAns|push|{}|{}", cls, verdict));
        col.event(match verdict {
            "roundtrip" => "push_roundtrip_ok",
            "violation" => "field_violation",
            "refused" => "out_of_range_refused",
            _ => "out_of_range_truncated",
        });
        if verdict == "violation" {
            // the creator's state is no longer modelled
            return;
        }
    }
    // A later set of NbTotalGroups (the order a device answering a McGroupStatusReq uses: items
    // first, total afterwards) overrides the earlier value and disturbs neither the
    // AnsGroupMask nor the items.
    let nb2 = rng.below(8) as u8;
    let r = trap(|| {
        c.nb_total_groups(nb2);
        c.build().to_vec()
    });
    match r {
        Err(t) => vreport("mcast", "McGroupStatusAns", "nb_total_groups", "panic|after-push", &format!("nb_total_groups after push panicked: {}", t.msg), json!({"nb": nb2}), col),
        Ok(a) => {
            let got = trap(|| {
                let mut it = parse_uplink_multicast_commands(&a);
                match (it.next(), it.next()) {
                    (Some(Ok(UplinkRemoteSetup::McGroupStatusAns(p))), None) => Some((p.nb_total_groups(), p.ans_group_mask(), p.item_iterator().take(8).map(|i| (i.mc_group_id(), i.mc_addr().value())).collect::<Vec<_>>())),
                    _ => None,
                }
            });
            let mask = model.iter().fold(0u8, |x, e| x | 1 << e.0);
            let mut sorted = model.clone();
            sorted.sort();
            let ok = matches!(&got, Ok(Some((gnb, gmask, items))) if *gnb == nb2 && *gmask == mask && (*items == model || *items == sorted));
            col.eval(&format!("mc-up|McGroupStatusAns|nb_total_groups-after-push|items={}|{}", model.len(), if ok { "roundtrip" } else { "violation" }));
            if !ok {
                vreport(
                    "mcast",
                    "McGroupStatusAns",
                    "nb_total_groups",
                    "set-after-push-disturbs-other-fields",
                    "setting NbTotalGroups after the items were pushed changed the AnsGroupMask / items or does not read back",
                    json!({"nb": nb2, "groups_pushed": model.iter().map(|m| m.0).collect::<Vec<_>>(), "built": hex(&a), "parsed": format!("{:?}", got.as_ref().map_err(|t| &t.msg))}),
                    col,
                );
            }
        }
    }
}

/// McGroupStatusReqCreator: req_group_mask(mask) then req_group(g) for every g ("set just the bit").
fn req_group_case(mask: u8, col: &mut Collector) {
    for g in 0..=255u8 {
        let r = trap(|| {
            let mut c = McGroupStatusReqCreator::new();
            c.req_group_mask(mask);
            let before = c.build().to_vec();
            c.req_group(g);
            (before, c.build().to_vec())
        });
        let cls = if g <= 3 { "admissible" } else { "out-of-range" };
        let mut verdict = "roundtrip";
        match r {
            Err(t) => {
                verdict = "violation";
                vreport("mcast", "McGroupStatusReq", "req_group", &format!("panic|{}", cls), &format!("req_group({}) panicked: {}", g, t.msg), json!({"mask": mask, "group": g}), col);
            }
            Ok((before, after)) => {
                let got = snap_one(5, &after).ok().and_then(|(n, s)| if n == "McGroupStatusReq" { get(&s, "req_group_mask") } else { None });
                let base = (mask & 15) as u128;
                let set = base | 1 << (g & 3);
                let rfu_same = after.len() == 2 && before.len() == 2 && (after[1] ^ before[1]) & 0xf0 == 0;
                let good = if g <= 3 { got == Some(set) } else { got == Some(set) || got == Some(base) };
                if !good || !rfu_same {
                    verdict = "violation";
                    let kind = if g <= 3 { "roundtrip-differs" } else { "out-of-range-wrong-value" };
                    vreport("mcast", "McGroupStatusReq", "req_group", kind, "req_group does not add exactly the requested group bit", json!({"mask": mask, "group": g, "before": hex(&before), "after": hex(&after)}), col);
                } else if g > 3 {
                    verdict = if got == Some(base) && base != set { "refused" } else { "truncated" };
                }
            }
        }
        col.eval(&format!("mc-down|McGroupStatusReq|req_group|{}|{}", cls, verdict));
        col.event(match verdict {
            "roundtrip" => "field_roundtrip_ok",
            "violation" => "field_violation",
            "refused" => "out_of_range_refused",
            _ => "out_of_range_truncated",
        });
    }
}

// ---- sequences ----------------------------------------------------------------------------

enum Elem {
    Creator(Box<dyn B>),
    Wrapped(Box<dyn SerializableMacCommand>),
}

fn sequence_case(rng: &mut Prng, col: &mut Collector) {
    let cmds = cmds();
    let set = rng.below(6) as usize;
    let pool: Vec<&Cmd> = cmds.iter().filter(|c| c.set == set).collect();
    let n = rng.below(9) as usize;
    // expected stream, command by command: (name, wire image, snapshot of the lone command)
    let mut elems: Vec<Elem> = vec![];
    let mut expect: Vec<(&'static str, Vec<u8>)> = vec![];
    for _ in 0..n {
        let c = *rng.pick(&pool);
        let mut bld = (c.make)();
        let mut okay = true;
        for (fi, f) in c.fields.iter().enumerate() {
            let v = rand_adm(f, rng);
            if !matches!(trap(|| bld.set(fi, v)), Ok(Ok(()))) {
                okay = false;
            }
        }
        let img = match trap(|| bld.build()) {
            Ok(i) if okay => i,
            _ => {
                col.event("prefill_panicked");
                return;
            }
        };
        // a command that does not round-trip alone is the field generator's business
        if !matches!(snap_one(set, &img), Ok((nm, _)) if nm == c.name) {
            col.event("sequence_skipped_unparseable_element");
            return;
        }
        expect.push((c.name, img));
        if rng.bool() {
            elems.push(Elem::Creator(bld));
        } else {
            match trap(|| bld.wrap()) {
                Ok(w) => elems.push(Elem::Wrapped(w)),
                Err(_) => return,
            }
        }
    }
    // a trailing variable-length command (it runs to the end of the stream, so only last)
    let mut echo = EchoIncPayloadAnsCreator::new();
    let mut status = McGroupStatusAnsCreator::new();
    let mut tail: Option<&dyn SerializableMacCommand> = None;
    if set == 2 && rng.bool() {
        let dl = rng_len(rng, 1, 60);
        let d = rng.bytes(dl);
        if trap(|| {
            echo.payload(&d);
        })
        .is_ok()
        {
            expect.push(("EchoIncPayloadAns", echo.build().to_vec()));
            tail = Some(&echo);
        }
    } else if set == 4 && rng.bool() {
        let mut ids = vec![0u8, 1, 2, 3];
        let k = rng.below(5) as usize;
        for i in 0..4 {
            let j = i + rng.below(4 - i as u64) as usize;
            ids.swap(i, j);
        }
        let nb = rng.below(8) as u8;
        let a = rng.next_u32();
        if trap(|| {
            status.nb_total_groups(nb);
            for id in &ids[..k] {
                let _ = status.push(*id, McAddr::from_value(a ^ *id as u32));
            }
        })
        .is_ok()
        {
            expect.push(("McGroupStatusAns", status.build().to_vec()));
            tail = Some(&status);
        }
    }
    let mut refs: Vec<&dyn SerializableMacCommand> = elems
        .iter()
        .map(|e| match e {
            Elem::Creator(b) => b.ser(),
            Elem::Wrapped(w) => w.as_ref(),
        })
        .collect();
    if let Some(t) = tail {
        refs.push(t);
    }
    let total: usize = expect.iter().map(|e| e.1.len()).sum();
    let flat: Vec<u8> = expect.iter().flat_map(|e| e.1.iter().copied()).collect();
    let slack = *rng.pick(&[0usize, 0, 1, 7]);
    let short = total > 0 && rng.chance(1, 8);
    let buflen = if short { rng.below(total as u64) as usize } else { total + slack };
    let mut buf = vec![0xA5u8; buflen];
    let r = trap(|| (mac_commands_len(&refs), build_mac_commands(&refs, &mut buf[..])));
    let cls = format!("{}|sequence|n={}|{}", SETS[set], refs.len().min(9), if short { "short-buffer" } else if slack > 0 { "slack" } else { "exact" });
    let det = |buf: &[u8]| json!({"set": SETS[set], "commands": expect.iter().map(|e| json!([e.0, hex(&e.1)])).collect::<Vec<_>>(), "buffer_len": buflen, "buffer": hex(buf)});
    // build_mac_commands / mac_commands_len are shared by all sets; only parse-side failures
    // are keyed by the set
    let sig = |k: &str| match k {
        "parse-panic" | "does-not-parse" | "parses-to-other-sequence" => format!("C19|sequence|{}|{}", SETS[set], k),
        _ => format!("C19|sequence|build_mac_commands|{}", k),
    };
    let mut verdict = "roundtrip";
    match r {
        Err(t) => {
            verdict = "violation";
            col.violation(&sig("panic"), &format!("build_mac_commands / mac_commands_len panicked: {}", t.msg), det(&buf));
        }
        Ok((mlen, res)) => {
            if mlen != total {
                verdict = "violation";
                col.violation(&sig("mac_commands_len-differs"), &format!("mac_commands_len = {}, the commands' own images add up to {}", mlen, total), det(&buf));
            }
            match res {
                Err(_) if short => verdict = "refused",
                Err(e) => {
                    verdict = "violation";
                    col.violation(&sig("refused-sufficient-buffer"), &format!("build_mac_commands refused a sufficient buffer: {:?}", e), det(&buf));
                }
                Ok(_) if short => {
                    verdict = "violation";
                    col.violation(&sig("short-buffer-accepted"), "build_mac_commands wrote a sequence into a buffer that is too small", det(&buf));
                }
                Ok(nw) => {
                    if nw != mlen || buf[..nw.min(buf.len())] != flat[..] {
                        verdict = "violation";
                        col.violation(&sig("stream-differs"), &format!("returned length {} (mac_commands_len {}), stream is not the concatenation of the commands", nw, mlen), det(&buf));
                    } else if buf[nw..].iter().any(|x| *x != 0xA5) {
                        verdict = "violation";
                        col.violation(&sig("wrote-past-end"), "octets after the returned length were modified", det(&buf));
                    } else {
                        // parse back: same sequence, same boundaries, same field values
                        match trap(|| snap_seq(set, &buf[..nw])) {
                            Err(t) => {
                                verdict = "violation";
                                col.violation(&sig("parse-panic"), &format!("parsing the built stream panicked: {}", t.msg), det(&buf));
                            }
                            Ok(Err(e)) => {
                                verdict = "violation";
                                col.violation(&sig("does-not-parse"), &format!("the built stream does not parse back: {}", e), det(&buf));
                            }
                            Ok(Ok(items)) => {
                                let mut same = items.len() == expect.len() && items.iter().map(|i| i.1).sum::<usize>() == mlen;
                                if same {
                                    for (it, ex) in items.iter().zip(expect.iter()) {
                                        let lone = snap_one(set, &ex.1).map(|x| x.1).unwrap_or_default();
                                        if it.0 != ex.0 || it.1 != ex.1.len() || it.2 != lone {
                                            same = false;
                                        }
                                    }
                                }
                                if !same {
                                    verdict = "violation";
                                    col.violation(
                                        &sig("parses-to-other-sequence"),
                                        "the built stream parses back to a different sequence",
                                        json!({"built": det(&buf), "parsed": items.iter().map(|i| json!([i.0, i.1])).collect::<Vec<_>>()}),
                                    );
                                } else {
                                    col.event("sequence_roundtrip_ok");
                                }
                            }
                        }
                    }
                }
            }
        }
    }
    col.eval(&format!("{}|{}", cls, verdict));
    if verdict == "refused" {
        col.event("sequence_short_buffer_refused");
    }
    if col.want_sample() {
        col.sample(det(&buf));
    }
}

fn rng_len(rng: &mut Prng, lo: u64, hi: u64) -> usize {
    rng.range(lo, hi) as usize
}

// ---- text forms ---------------------------------------------------------------------------

fn treport(ty: &str, kind: &str, text: String, detail: Value, col: &mut Collector) {
    col.violation(&format!("C19|text|{}|{}", ty, kind), &format!("{}: {}", ty, text), detail);
}

fn vclass_int(v: u64, bits: u32) -> &'static str {
    if v == 0 {
        "zero"
    } else if v == full(bits) {
        "all-ones"
    } else if v < 16 {
        "needs-padding-1-digit"
    } else if v <= full(bits) >> 8 {
        "needs-padding"
    } else {
        "full-width"
    }
}

macro_rules! wire_text {
    ($ty:ident, $n:expr, $int:ty, $v:expr, $col:expr) => {{
        let v: u64 = $v;
        let want = format!("{:0w$x}", v, w = 2 * $n);
        let r = trap(|| {
            let x = parser::$ty::from_value(v as $int);
            let s = x.to_string();
            let back = parser::$ty::from_str(&s).ok();
            let up = parser::$ty::from_str(&s.to_uppercase()).ok();
            (x, s, back, up, *x.as_wire_bytes(), x.value() as u64)
        });
        let name = concat!("parser::", stringify!($ty));
        let mut verdict = "roundtrip";
        match r {
            Err(t) => {
                verdict = "violation";
                treport(name, "panic", format!("to_string/from_str panicked: {}", t.msg), json!({"value": v, "loc": t.loc}), $col);
            }
            Ok((x, s, back, _up, wire, val)) => {
                let le = v.to_le_bytes();
                if wire[..] != le[..$n] || val != v {
                    verdict = "violation";
                    treport(name, "wire-value-differs", format!("from_value({:#x}) has wire octets {} / value {:#x}", v, hex(&wire), val), json!({"value": v}), $col);
                } else if s.len() != 2 * $n {
                    verdict = "violation";
                    treport(name, "display-width", format!("to_string() = {:?} is not {} hex digits", s, 2 * $n), json!({"value": v, "text": s}), $col);
                } else if !s.eq_ignore_ascii_case(&want) {
                    verdict = "violation";
                    treport(name, "display-not-msb-first-hex", format!("to_string() = {:?}, MSB-first hex of the value is {:?}", s, want), json!({"value": v, "text": s}), $col);
                } else if back != Some(x) {
                    verdict = "violation";
                    treport(name, "parse-of-display-differs", format!("from_str({:?}) = {:?}", s, back), json!({"value": v, "text": s}), $col);
                }
            }
        }
        $col.eval(&format!("text|{}|{}|{}", name, vclass_int(v, 8 * $n), verdict));
        if verdict == "roundtrip" {
            $col.event("text_roundtrip_ok");
        }
    }};
}

macro_rules! key_text {
    ($ty:ident, $bytes:expr, $col:expr) => {{
        let bytes: [u8; 16] = $bytes;
        let want = hex(&bytes);
        let r = trap(|| {
            let k = keys::$ty::from(bytes);
            let s = k.to_string();
            let back = keys::$ty::from_str(&s).ok();
            (k, s, back)
        });
        let name = concat!("keys::", stringify!($ty));
        let mut verdict = "roundtrip";
        match r {
            Err(t) => {
                verdict = "violation";
                treport(name, "panic", format!("to_string/from_str panicked: {}", t.msg), json!({"key": want, "loc": t.loc}), $col);
            }
            Ok((k, s, back)) => {
                if s.len() != 32 {
                    verdict = "violation";
                    treport(name, "display-width", format!("to_string() = {:?} is not 32 hex digits", s), json!({"key": want}), $col);
                } else if !s.eq_ignore_ascii_case(&want) {
                    verdict = "violation";
                    treport(name, "display-not-msb-first-hex", format!("to_string() = {:?}, key octets are {}", s, want), json!({"key": want}), $col);
                } else if back != Some(k) {
                    verdict = "violation";
                    treport(name, "parse-of-display-differs", format!("from_str({:?}) = {:?}", s, back), json!({"key": want}), $col);
                }
            }
        }
        let cls = if bytes.iter().all(|x| *x == 0) { "zero" } else if bytes[0] < 16 { "leading-zero-digit" } else { "random" };
        $col.eval(&format!("text|{}|{}|{}", name, cls, verdict));
        if verdict == "roundtrip" {
            $col.event("text_roundtrip_ok");
        }
    }};
}

/// keys::DevEui / AppEui and their conversions to parser::DevEui / JoinEui.
macro_rules! eui_text {
    ($kty:ident, $pty:ident, $v:expr, $col:expr) => {{
        let v: u64 = $v;
        let wire = v.to_le_bytes();
        let want = format!("{:016x}", v);
        let r = trap(|| {
            let k = keys::$kty::from(wire);
            let s = k.to_string();
            let back = keys::$kty::from_str(&s).ok();
            let p = parser::$pty::from(k);
            let ps = p.to_string();
            let k2 = keys::$kty::from(parser::$pty::from_wire_bytes(wire));
            let k3 = keys::$kty::from(p);
            let via_text_p = parser::$pty::from_str(&s).ok();
            let via_text_k = keys::$kty::from_str(&ps).ok();
            (k, s, back, p, ps, k2, k3, via_text_p, via_text_k)
        });
        let name = concat!("keys::", stringify!($kty));
        let mut verdict = "roundtrip";
        match r {
            Err(t) => {
                verdict = "violation";
                treport(name, "panic", format!("text form or conversion panicked: {}", t.msg), json!({"value": want, "loc": t.loc}), $col);
            }
            Ok((k, s, back, p, ps, k2, k3, via_p, via_k)) => {
                if s.len() != 16 {
                    verdict = "violation";
                    treport(name, "display-width", format!("to_string() = {:?} is not 16 hex digits", s), json!({"value": want}), $col);
                } else if !s.eq_ignore_ascii_case(&want) {
                    verdict = "violation";
                    treport(name, "display-not-msb-first-hex", format!("to_string() = {:?} for wire octets {}, MSB-first is {:?}", s, hex(&wire), want), json!({"value": want}), $col);
                } else if back != Some(k) {
                    verdict = "violation";
                    treport(name, "parse-of-display-differs", format!("from_str({:?}) = {:?}", s, back), json!({"value": want}), $col);
                } else if *p.as_wire_bytes() != wire || k2 != k || k3 != k {
                    verdict = "violation";
                    treport(name, "conversion-changes-wire-value", format!("{} <-> parser::{} does not keep the wire octets", name, stringify!($pty)), json!({"value": want, "parser_wire": hex(p.as_wire_bytes())}), $col);
                } else if !ps.eq_ignore_ascii_case(&s) || via_p != Some(p) || via_k != Some(k) {
                    verdict = "violation";
                    treport(name, "conversion-does-not-commute-with-text", format!("{:?} vs parser text {:?}; cross-parsed {:?} / {:?}", s, ps, via_p, via_k), json!({"value": want}), $col);
                } else {
                    $col.event("eui_conversion_ok");
                }
            }
        }
        $col.eval(&format!("text|{}|{}|{}", name, vclass_int(v, 64), verdict));
        if verdict == "roundtrip" {
            $col.event("text_roundtrip_ok");
        }
    }};
}

fn text_value(rng: &mut Prng, bits: u32, i: u64) -> u64 {
    let top = full(bits);
    match i {
        0 => 0,
        1 => top,
        2 => 1,
        3 => 0x0102_0304_0506_0708 & top,
        4 => 0xf,
        5 => 0x10,
        6 => top >> 4,
        7 => top >> 8,
        _ => match rng.below(4) {
            0 => rng.next_u64() & top & (top >> (4 * rng.below(bits as u64 / 4))),
            _ => rng.next_u64() & top,
        },
    }
}

fn text_case(ty: u64, i: u64, rng: &mut Prng, col: &mut Collector) {
    match ty {
        0 => wire_text!(DevAddr, 4, u32, text_value(rng, 32, i), col),
        1 => wire_text!(McAddr, 4, u32, text_value(rng, 32, i), col),
        2 => wire_text!(DevEui, 8, u64, text_value(rng, 64, i), col),
        3 => wire_text!(JoinEui, 8, u64, text_value(rng, 64, i), col),
        4 => wire_text!(JoinNonce, 3, u32, text_value(rng, 24, i), col),
        5 => wire_text!(NetId, 3, u32, text_value(rng, 24, i), col),
        6 => wire_text!(DevNonce, 2, u16, text_value(rng, 16, i), col),
        7 => eui_text!(DevEui, DevEui, text_value(rng, 64, i), col),
        8 => eui_text!(AppEui, JoinEui, text_value(rng, 64, i), col),
        _ => {
            let mut k: [u8; 16] = rng.arr();
            match i {
                0 => k = [0; 16],
                1 => k = [0xff; 16],
                2 => k = [0x00, 0x11, 0x22, 0x33, 0x44, 0x55, 0x66, 0x77, 0x88, 0x99, 0xaa, 0xbb, 0xcc, 0xdd, 0xee, 0xff],
                3 => k[0] &= 0x0f,
                4 => k[15] = 0,
                _ => {}
            }
            match ty {
                9 => key_text!(AppKey, k, col),
                10 => key_text!(NwkSKey, k, col),
                11 => key_text!(AppSKey, k, col),
                12 => key_text!(McKey, k, col),
                13 => key_text!(McNetSKey, k, col),
                14 => key_text!(McAppSKey, k, col),
                15 => key_text!(McRootKey, k, col),
                16 => key_text!(McKEKey, k, col),
                _ => key_text!(GenAppKey, k, col),
            }
        }
    }
}
const N_TEXT_TYPES: u64 = 18;

// ---- monitor ------------------------------------------------------------------------------

fn cmds() -> &'static Vec<Cmd> {
    static C: std::sync::OnceLock<Vec<Cmd>> = std::sync::OnceLock::new();
    C.get_or_init(commands)
}

/// Work units of the "fields" generator: (command, field, chunk). Narrow arguments (<= 16
/// bits) are swept exhaustively in chunks of 256 values; wide ones get a boundary chunk and
/// `wide_chunks` chunks of 256 random values.
fn units(wide_chunks: u64) -> Vec<(usize, usize, u64)> {
    let mut u = vec![];
    for (ci, c) in cmds().iter().enumerate() {
        for (fi, f) in c.fields.iter().enumerate() {
            let n = if f.bits <= 16 { ((1u64 << f.bits) / 256).max(1) } else { 1 + wide_chunks };
            for k in 0..n {
                u.push((ci, fi, k));
            }
        }
    }
    u
}

fn field_pairs() -> Vec<(usize, Option<usize>)> {
    let mut v = vec![];
    for (ci, c) in cmds().iter().enumerate() {
        if c.fields.is_empty() {
            v.push((ci, None));
        }
        for fi in 0..c.fields.len() {
            v.push((ci, Some(fi)));
        }
    }
    v
}

/// A command without setters: the fresh creator's image must parse back as that command.
fn fieldless_case(cmd: &Cmd, col: &mut Collector) {
    let r = trap(|| {
        let c = (cmd.make)();
        (c.build(), c.len(), c.ser().cid(), c.ser().payload_len())
    });
    let mut verdict = "roundtrip";
    match r {
        Err(t) => {
            verdict = "violation";
            report(cmd, "-", "panic", "-", &format!("new()/build() panicked: {}", t.msg), json!({"loc": t.loc}), col);
        }
        Ok((img, len, cid, plen)) => {
            let shape = img.len() == 1 + cmd.plen && img.first() == Some(&cmd.cid) && len == img.len() && cid == cmd.cid && plen == cmd.plen;
            let parsed = trap(|| snap_one(cmd.set, &img));
            if !shape {
                verdict = "violation";
                report(cmd, "-", "wrong-shape", "-", &format!("fresh creator builds {} (len() {}, cid() {:#04x})", hex(&img), len, cid), json!({}), col);
            } else if !matches!(&parsed, Ok(Ok((n, _))) if *n == cmd.name) {
                verdict = "violation";
                report(cmd, "-", "does-not-parse", "-", "the fresh creator's image does not parse back as this command", json!({"built": hex(&img), "parsed": format!("{:?}", parsed.map_err(|t| t.msg))}), col);
            }
        }
    }
    col.eval(&format!("{}|{}|-|default|{}", SETS[cmd.set], cmd.name, verdict));
    if verdict == "roundtrip" {
        col.event("fieldless_roundtrip_ok");
    }
}

impl Monitor for C19 {
    fn prop(&self) -> &'static str {
        "C19"
    }
    fn scalable(&self, g: &str) -> bool {
        matches!(g, "sequences" | "text" | "echo" | "mc-status-push")
    }
    fn gens(&self, tier: Tier) -> Vec<Gen> {
        if tier == Tier::Sanitizer {
            return vec![gen("san-text", N_TEXT_TYPES * 16), gen("san-fields", field_pairs().len() as u64 * 16), gen("san-var", 16 * 6)];
        }
        vec![
            gen("fields", units(tier.pick(40, 400, 0)).len() as u64),
            gen("fieldless", cmds().iter().filter(|c| c.fields.is_empty()).count() as u64),
            gen("echo", 301 * tier.pick(20, 200, 0)),
            gen("mc-status-push", 1280 + tier.pick(30_000, 1_000_000, 0)),
            gen("mc-status-req", 256),
            gen("sequences", tier.pick(300_000, 5_000_000, 0)),
            gen("text-devnonce", 256),
            gen("text", N_TEXT_TYPES * tier.pick(1_000, 10_000, 0)),
        ]
    }
    fn rule(&self) -> String {
        "fields: for every creator setter of the six command sets, set(field, v) on (a) a fresh creator, (b) a creator with every field pre-set to random admissible values, (c) the same field pre-set to the complement (override); v sweeps the whole argument domain for arguments <= 16 bits (every u8/i8/bool/u16 value, including the out-of-range ones) and boundaries + random values for wider ones; build() is parsed back with the set's iterator and every accessor compared with the specification's unit mapping. fieldless: creators without setters. echo: EchoIncPayloadAnsCreator::payload with 0..300 octets, alone and over an earlier payload. mc-status-push: every group id 0..255 after 0..4 admissible pushes, random scripts of 0..6 pushes. mc-status-req: every mask x every req_group argument. sequences: 0..8 random commands of one set (creators, creator enums, trailing variable-length command) through build_mac_commands/mac_commands_len into exact, slack and too-short buffers, parsed back. text-devnonce: all 2^16 DevNonce values; text: boundary and random values of every wire newtype of parser.rs and every key/EUI type of keys.rs, Display -> FromStr, MSB-first fixed width, EUI conversions. Class = (command or type, field, value class, verdict class).".into()
    }
    fn assumptions(&self) -> Vec<String> {
        vec![
            "field layouts, widths and unit mappings are transcribed from LoRaWAN 1.0.4 ch. 5 (MaxEIRP table 8,10,12,13,14,16,18,20,21,24,26,27,29,30,33,36 dBm; DeviceTimeAns = u32 seconds little-endian + 1/256 s fraction; DevStatusAns margin 6-bit signed), TS009 (RxAppCnt little-endian, echo = request octets + 1 mod 256, 1..241 octets) and TS005 (McGroupStatusAns = status octet + 5 octets per reported group, group id 0..3, at most 4 groups)".into(),
            "DeviceTimeAns nano_seconds: the accessor may report the value rounded down or to the nearest 1/256 s; 10^9 ns and more is out of range".into(),
            "NewChannelReq data_rate_range with max < min is out of range; writing it as given and having the parser's accessor refuse it counts as 'refused'".into(),
            "an empty EchoIncPayloadAns payload is out of range; no change or a bare CID are both accepted".into(),
            "McGroupStatusAns items may come back in push order or sorted by group id; pushing a group id twice, a group id above 3 or a fifth group is out of range".into(),
            "TxFramesCtrlReq and EchoIncPayloadReq have no builder (UnimplementedCreator stubs that panic by design); they are not exercised".into(),
            "commands that run to the end of the stream (EchoIncPayloadAns) can only be the last element of a sequence".into(),
            "text forms are compared case-insensitively; only parse(to_string(x)) = x is required of FromStr, not what else it accepts".into(),
            "for out-of-range values accepted by a setter, bits of the command outside the field's own bits (including RFU bits) must not change".into(),
        ]
    }
    fn required_events(&self, tier: Tier) -> Vec<&'static str> {
        if tier == Tier::Sanitizer {
            vec!["text_roundtrip_ok", "field_roundtrip_ok", "eui_conversion_ok"]
        } else {
            vec!["field_roundtrip_ok", "out_of_range_refused", "out_of_range_truncated", "override_ok", "fieldless_roundtrip_ok", "echo_roundtrip_ok", "push_roundtrip_ok", "sequence_roundtrip_ok", "sequence_short_buffer_refused", "text_roundtrip_ok", "eui_conversion_ok"]
        }
    }

    fn run_case(&self, g: &str, idx: u64, rng: &mut Prng, col: &mut Collector) {
        match g {
            "fields" => {
                let wide = col.tier.pick(40, 400, 0);
                let (ci, fi, k) = units(wide)[idx as usize];
                let cmd = &cmds()[ci];
                let f = &cmd.fields[fi];
                let vals: Vec<u64> = if f.bits <= 16 {
                    let n = (1u64 << f.bits).min(256);
                    (0..n).map(|i| k * 256 + i).collect()
                } else if k == 0 {
                    boundaries(f.bits)
                } else {
                    (0..256).map(|_| if rng.chance(1, 8) { rng.next_u64() & full(f.bits) & 0xffff_ffff >> rng.below(32) } else { rng.next_u64() & full(f.bits) }).collect()
                };
                // narrow fields have few values: repeat them so that the randomly pre-set
                // neighbours take many values too
                let reps = if f.bits <= 4 { 16 } else { 1 };
                for v in vals {
                    for _ in 0..reps {
                        for sc in 0..3u8 {
                            run_field(cmd, fi, v, sc, rng, col);
                        }
                    }
                }
            }
            "fieldless" => {
                let list: Vec<&Cmd> = cmds().iter().filter(|c| c.fields.is_empty()).collect();
                fieldless_case(list[idx as usize], col);
            }
            "echo" => {
                let len = (idx % 301) as usize;
                let over = if idx / 301 == 0 { None } else { Some(rng.below(242) as usize) };
                echo_case(len, over, rng, col);
            }
            "mc-status-push" => {
                let nb = rng.below(8) as u8;
                if idx < 1280 {
                    let k = (idx / 256) as usize;
                    let id = (idx % 256) as u8;
                    // k admissible pushes first, avoiding `id` when it is itself a legal id
                    let mut ids: Vec<u8> = (0..4u8).filter(|x| *x != id).collect();
                    if k == 4 {
                        ids = vec![0, 1, 2, 3];
                    }
                    ids.truncate(k);
                    ids.push(id);
                    push_case(nb, &ids, rng, col);
                } else {
                    let n = rng.below(7) as usize;
                    let ids: Vec<u8> = (0..n).map(|_| if rng.chance(1, 10) { rng.u8() } else { rng.below(4) as u8 }).collect();
                    push_case(nb, &ids, rng, col);
                }
            }
            "mc-status-req" => req_group_case(idx as u8, col),
            "sequences" => sequence_case(rng, col),
            "text-devnonce" => {
                for lo in 0..256u64 {
                    wire_text!(DevNonce, 2, u16, idx * 256 + lo, col);
                }
            }
            "text" => {
                let ty = idx % N_TEXT_TYPES;
                let round = idx / N_TEXT_TYPES;
                for i in 0..100u64 {
                    text_case(ty, if round == 0 { i } else { 100 }, rng, col);
                }
            }
            "san-text" => {
                // the Display impls of keys.rs write through `unsafe as_bytes_mut`: several
                // values per type and process (i < 8 are the boundary values, the rest random)
                let ty = idx / 16;
                let fl = idx % 16;
                for j in 0..6 {
                    text_case(ty, (fl + 5 * j) % 24, rng, col);
                }
            }
            "san-fields" => {
                let pairs = field_pairs();
                let (ci, fo) = pairs[(idx / 16) as usize];
                let cmd = &cmds()[ci];
                match fo {
                    None => fieldless_case(cmd, col),
                    Some(fi) => {
                        let f = &cmd.fields[fi];
                        let fl = idx % 16;
                        let v = match fl {
                            0 => 0,
                            1 => full(f.bits),
                            2 => rng.next_u64() & full(f.bits),
                            _ => rand_adm(f, rng),
                        };
                        run_field(cmd, fi, v, (fl % 3) as u8, rng, col);
                    }
                }
            }
            "san-var" => {
                let fl = idx % 16;
                match idx / 16 {
                    0 => echo_case(1 + fl as usize, None, rng, col),
                    1 => echo_case(241, Some(fl as usize), rng, col),
                    2 => push_case(fl as u8 & 7, &[(fl % 4) as u8], rng, col),
                    3 => push_case(3, &[0, 1, 2, 3][..(fl as usize % 5).min(4)], rng, col),
                    4 => req_group_case_one(fl as u8, col),
                    _ => sequence_case(rng, col),
                }
            }
            _ => unreachable!(),
        }
    }
}

fn req_group_case_one(mask: u8, col: &mut Collector) {
    // sanitizer tier: one mask, the generic loop is cheap enough natively but not under Miri
    let r = trap(|| {
        let mut c = McGroupStatusReqCreator::new();
        c.req_group_mask(mask);
        c.req_group(mask & 3);
        c.build().to_vec()
    });
    let good = matches!(&r, Ok(a) if a.len() == 2 && a[1] == (mask & 15) | 1 << (mask & 3));
    col.eval(&format!("mc-down|McGroupStatusReq|req_group|admissible|{}", if good { "roundtrip" } else { "violation" }));
    if !good {
        vreport("mcast", "McGroupStatusReq", "req_group", "roundtrip-differs", "req_group does not add exactly the requested group bit", json!({"mask": mask, "result": format!("{:?}", r.map_err(|t| t.msg))}), col);
    } else {
        col.event("field_roundtrip_ok");
    }
}
