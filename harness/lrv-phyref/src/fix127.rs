//! Register-file SPI device for the register-based SX127x, shared (by value of its initial
//! state) between lora-phy and the SWL2001 reference driver.
//!
//! The two drivers factor their traffic differently (burst writes with address auto-increment
//! versus single-register writes, shadow copies versus read-back), so the device *executes* the
//! traffic against a 128-byte register file and the monitor compares chip-visible outcomes:
//! final register file, byte stream pushed into the FIFO (address 0x00, no auto-increment) and
//! the write-1-to-clear values pushed at RegIrqFlags (0x12, never stored).
//!
//! Addresses and the RegOpMode rule are written here from the SX1276/SX1272 datasheets:
//! bit 7 of the first byte is the write flag; LongRangeMode (RegOpMode bit 7) "can be modified
//! only in Sleep mode; a write operation on other device modes is ignored".

use crate::exec::SpiErr;
use embedded_hal::spi::Operation;
use std::cell::RefCell;

pub const REG_FIFO: u8 = 0x00;
pub const REG_OP_MODE: u8 = 0x01;
pub const REG_IRQ_FLAGS: u8 = 0x12;
pub const REG_FIFO_ADDR_PTR: u8 = 0x0D;

#[derive(Clone)]
pub struct Chip127 {
    pub regs: [u8; 128],
    /// 256-byte data buffer behind the FIFO port; FIFO accesses go to RegFifoAddrPtr (0x0D),
    /// which auto-increments (datasheet "LoRa FIFO data buffer").
    pub ram: [u8; 256],
    pub fifo_written: Vec<u8>,
    pub irq_clears: Vec<u8>,
    /// (address, value) of every register write in wire order (diagnostics only).
    pub writes: Vec<(u8, u8)>,
    /// Number of SPI transactions seen.
    pub transactions: u32,
    pub protocol_error: Option<String>,
}

impl Chip127 {
    pub fn new(regs: [u8; 128]) -> Self {
        let mut ram = [0u8; 256];
        // deterministic, prior-dependent fill (both devices of a comparison get the same)
        for (i, b) in ram.iter_mut().enumerate() {
            *b = regs[(i * 7 + 3) & 0x7F] ^ (i as u8).wrapping_mul(0x9D);
        }
        Chip127 { regs, ram, fifo_written: Vec::new(), irq_clears: Vec::new(), writes: Vec::new(), transactions: 0, protocol_error: None }
    }

    fn write_reg(&mut self, addr: u8, mut v: u8) {
        self.writes.push((addr, v));
        match addr {
            REG_FIFO => {
                self.fifo_written.push(v);
                let p = self.regs[REG_FIFO_ADDR_PTR as usize];
                self.ram[p as usize] = v;
                self.regs[REG_FIFO_ADDR_PTR as usize] = p.wrapping_add(1);
                return;
            }
            REG_IRQ_FLAGS => {
                self.irq_clears.push(v);
                return;
            }
            REG_OP_MODE => {
                let cur = self.regs[REG_OP_MODE as usize];
                let in_sleep = cur & 0x07 == 0;
                let stays_in_sleep = v & 0x07 == 0;
                if !(in_sleep && stays_in_sleep) {
                    v = (cur & 0x80) | (v & 0x7F);
                }
            }
            _ => {}
        }
        self.regs[(addr & 0x7F) as usize] = v;
    }

    fn transact(&mut self, operations: &mut [Operation<'_, u8>]) {
        self.transactions += 1;
        let mut head: Option<u8> = None;
        let mut offset: u8 = 0;
        let mut any_read = false;
        for op in operations.iter_mut() {
            match op {
                Operation::Write(buf) => {
                    for b in buf.iter() {
                        match head {
                            None => head = Some(*b),
                            Some(h) => {
                                if h & 0x80 == 0 {
                                    self.protocol_error.get_or_insert_with(|| format!("data byte {:02x} written in a read access (address byte {:02x})", b, h));
                                    continue;
                                }
                                let a = h & 0x7F;
                                let addr = if a == REG_FIFO { a } else { a.wrapping_add(offset) & 0x7F };
                                offset = offset.wrapping_add(1);
                                self.write_reg(addr, *b);
                            }
                        }
                    }
                }
                Operation::Read(buf) => {
                    any_read = true;
                    match head {
                        None => {
                            self.protocol_error.get_or_insert_with(|| "read without an address byte".to_string());
                        }
                        Some(h) => {
                            if h & 0x80 != 0 {
                                self.protocol_error.get_or_insert_with(|| format!("read in a write access (address byte {:02x})", h));
                            }
                            let a = h & 0x7F;
                            for b in buf.iter_mut() {
                                let addr = if a == REG_FIFO { a } else { a.wrapping_add(offset) & 0x7F };
                                offset = offset.wrapping_add(1);
                                *b = if addr == REG_FIFO {
                                    let p = self.regs[REG_FIFO_ADDR_PTR as usize];
                                    self.regs[REG_FIFO_ADDR_PTR as usize] = p.wrapping_add(1);
                                    self.ram[p as usize]
                                } else {
                                    self.regs[addr as usize]
                                };
                            }
                        }
                    }
                }
                Operation::DelayNs(_) => {}
                _ => {
                    self.protocol_error.get_or_insert_with(|| "transfer operation (not used by either driver)".to_string());
                }
            }
        }
        let _ = any_read;
        if head.is_none() {
            self.protocol_error.get_or_insert_with(|| "transaction without an address byte".to_string());
        }
    }
}

pub struct Spi127<'a>(pub &'a RefCell<Chip127>);

impl embedded_hal::spi::ErrorType for Spi127<'_> {
    type Error = SpiErr;
}

impl embedded_hal::spi::SpiDevice for Spi127<'_> {
    fn transaction(&mut self, operations: &mut [Operation<'_, u8>]) -> Result<(), SpiErr> {
        self.0.borrow_mut().transact(operations);
        Ok(())
    }
}

impl embedded_hal_async::spi::SpiDevice<u8> for Spi127<'_> {
    async fn transaction(&mut self, operations: &mut [Operation<'_, u8>]) -> Result<(), SpiErr> {
        self.0.borrow_mut().transact(operations);
        Ok(())
    }
}
