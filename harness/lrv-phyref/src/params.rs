//! Enumerated parameter spaces shared by the SX126x and SX127x halves of the C13 monitor.

use lora_modulation::{Bandwidth, CodingRate, SpreadingFactor};

pub const SFS: [SpreadingFactor; 8] = [
    SpreadingFactor::_5,
    SpreadingFactor::_6,
    SpreadingFactor::_7,
    SpreadingFactor::_8,
    SpreadingFactor::_9,
    SpreadingFactor::_10,
    SpreadingFactor::_11,
    SpreadingFactor::_12,
];

pub const BWS: [Bandwidth; 10] = [
    Bandwidth::_7KHz,
    Bandwidth::_10KHz,
    Bandwidth::_15KHz,
    Bandwidth::_20KHz,
    Bandwidth::_31KHz,
    Bandwidth::_41KHz,
    Bandwidth::_62KHz,
    Bandwidth::_125KHz,
    Bandwidth::_250KHz,
    Bandwidth::_500KHz,
];

pub const CRS: [CodingRate; 4] = [CodingRate::_4_5, CodingRate::_4_6, CodingRate::_4_7, CodingRate::_4_8];

/// Spreading factor as a number, by name of the enum variant (no table of the drivers involved).
pub fn sf_n(sf: SpreadingFactor) -> u8 {
    match sf {
        SpreadingFactor::_5 => 5,
        SpreadingFactor::_6 => 6,
        SpreadingFactor::_7 => 7,
        SpreadingFactor::_8 => 8,
        SpreadingFactor::_9 => 9,
        SpreadingFactor::_10 => 10,
        SpreadingFactor::_11 => 11,
        SpreadingFactor::_12 => 12,
    }
}

/// Index 0..9 in ascending bandwidth order, by name of the enum variant.
pub fn bw_i(bw: Bandwidth) -> usize {
    match bw {
        Bandwidth::_7KHz => 0,
        Bandwidth::_10KHz => 1,
        Bandwidth::_15KHz => 2,
        Bandwidth::_20KHz => 3,
        Bandwidth::_31KHz => 4,
        Bandwidth::_41KHz => 5,
        Bandwidth::_62KHz => 6,
        Bandwidth::_125KHz => 7,
        Bandwidth::_250KHz => 8,
        Bandwidth::_500KHz => 9,
    }
}

pub const BW_NAMES: [&str; 10] = ["7", "10", "15", "20", "31", "41", "62", "125", "250", "500"];

pub fn bw_name(bw: Bandwidth) -> &'static str {
    BW_NAMES[bw_i(bw)]
}

/// Coding rate 4/(4+n): returns n (1..4), by name of the enum variant.
pub fn cr_n(cr: CodingRate) -> u8 {
    match cr {
        CodingRate::_4_5 => 1,
        CodingRate::_4_6 => 2,
        CodingRate::_4_7 => 3,
        CodingRate::_4_8 => 4,
    }
}

pub const PREAMBLES: [u16; 20] = [0, 1, 2, 3, 4, 5, 6, 7, 8, 9, 10, 11, 12, 13, 14, 15, 16, 255, 256, 65535];

/// LoRaWAN bands swept at 100 Hz (RP002 band limits).
pub const BANDS: [(&str, u32, u32); 5] = [
    ("EU433", 433_050_000, 434_790_000),
    ("EU868", 863_000_000, 870_000_000),
    ("IN865", 865_000_000, 867_000_000),
    ("AS923", 915_000_000, 928_000_000),
    ("US915", 902_000_000, 928_000_000),
];

pub fn band_points(b: usize, step: u32) -> u64 {
    let (_, lo, hi) = BANDS[b];
    ((hi - lo) / step) as u64 + 1
}

pub fn all_band_points(step: u32) -> u64 {
    (0..BANDS.len()).map(|b| band_points(b, step)).sum()
}

/// k-th point of the concatenated band sweep -> (band index, frequency).
pub fn band_point(mut k: u64, step: u32) -> (usize, u32) {
    for b in 0..BANDS.len() {
        let n = band_points(b, step);
        if k < n {
            return (b, BANDS[b].1 + k as u32 * step);
        }
        k -= n;
    }
    (BANDS.len() - 1, BANDS[BANDS.len() - 1].2)
}

pub const STRIDE_LO: u32 = 137_000_000;
pub const STRIDE_HI: u32 = 1_020_000_000;

pub fn stride_points(stride: u32) -> u64 {
    ((STRIDE_HI - STRIDE_LO) / stride) as u64 + 1
}

pub fn band_of(f: u32) -> &'static str {
    // most specific first
    if (865_000_000..=867_000_000).contains(&f) {
        "IN865"
    } else if (863_000_000..=870_000_000).contains(&f) {
        "EU868"
    } else if (915_000_000..=928_000_000).contains(&f) {
        "AS923"
    } else if (902_000_000..=928_000_000).contains(&f) {
        "US915"
    } else if (433_050_000..=434_790_000).contains(&f) {
        "EU433"
    } else {
        "other"
    }
}
