//! C17 / receive time-out: (a) the symbol count written by do_rx(Single(n)) is never shorter
//! than requested up to the chip maximum; (b) the LoRaWAN adapter's ms -> symbols conversion
//! covers the preamble plus the requested margin.

use crate::bus::*;
use crate::exec::block_on;
use crate::viol;
use embedded_hal_async::delay::DelayNs;
use lora_modulation::BaseBandModulationParams;
use lora_phy::lorawan_radio::LorawanRadio;
use lora_phy::mod_params::{ModulationParams, PacketParams, PacketStatus, RadioError, RadioMode, RxMode};
use lora_phy::mod_traits::{IrqState, RadioKind};
use lora_phy::LoRa;
use lorawan_device::async_device::radio::{PhyRxTx, RfConfig, RxConfig, RxMode as LwRxMode, RxStatus};
use lrv_core::*;
use std::cell::RefCell;
use std::rc::Rc;

pub const SYMB_CHIPS: u64 = 4;
pub const ADAPTER_TARGETS: u64 = 3;

/// Semtech's drivers cap the SX126x/LR11xx symbol time-out at 248 (= 31 * 2^3, the largest
/// value the mantissa/exponent register can hold below 256); the command byte itself goes to 255.
const SX126X_MAX: u32 = 248;
const SX127X_MAX: u32 = 1023;

pub fn assumptions() -> Vec<String> {
    vec![
        "symbol time-out decode: SX126x SetLoRaSymbNumTimeout (0xA0) carries the plain symbol count; when the host also writes the SynchTimeout register 0x0706 in the same call, that register (mant[7:3] * 2^(2 exp[2:0] + 1), Semtech driver workaround) is what is judged, otherwise the command byte; SX127x: RegModemConfig2[1:0] : RegSymbTimeoutLsb (10 bit); LR11xx SetLoRaSynchTimeout (0x021B) carries the plain count".into(),
        "chip maximum taken as 248 symbols for SX126x and LR11xx (the lenient one of {248, 255}) and 1023 for SX127x; a count of 0 means 'no symbol time-out' on all chips and is only requested by n = 0".into(),
        "adapter: 'covers the preamble plus the margin' is read as symbols * Tsym >= 8 * Tsym + margin with the 8 programmed preamble symbols (not the 12.25-symbol full preamble incl. sync word: with that reading the adapter's 13 + floor(ms/Tsym) falls short by < 0.25 symbol whenever frac(ms/Tsym) > 0.75; counted in the event `adapter_short_of_12.25`, not alarmed); Tsym is evaluated with both the nominal and the true bandwidth and only a failure under both is alarmed".into(),
        "through real drivers the adapter clause is judged on the decoded chip value: decoded >= min(8 + ceil(margin / Tsym), chip maximum)".into(),
    ]
}

// ---- decoding -----------------------------------------------------------------------------------

#[derive(Clone, Copy, PartialEq)]
enum TKind {
    Sx126x,
    Sx127x,
    Lr11xx,
}

struct SymbSeen {
    effective: Option<u32>,
    source: &'static str,
    detail: Value,
}

fn decode_symb(k: TKind, c: &Chip) -> SymbSeen {
    match k {
        TKind::Sx126x => {
            let cmd = c.symb_cmd.map(|x| x.1 as u32);
            let reg = if c.synch_timeout_written { Some(c.regs16[SX126X_REG_SYNCH_TIMEOUT as usize]) } else { None };
            let regv = reg.map(|r| ((r >> 3) as u32) << (2 * (r & 7) as u32 + 1));
            let detail = json!({"cmd_byte": cmd, "synch_timeout_reg": reg, "reg_decoded": regv});
            match (cmd, regv) {
                (None, _) => SymbSeen { effective: None, source: "none", detail },
                (Some(_), Some(r)) => SymbSeen { effective: Some(r), source: "reg", detail },
                (Some(cv), None) => SymbSeen { effective: Some(cv), source: "cmd", detail },
            }
        }
        TKind::Sx127x => {
            let ok = c.was_written(SX127X_REG_MODEM_CONFIG2) && c.was_written(SX127X_REG_SYMB_TIMEOUT_LSB);
            let v = (((c.regs[SX127X_REG_MODEM_CONFIG2 as usize] & 3) as u32) << 8) | c.regs[SX127X_REG_SYMB_TIMEOUT_LSB as usize] as u32;
            let detail = json!({"modem_config2": c.regs[SX127X_REG_MODEM_CONFIG2 as usize], "symb_timeout_lsb": c.regs[SX127X_REG_SYMB_TIMEOUT_LSB as usize]});
            SymbSeen { effective: if ok { Some(v) } else { None }, source: "reg", detail }
        }
        TKind::Lr11xx => {
            let cmd = c.symb_cmd.map(|x| x.1 as u32);
            SymbSeen { effective: cmd, source: "cmd", detail: json!({"cmd_byte": cmd}) }
        }
    }
}

fn chip_max(k: TKind) -> u32 {
    match k {
        TKind::Sx127x => SX127X_MAX,
        _ => SX126X_MAX,
    }
}

// ---- (a) symbol counts --------------------------------------------------------------------------

fn symb_sweep<RK: RadioKind>(k: TKind, name: &str, rk: &mut RK, bus: &Bus, lo: u32, hi: u32, rng: &mut Prng, col: &mut Collector) {
    if k == TKind::Sx127x {
        let mut r = [0u8; 128];
        rng.fill(&mut r);
        let mut c = bus.chip();
        let ver = c.regs[SX127X_REG_VERSION as usize];
        c.regs = r;
        c.regs[SX127X_REG_VERSION as usize] = ver;
    }
    let max = chip_max(k);
    for n in lo..hi {
        bus.chip().clear_decoded();
        let r = trap(|| block_on(rk.do_rx(RxMode::Single(n as u16))));
        let rc = if n == 0 {
            "n=0"
        } else if n <= max {
            "1..max"
        } else {
            ">max"
        };
        col.eval(&format!("{}|symb-timeout|{}", name, rc));
        col.event("symb_judged");
        if n > max {
            col.event("symb_above_chip_max");
        }
        match r {
            Err(t) => {
                viol(col, &format!("C17|symtimeout|panic|{}/{}", name, rc), "do_rx panicked", || json!({"chip": name, "symbols": n, "panic": t.msg, "loc": t.loc}));
                continue;
            }
            Ok(Err(e)) => {
                viol(col, &format!("C17|symtimeout|refused|{}/{}", name, rc), "do_rx(Single(n)) returned an error on a fault-free bus", || json!({"chip": name, "symbols": n, "error": format!("{:?}", e)}));
                continue;
            }
            Ok(Ok(())) => {}
        }
        let s = decode_symb(k, &bus.chip());
        let need = n.min(max);
        match s.effective {
            None => viol(col, &format!("C17|symtimeout|not-written|{}/{}", name, rc), "no symbol time-out was programmed", || json!({"chip": name, "symbols": n, "seen": s.detail})),
            Some(v) => {
                // 0 disables the symbol time-out: acceptable only when nothing was requested
                if v < need || (v == 0 && n != 0) {
                    viol(col, &format!("C17|symtimeout|short|{}/{}/{}", name, rc, s.source), "programmed symbol time-out is shorter than requested", || json!({"chip": name, "requested": n, "required_at_least": need, "decoded": v, "seen": s.detail}));
                }
            }
        }
    }
    if col.want_sample() {
        col.sample(json!({"chip": name, "range": [lo, hi]}));
    }
}

pub fn run_symb(idx: u64, rng: &mut Prng, col: &mut Collector) {
    let per = if col.tier == Tier::Sanitizer { 1 } else { 16 };
    let chip = (idx / per) % SYMB_CHIPS;
    let blk = (idx % per) as u32;
    let (lo, hi) = if col.tier == Tier::Sanitizer { (0u32, 300u32) } else { (blk * 4096, (blk + 1) * 4096) };
    match chip {
        0 => {
            let (mut rk, bus) = new_sx1261();
            symb_sweep(TKind::Sx126x, "sx126x", &mut rk, &bus, lo, hi, rng, col)
        }
        1 => {
            let (mut rk, bus) = new_sx1276(false);
            symb_sweep(TKind::Sx127x, "sx1276", &mut rk, &bus, lo, hi, rng, col)
        }
        2 => {
            let (mut rk, bus) = new_sx1272(false);
            symb_sweep(TKind::Sx127x, "sx1272", &mut rk, &bus, lo, hi, rng, col)
        }
        _ => {
            let (mut rk, bus) = new_lr1110(lora_phy::lr1110::PaSelection::Lp);
            symb_sweep(TKind::Lr11xx, "lr1110", &mut rk, &bus, lo, hi, rng, col)
        }
    }
}

// ---- (b) adapter ----------------------------------------------------------------------------------

#[derive(Default)]
struct RecState {
    last_rx: Option<RxMode>,
}

/// A RadioKind that only records what the upper layers ask for; every receive times out.
struct Recorder(Rc<RefCell<RecState>>);

impl RadioKind for Recorder {
    async fn init_lora(&mut self, _sync_word: u16) -> Result<(), RadioError> {
        Ok(())
    }
    async fn set_lora_sync_word(&mut self, _sync_word: u16) -> Result<(), RadioError> {
        Ok(())
    }
    fn create_modulation_params(&self, spreading_factor: lora_modulation::SpreadingFactor, bandwidth: lora_modulation::Bandwidth, coding_rate: lora_modulation::CodingRate, frequency_in_hz: u32) -> Result<ModulationParams, RadioError> {
        Ok(ModulationParams { spreading_factor, bandwidth, coding_rate, low_data_rate_optimize: 0, frequency_in_hz })
    }
    fn create_packet_params(&self, preamble_length: u16, implicit_header: bool, payload_length: u8, crc_on: bool, iq_inverted: bool, _m: &ModulationParams) -> Result<PacketParams, RadioError> {
        Ok(PacketParams { preamble_length, implicit_header, payload_length, crc_on, iq_inverted })
    }
    async fn reset(&mut self, _delay: &mut impl DelayNs) -> Result<(), RadioError> {
        Ok(())
    }
    async fn ensure_ready(&mut self, _mode: RadioMode) -> Result<(), RadioError> {
        Ok(())
    }
    async fn set_standby(&mut self) -> Result<(), RadioError> {
        Ok(())
    }
    async fn set_sleep(&mut self, _w: bool, _delay: &mut impl DelayNs) -> Result<(), RadioError> {
        Ok(())
    }
    async fn set_tx_rx_buffer_base_address(&mut self, _t: usize, _r: usize) -> Result<(), RadioError> {
        Ok(())
    }
    async fn set_tx_power_and_ramp_time(&mut self, _p: i32, _m: Option<&ModulationParams>, _prep: bool) -> Result<(), RadioError> {
        Ok(())
    }
    async fn set_modulation_params(&mut self, _m: &ModulationParams) -> Result<(), RadioError> {
        Ok(())
    }
    async fn set_packet_params(&mut self, _p: &PacketParams) -> Result<(), RadioError> {
        Ok(())
    }
    async fn calibrate_image(&mut self, _f: u32) -> Result<(), RadioError> {
        Ok(())
    }
    async fn set_channel(&mut self, _f: u32) -> Result<(), RadioError> {
        Ok(())
    }
    async fn set_payload(&mut self, _p: &[u8]) -> Result<(), RadioError> {
        Ok(())
    }
    async fn do_tx(&mut self) -> Result<(), RadioError> {
        Ok(())
    }
    async fn do_rx(&mut self, rx_mode: RxMode) -> Result<(), RadioError> {
        self.0.borrow_mut().last_rx = Some(rx_mode);
        Ok(())
    }
    async fn get_rx_payload(&mut self, _p: &PacketParams, _b: &mut [u8]) -> Result<u8, RadioError> {
        Ok(0)
    }
    async fn get_rx_packet_status(&mut self) -> Result<PacketStatus, RadioError> {
        Ok(PacketStatus { rssi: 0, snr: 0 })
    }
    async fn get_rssi(&mut self) -> Result<i16, RadioError> {
        Ok(0)
    }
    async fn do_cad(&mut self, _m: &ModulationParams) -> Result<(), RadioError> {
        Ok(())
    }
    async fn set_irq_params(&mut self, _m: Option<RadioMode>) -> Result<(), RadioError> {
        Ok(())
    }
    async fn set_tx_continuous_wave_mode(&mut self) -> Result<(), RadioError> {
        Ok(())
    }
    async fn await_irq(&mut self) -> Result<(), RadioError> {
        Ok(())
    }
    async fn process_irq_event(&mut self, radio_mode: RadioMode, _c: Option<&mut bool>, _clear: bool) -> Result<Option<IrqState>, RadioError> {
        match radio_mode {
            RadioMode::Receive(_) => Err(RadioError::ReceiveTimeout),
            _ => Ok(Some(IrqState::Done)),
        }
    }
    async fn get_irq_state(&mut self, _m: RadioMode, _c: Option<&mut bool>) -> Result<Option<IrqState>, RadioError> {
        Ok(None)
    }
    async fn clear_irq_status(&mut self) -> Result<(), RadioError> {
        Ok(())
    }
}

/// Symbols needed beyond the 8 preamble symbols to cover `ms`, for bandwidth `num/den` Hz:
/// ceil(ms/1000 * bw / 2^SF).
fn extra_needed(ms: u64, sf: u32, bw_num: u64, bw_den: u64) -> u64 {
    let n = ms * bw_num;
    let d = 1000 * (1u64 << sf) * bw_den;
    n.div_ceil(d)
}

fn ms_class(ms: u32) -> &'static str {
    match ms {
        0 => "ms=0",
        1..=100 => "ms<=100",
        _ => "ms<=1000",
    }
}

/// What the adapter must at least ask for (lenient over the two bandwidth readings).
fn needed_symbols(ms: u32, sfi: usize, bwi: usize) -> (u64, u64) {
    let sf = sf_num(sfi);
    let true_bw = extra_needed(ms as u64, sf, 500_000, BW_DIV[bwi]);
    let nominal = extra_needed(ms as u64, sf, BW_NOMINAL_HZ[bwi], 1);
    (8 + true_bw.min(nominal), 8 + true_bw.max(nominal))
}

fn adapter_drive<RK: RadioKind>(target: &str, kind: Option<TKind>, rk: RK, bus: Option<&Bus>, rec: Option<&Rc<RefCell<RecState>>>, sfi: usize, bwi: usize, col: &mut Collector) {
    let cell = format!("SF{}/BW{}", sf_num(sfi), BW_NAME[bwi]);
    let freq = 868_100_000u32;
    let lora = match trap(|| block_on(LoRa::new(rk, true, NoDelay))) {
        Ok(Ok(l)) => l,
        Ok(Err(e)) => {
            col.event(&format!("adapter_init_failed:{}", target));
            let n = col.notes.entry("adapter_init_errors".into()).or_insert(json!([]));
            if let Some(a) = n.as_array_mut() {
                if a.len() < 5 {
                    a.push(json!({"target": target, "error": format!("{:?}", e)}));
                }
            }
            return;
        }
        Err(t) => {
            col.event(&format!("adapter_init_panic:{}", target));
            let n = col.notes.entry("adapter_init_errors".into()).or_insert(json!([]));
            if let Some(a) = n.as_array_mut() {
                if a.len() < 5 {
                    a.push(json!({"target": target, "panic": t.msg, "loc": t.loc}));
                }
            }
            return;
        }
    };
    let mut radio: LorawanRadio<_, _, 14> = lora.into();
    let bb = BaseBandModulationParams::new(SFS[sfi], BWS[bwi], CRS[0]);
    let margins: Vec<u32> = if col.tier == Tier::Sanitizer { vec![0, 1, 7, 50, 333, 1000] } else { (0..=1000).collect() };
    for ms in margins {
        let cfg = RxConfig { rf: RfConfig { frequency: freq, bb, max_payload_len: 255 }, mode: LwRxMode::Single { ms } };
        if let Some(b) = bus {
            b.chip().clear_decoded();
        }
        if let Some(r) = rec {
            r.borrow_mut().last_rx = None;
        }
        let mc = ms_class(ms);
        let r = trap(|| {
            block_on(async {
                radio.setup_rx(cfg).await?;
                let mut buf = [0u8; 255];
                radio.rx_single(&mut buf).await
            })
        });
        let inp = json!({"target": target, "cell": cell, "margin_ms": ms});
        match r {
            Err(t) => {
                viol(col, &format!("C17|adapter|panic|{}/{}", target, mc), "the LoRaWAN adapter panicked while opening a receive window", || json!({"input": inp, "panic": t.msg, "loc": t.loc}));
                // the radio object may be in an arbitrary state now
                return;
            }
            Ok(Err(e)) => {
                // pairs the chip does not support are refused at setup_rx; not judged
                let es = format!("{:?}", e);
                if es.contains("Unavailable") || es.contains("InvalidSF6") {
                    col.event(&format!("adapter_unsupported:{}", target));
                    return;
                }
                viol(col, &format!("C17|adapter|refused|{}/{}", target, mc), "setup_rx/rx_single failed on a fault-free radio", || json!({"input": inp, "error": es}));
                return;
            }
            Ok(Ok(RxStatus::Rx(..))) => {
                col.event("adapter_unexpected_rx");
                continue;
            }
            Ok(Ok(RxStatus::RxTimeout)) => {}
        }
        col.eval(&format!("{}|adapter|{}", target, mc));
        col.event(&format!("adapter_judged:{}", target));
        let (need_lenient, need_strict) = needed_symbols(ms, sfi, bwi);
        match (kind, rec) {
            (None, Some(r)) => {
                let mode = r.borrow().last_rx;
                match mode {
                    Some(RxMode::Single(n)) => {
                        let n = n as u64;
                        if n < need_lenient {
                            viol(col, &format!("C17|adapter|short|{}/{}", target, mc), "symbols requested by the adapter do not cover 8 preamble symbols plus the margin", || json!({"input": inp, "requested_symbols": n, "needed_symbols": need_lenient, "needed_with_other_bandwidth_reading": need_strict}));
                        } else if n < need_strict {
                            col.event("adapter_short_under_one_bandwidth_reading");
                        }
                        // informational: full 12.25-symbol preamble
                        // n * Tsym >= 12.25 Tsym + ms  <=>  (4n - 49) 2^SF 1000 d >= 4 ms 500000
                        let lhs = (4 * n as i128 - 49) * (1i128 << sf_num(sfi)) * 1000 * BW_DIV[bwi] as i128;
                        if lhs < 4 * ms as i128 * 500_000 {
                            col.event("adapter_short_of_12.25");
                        }
                    }
                    other => {
                        let what = match other {
                            None => "none",
                            Some(RxMode::Continuous) => "continuous",
                            Some(RxMode::DutyCycle(_)) => "duty-cycle",
                            _ => "single",
                        };
                        viol(col, &format!("C17|adapter|wrong-mode|{}/{}", target, mc), "a single receive window did not reach the radio as RxMode::Single", || json!({"input": inp, "mode": what}));
                    }
                }
            }
            (Some(k), _) => {
                let Some(b) = bus else { continue };
                let s = decode_symb(k, &b.chip());
                let need = need_lenient.min(chip_max(k) as u64);
                match s.effective {
                    None => viol(col, &format!("C17|adapter|not-written|{}/{}", target, mc), "no symbol time-out reached the chip", || json!({"input": inp, "seen": s.detail})),
                    Some(v) => {
                        if (v as u64) < need || v == 0 {
                            viol(col, &format!("C17|adapter|short|{}/{}", target, mc), "symbol time-out on the chip does not cover 8 preamble symbols plus the margin (up to the chip maximum)", || json!({"input": inp, "decoded_symbols": v, "needed_symbols": need, "seen": s.detail}));
                        }
                    }
                }
            }
            _ => {}
        }
    }
    if col.want_sample() {
        col.sample(json!({"target": target, "cell": cell, "margins": "0..=1000 ms"}));
    }
}

pub fn run_adapter(idx: u64, _rng: &mut Prng, col: &mut Collector) {
    let cells = if col.tier == Tier::Sanitizer { 4 } else { 80 };
    let target = (idx / cells) % ADAPTER_TARGETS;
    let cell = if col.tier == Tier::Sanitizer { [0u64, 27, 67, 79][(idx % 4) as usize] } else { idx % 80 };
    let sfi = (cell / 10) as usize;
    let bwi = (cell % 10) as usize;
    match target {
        0 => {
            let st = Rc::new(RefCell::new(RecState::default()));
            adapter_drive("recorder", None, Recorder(st.clone()), None, Some(&st), sfi, bwi, col);
        }
        1 => {
            let (rk, bus) = new_sx1262();
            bus.chip().irq126 = 0x0200; // RxTxTimeout
            adapter_drive("sx1262", Some(TKind::Sx126x), rk, Some(&bus), None, sfi, bwi, col);
        }
        _ => {
            let (rk, bus) = new_sx1276(false);
            bus.chip().irq127_on_rx = 0x80; // RxTimeout
            adapter_drive("sx1276", Some(TKind::Sx127x), rk, Some(&bus), None, sfi, bwi, col);
        }
    }
}
