//! C17 — programmed frequency, TX power and RX timeout decode to what was requested.
//!
//! Generators (see `rule()`): freq-*, power, symb-timeout, adapter, pktstatus-*, rssi-inst.
//! Sub-monitors live in c17_power.rs, c17_rx.rs, c17_status.rs; the frequency part is here.

use crate::bus::*;
use crate::exec::block_on;
use crate::viol;
use lora_phy::mod_traits::RadioKind;
use lrv_core::*;

#[path = "c17_power.rs"]
pub mod power;
#[path = "c17_rx.rs"]
pub mod rx;
#[path = "c17_status.rs"]
pub mod status;

pub struct C17;

// ---- frequency workload -------------------------------------------------------------------------

#[derive(Clone, Copy)]
struct Seg {
    start: u64,
    end: u64, // inclusive
    step: u64,
}
impl Seg {
    fn count(&self) -> u64 {
        (self.end - self.start) / self.step + 1
    }
}

const F_MIN: u64 = 137_000_000;
const F_MAX: u64 = 1_020_000_000;

fn segs(tier: Tier) -> Vec<Seg> {
    match tier {
        Tier::Thorough => vec![Seg { start: F_MIN, end: F_MAX, step: 1 }],
        Tier::Quick => vec![
            // every 1 Hz of the LoRaWAN bands (EU433, CN470, EU868/IN865, US915/AU915/AS923/KR920)
            Seg { start: 433_050_000, end: 434_790_000, step: 1 },
            Seg { start: 470_000_000, end: 510_000_000, step: 1 },
            Seg { start: 863_000_000, end: 870_000_000, step: 1 },
            Seg { start: 902_000_000, end: 928_000_000, step: 1 },
            // stride over the whole tuning range
            Seg { start: F_MIN, end: F_MAX, step: 97 },
            // the ends of the range, densely
            Seg { start: F_MIN, end: F_MIN + 20_000, step: 1 },
            Seg { start: F_MAX - 20_000, end: F_MAX, step: 1 },
        ],
        Tier::Sanitizer => vec![Seg { start: F_MIN, end: F_MAX, step: 3_000_017 }],
    }
}
fn freq_total(tier: Tier) -> u64 {
    segs(tier).iter().map(|s| s.count()).sum()
}
fn freq_block(tier: Tier) -> u64 {
    tier.pick(1 << 18, 1 << 20, 64)
}
fn freq_nth(segs: &[Seg], mut k: u64) -> Option<u32> {
    for s in segs {
        if k < s.count() {
            return Some((s.start + k * s.step) as u32);
        }
        k -= s.count();
    }
    None
}
fn band(f: u32) -> &'static str {
    match f {
        0..=399_999_999 => "<400M",
        400_000_000..=524_999_999 => "400-525M",
        525_000_000..=861_999_999 => "525-862M",
        _ => ">=862M",
    }
}

#[derive(Clone, Copy, PartialEq)]
enum FChip {
    Sx126x,
    Sx127x,
    Lr1110,
}

/// Programs modulation and packet parameters (every bandwidth in turn) before the channel is set.
fn prime<RK: RadioKind>(rk: &mut RK, k: u64, rng: &mut Prng, col: &mut Collector) {
    if k % 3 == 0 {
        return;
    }
    let bw = BWS[((k / 3) % 10) as usize];
    let sf = SFS[rng.below(8) as usize];
    let cr = CRS[rng.below(4) as usize];
    let r = trap(|| {
        let mp = rk.create_modulation_params(sf, bw, cr, 868_100_000)?;
        block_on(rk.set_modulation_params(&mp))?;
        let pp = rk.create_packet_params(8, false, 32, true, false, &mp)?;
        block_on(rk.set_packet_params(&pp))
    });
    match r {
        Ok(Ok(())) => col.event("freq_blocks_after_modulation_params"),
        // a pair the chip does not support, or a panic the statement does not speak about: the block
        // runs on whatever was programmed
        _ => col.event("freq_blocks_priming_refused"),
    }
}

fn freq_sweep<RK: RadioKind>(chip: FChip, name: &str, rk: &mut RK, bus: &Bus, idx: u64, col: &mut Collector) {
    let sg = segs(col.tier);
    let b = freq_block(col.tier);
    let mut n = 0u64;
    let mut last_bucket = u32::MAX;
    for k in idx * b..(idx + 1) * b {
        let Some(f) = freq_nth(&sg, k) else { break };
        n += 1;
        {
            let mut c = bus.chip();
            c.rf_word = None;
            c.reg_written = 0;
        }
        let r = trap(|| block_on(rk.set_channel(f)));
        let bucket = f / 100_000_000;
        if bucket != last_bucket {
            last_bucket = bucket;
            col.class(&format!("{}|freq|{}00MHz", name, bucket));
        }
        let bd = band(f);
        match r {
            Err(t) => {
                viol(col, &format!("C17|freq|panic|{}/{}", name, bd), "set_channel panicked", || json!({"chip": name, "freq": f, "panic": t.msg, "loc": t.loc}));
                continue;
            }
            Ok(Err(e)) => {
                viol(col, &format!("C17|freq|refused|{}/{}", name, bd), "set_channel returned an error on a fault-free bus", || json!({"chip": name, "freq": f, "error": format!("{:?}", e)}));
                continue;
            }
            Ok(Ok(())) => {}
        }
        let c = bus.chip();
        match chip {
            FChip::Sx126x => {
                let Some((_, w)) = c.rf_word else {
                    drop(c);
                    viol(col, &format!("C17|freq|not-written|{}/{}", name, bd), "no SetRfFrequency command on the bus", || json!({"chip": name, "freq": f}));
                    continue;
                };
                drop(c);
                // f_dec = w * 32e6 / 2^25 = w * 15625 / 16384
                let a = w as i128 * 15_625;
                let bb = f as i128 * 16_384;
                let d = (a - bb).abs();
                if d >= 16_384 {
                    viol(col, &format!("C17|freq|off>=1Hz|{}/{}", name, bd), "decoded PLL word is 1 Hz or more away from the request", || {
                        json!({"chip": name, "freq": f, "word": w, "decoded_hz": w as f64 * 15625.0 / 16384.0, "nearest_word": ((bb + 7812) / 15_625) as u64})
                    });
                } else if 2 * d > 15_625 {
                    viol(col, &format!("C17|freq|not-nearest|{}/{}", name, bd), "PLL word is not the nearest synthesiser step", || {
                        json!({"chip": name, "freq": f, "word": w, "decoded_hz": w as f64 * 15625.0 / 16384.0, "nearest_word": ((bb + 7812) / 15_625) as u64})
                    });
                }
            }
            FChip::Sx127x => {
                let ok = c.was_written(SX127X_REG_FRF_MSB) && c.was_written(SX127X_REG_FRF_MID) && c.was_written(SX127X_REG_FRF_LSB);
                let frf = ((c.regs[SX127X_REG_FRF_MSB as usize] as u32) << 16) | ((c.regs[SX127X_REG_FRF_MID as usize] as u32) << 8) | c.regs[SX127X_REG_FRF_LSB as usize] as u32;
                drop(c);
                if !ok {
                    viol(col, &format!("C17|freq|not-written|{}/{}", name, bd), "RegFrfMsb/Mid/Lsb were not all written", || json!({"chip": name, "freq": f}));
                    continue;
                }
                // f_dec = frf * 32e6 / 2^19 = frf * 15625 / 256
                let d = (f as i128 * 256 - frf as i128 * 15_625).abs();
                if d >= 62 * 256 {
                    viol(col, &format!("C17|freq|off>=62Hz|{}/{}", name, bd), "decoded Frf is 62 Hz or more away from the request", || {
                        json!({"chip": name, "freq": f, "frf": frf, "decoded_hz": frf as f64 * 15625.0 / 256.0})
                    });
                }
            }
            FChip::Lr1110 => {
                let w = c.rf_word;
                drop(c);
                match w {
                    None => viol(col, &format!("C17|freq|not-written|{}/{}", name, bd), "no SetRfFrequency command on the bus", || json!({"chip": name, "freq": f})),
                    Some((_, w)) if w != f => viol(col, &format!("C17|freq|mismatch|{}/{}", name, bd), "LR11xx SetRfFrequency takes Hz; the value differs from the request", || json!({"chip": name, "freq": f, "written": w})),
                    _ => {}
                }
            }
        }
    }
    col.eval_n(n);
    col.event_n(&format!("freq_judged:{}", name), n);
    if col.want_sample() {
        col.sample(json!({"chip": name, "first_freq": freq_nth(&sg, idx * b), "count": n}));
    }
}

impl Monitor for C17 {
    fn prop(&self) -> &'static str {
        "C17"
    }
    fn gens(&self, tier: Tier) -> Vec<Gen> {
        let fb = freq_total(tier).div_ceil(freq_block(tier));
        vec![
            gen("freq-sx126x", fb),
            gen("freq-sx127x", fb),
            gen("freq-lr1110", fb),
            gen("power", power::CASES),
            gen("symb-timeout", rx::SYMB_CHIPS * tier.pick(16, 16, 1)),
            gen("adapter", rx::ADAPTER_TARGETS * tier.pick(80, 80, 4)),
            gen("pktstatus-sx126x", tier.pick(256, 256, 2)),
            gen("pktstatus-lr1110", tier.pick(256, 256, 2)),
            gen("pktstatus-sx127x", 3 * tier.pick(256, 256, 2)),
            gen("rssi-inst", 5),
            gen("status-after-hop", status::HOP_CASES),
        ]
    }
    fn exhaustive(&self, _tier: Tier) -> bool {
        false
    }
    fn rule(&self) -> String {
        "freq-<chip>: case = block of consecutive entries of the frequency list (quick: every 1 Hz of the EU433/CN470/EU868/US915-AS923 bands + stride 97 Hz over 137-1020 MHz + both 20 kHz ends at 1 Hz; thorough: every 1 Hz of 137-1020 MHz), each through RadioKind::set_channel on a recording bus; \
         power: case = (variant, PA path, band, with/without modulation params), every request -128..127 + i32 extremes, ascending/descending/shuffled, both ramp modes, through set_tx_power_and_ramp_time; \
         symb-timeout: every symbol count 0..65535 through do_rx(Single(n)) on SX1261, SX1276, SX1272, LR1110; \
         adapter: case = (target in {recording RadioKind, SX1262, SX1276}, SF, BW), every margin 0..1000 ms through LorawanRadio::setup_rx + rx_single; \
         pktstatus-sx126x: all 2^24 raw GetPacketStatus triples; pktstatus-lr1110 / pktstatus-sx127x: all 2^16 (rssi, snr) pairs (SX1276 LF, SX1276 HF, SX1272); rssi-inst: all 256 raw values per chip; status-after-hop: SX1276/SX1272 configured for reception on one of {433.175, 470.3, 868.1, 915.0} MHz, then moved to another by a bare channel switch (rx_switch_channel) or a full reconfiguration, RSSI conversions checked against the band now programmed. \
         Class = (chip, quantity, range class)."
            .into()
    }
    fn assumptions(&self) -> Vec<String> {
        let mut v = vec![
            "SX126x: f = word * 32 MHz / 2^25; SX127x: f = Frf * 32 MHz / 2^19 and only |request - decoded| < 62 Hz is required (truncation and rounding both pass); LR11xx SetRfFrequency takes Hz and must equal the request".into(),
        ];
        v.extend(power::assumptions());
        v.extend(rx::assumptions());
        v.extend(status::assumptions());
        v
    }
    fn required_events(&self, tier: Tier) -> Vec<&'static str> {
        let mut v = vec!["freq_judged:sx126x", "freq_judged:sx127x", "freq_judged:lr1110", "power_judged", "symb_judged", "adapter_judged:recorder", "pktstatus_ok:sx126x", "pktstatus_ok:sx127x", "rssi_inst_ok"];
        if tier != Tier::Sanitizer {
            v.extend(["power_clamped_low", "power_clamped_high", "power_in_range", "symb_above_chip_max", "adapter_judged:sx1262", "adapter_judged:sx1276", "pktstatus_snr_negative", "pktstatus_ok:lr1110"]);
        }
        v
    }

    fn run_case(&self, g: &str, idx: u64, rng: &mut Prng, col: &mut Collector) {
        match g {
            // two blocks in three run on a driver whose modulation and packet parameters were programmed
            // first, the way every prepare_for_* does before it sets the channel (all ten bandwidths: what the
            // driver does for a bandwidth - errata, IF settings - must not move the carrier it is asked for)
            "freq-sx126x" => {
                let (mut rk, bus) = new_sx1262();
                prime(&mut rk, idx, rng, col);
                freq_sweep(FChip::Sx126x, "sx126x", &mut rk, &bus, idx, col);
            }
            "freq-sx127x" => {
                if idx % 2 == 0 {
                    let (mut rk, bus) = new_sx1276(rng.bool());
                    prime(&mut rk, idx / 2, rng, col);
                    freq_sweep(FChip::Sx127x, "sx127x", &mut rk, &bus, idx, col);
                } else {
                    let (mut rk, bus) = new_sx1272(rng.bool());
                    prime(&mut rk, idx / 2, rng, col);
                    freq_sweep(FChip::Sx127x, "sx127x", &mut rk, &bus, idx, col);
                }
            }
            "freq-lr1110" => {
                let (mut rk, bus) = new_lr1110(lora_phy::lr1110::PaSelection::Lp);
                prime(&mut rk, idx, rng, col);
                freq_sweep(FChip::Lr1110, "lr1110", &mut rk, &bus, idx, col);
            }
            "power" => power::run(idx, rng, col),
            "symb-timeout" => rx::run_symb(idx, rng, col),
            "adapter" => rx::run_adapter(idx, rng, col),
            "pktstatus-sx126x" => status::run_sx126x(idx, rng, col),
            "pktstatus-lr1110" => status::run_lr1110(idx, rng, col),
            "pktstatus-sx127x" => status::run_sx127x(idx, rng, col),
            "rssi-inst" => status::run_rssi_inst(idx, rng, col),
            "status-after-hop" => status::run_after_hop(idx, rng, col),
            _ => unreachable!(),
        }
    }
}
