//! C01 — every frame the library builds is byte-exact LoRaWAN 1.0.x.
//! Oracle: the independent reference codec (lrv-core::refcodec) encodes the same description.

use crate::common::*;
use lorawan::parser::Error;
use lrv_core::refcodec::*;
use lrv_core::*;

pub struct C01;

const NCROSS: u64 = 4 * 16 * 16 * 3; // type x flags x FOptsLen x payload kind

impl Monitor for C01 {
    fn prop(&self) -> &'static str {
        "C01"
    }
    fn gens(&self, tier: Tier) -> Vec<Gen> {
        vec![
            gen("data-cross", NCROSS * tier.pick(40, 400, 0)),
            gen("data-lengths", 2 * 243 * 3 * tier.pick(30, 300, 0)),
            gen("data-forbidden", tier.pick(60_000, 600_000, 12)),
            gen("join-request", tier.pick(65_536, 65_536 * 3, 8)),
            gen("join-accept", tier.pick(256 * 16 * 8, 256 * 16 * 80, 12)),
            gen("data-random", tier.pick(200_000, 4_000_000, 150)),
        ]
    }
    fn rule(&self) -> String {
        "data-cross: full cross of frame type x 16 flag combinations x FOptsLen 0..15 x payload kind {none,data,mac-on-port-0} with random length/FCnt/keys; data-lengths: every payload length 0..242 for both payload kinds and all 3 crypto variants; data-forbidden: FOpts 16..20, FOpts with port 0, Data without app crypto, every too-small buffer size; join-request: DevNonce sweep; join-accept: DLSettings x RxDelay x CFList kind. Class = (frame kind, mtype, flags, FOptsLen, payload kind, ceil(len/16), FCnt class, crypto variant, verdict).".into()
    }
    fn assumptions(&self) -> Vec<String> {
        vec![
            "reference codec written from the LoRaWAN 1.0.x text; validated at start-up against FIPS-197, RFC 4493 and a public LoRaWAN frame vector".into(),
            "uplink FCtrl bit 4 and downlink FCtrl bit 6 are RFU/ClassB and always 0 for built frames; a description's adr_ack_req on a downlink and f_pending on an uplink are not part of the frame".into(),
            "type-1 CFList is ChMask (9 bytes) followed by zero RFU bytes and the type octet".into(),
        ]
    }
    fn required_events(&self, tier: Tier) -> Vec<&'static str> {
        if tier == Tier::Sanitizer {
            vec!["built_ok"]
        } else {
            vec!["built_ok", "refused_fopts_too_long", "refused_fopts_port0", "refused_missing_key", "refused_buffer", "join_request_ok", "join_accept_ok"]
        }
    }

    fn run_case(&self, g: &str, idx: u64, rng: &mut Prng, col: &mut Collector) {
        match g {
            "data-cross" => {
                let c = idx % NCROSS;
                let kind = (c % 3) as u8;
                let fol = ((c / 3) % 16) as usize;
                let flags = ((c / 48) % 16) as u8;
                let mtype = 2 + ((c / 768) % 4) as u8;
                let len = if kind == 0 { 0 } else { rng.below(243) as usize };
                let fcnt = if idx / NCROSS == 0 { FCNT_SPECIAL[(c % 14) as usize] } else { gen_fcnt(rng) };
                let d = gen_desc(rng, mtype, flags, fol, kind, len, fcnt);
                let variant = rng.below(3) as usize;
                if kind == 2 && fol > 0 {
                    // the cross contains the forbidden corner "FOpts together with port 0"
                    let nwk: [u8; 16] = rng.arr();
                    let app: [u8; 16] = rng.arr();
                    expect_refusal(&d, 300, &nwk, &app, variant, true, Error::FOptsWithFPortZero, "fopts_port0", col);
                } else {
                    check_data(&d, variant, rng, col);
                }
            }
            "data-lengths" => {
                let len = (idx % 243) as usize;
                let kind = 1 + ((idx / 243) % 2) as u8;
                let variant = ((idx / 486) % 3) as usize;
                let mtype = rng.range(2, 5) as u8;
                let fol = if kind == 2 { 0 } else { rng.below(16) as usize };
                let fcnt = gen_fcnt(rng);
                let flags = rng.below(16) as u8;
                let d = gen_desc(rng, mtype, flags, fol, kind, len, fcnt);
                check_data(&d, variant, rng, col);
            }
            "data-random" => {
                let d = gen_any_desc(rng);
                let variant = rng.below(3) as usize;
                check_data(&d, variant, rng, col);
            }
            "data-forbidden" => forbidden(idx, rng, col),
            "join-request" => join_request(idx, rng, col),
            "join-accept" => join_accept(idx, rng, col),
            _ => unreachable!(),
        }
    }
}

fn check_data(d: &DataDesc, variant: usize, rng: &mut Prng, col: &mut Collector) {
    let nwk: [u8; 16] = rng.arr();
    let app: [u8; 16] = rng.arr();
    let exp = encode_data(d, &nwk, &app).expect("legal description");
    let extra = rng.below(8) as usize;
    let mut buf = vec![0xA5u8; exp.len() + extra];
    let dd = d.clone();
    let r = trap(|| build_repo_data(&dd, &mut buf, &nwk, &app, variant, true));
    let kind = match d.f_port {
        None => "none",
        Some(0) => "mac",
        _ => "data",
    };
    let flags = (d.adr as u8) | (d.adr_ack_req as u8) << 1 | (d.ack as u8) << 2 | (d.f_pending as u8) << 3;
    let class = format!("data|{}|{}|{}|{}|{}|{}|{}", d.mtype, flags, d.f_opts.len(), kind, len_bucket(d.frm.len()), fcnt_class(d.fcnt), VARIANTS[variant]);
    col.eval(&class);
    if col.want_sample() {
        col.sample(json!({"desc": desc_json(d), "variant": VARIANTS[variant], "expected": hex(&exp)}));
    }
    let sigbase = format!("C01|data|{}|fopts={}|{}", kind, if d.f_opts.is_empty() { "0" } else { "n" }, VARIANTS[variant]);
    match r {
        Err(t) => col.violation(&format!("{}|panic|{}", sigbase, t.file()), "builder panicked on a legal description", json!({"desc": desc_json(d), "panic": t.msg, "loc": t.loc})),
        Ok(Err(e)) => col.violation(&format!("{}|refused|{:?}", sigbase, e), "builder refused a legal description", json!({"desc": desc_json(d), "error": format!("{:?}", e)})),
        Ok(Ok(n)) => {
            col.event("built_ok");
            if buf[..n] != exp[..] {
                // classify the first differing region
                let region = diff_region(&buf[..n], &exp, d);
                col.violation(
                    &format!("{}|bytes-differ|{}|fcnt={}", sigbase, region, if d.fcnt > 0xFFFF { "hi" } else { "lo" }),
                    "built frame differs from the reference encoding",
                    json!({"desc": desc_json(d), "got": hex(&buf[..n]), "expected": hex(&exp), "nwk": hex(&nwk), "app": hex(&app)}),
                );
            }
        }
    }
}

fn diff_region(got: &[u8], exp: &[u8], d: &DataDesc) -> &'static str {
    if got.len() != exp.len() {
        return "length";
    }
    let first = got.iter().zip(exp).position(|(a, b)| a != b).unwrap_or(0);
    let hdr_end = 8 + d.f_opts.len();
    if first == 0 {
        "mhdr"
    } else if first < 5 {
        "devaddr"
    } else if first == 5 {
        "fctrl"
    } else if first < 8 {
        "fcnt"
    } else if first < hdr_end {
        "fopts"
    } else if first >= exp.len() - 4 {
        "mic"
    } else if d.f_port.is_some() && first == hdr_end {
        "fport"
    } else {
        "frmpayload"
    }
}

fn forbidden(idx: u64, rng: &mut Prng, col: &mut Collector) {
    let nwk: [u8; 16] = rng.arr();
    let app: [u8; 16] = rng.arr();
    let variant = rng.below(3) as usize;
    let mode = idx % 4;
    let mut d = gen_any_desc(rng);
    let (expect, name): (Error, &str);
    let mut with_app = true;
    let mut buflen = 300usize;
    match mode {
        0 => {
            // FOpts longer than 15 bytes (any payload kind)
            // (one in five: a length whose low octet looks legal, 256..271 / 512..527, with room for it)
            let n = if rng.chance(1, 5) { 256 * rng.range(1, 3) as usize + rng.below(16) as usize } else { 16 + rng.below(5) as usize + if rng.chance(1, 10) { rng.below(200) as usize } else { 0 } };
            d.f_opts = rng.bytes(n);
            buflen = n + 300;
            expect = Error::FOptsTooLong;
            name = "fopts_too_long";
        }
        1 => {
            // FOpts together with port 0
            d.f_port = Some(0);
            let n = rng.range(1, 15) as usize;
            d.f_opts = rng.bytes(n);
            expect = Error::FOptsWithFPortZero;
            name = "fopts_port0";
        }
        2 => {
            // application data without an application key
            if d.f_port.is_none() || d.f_port == Some(0) {
                d.f_port = Some(rng.range(1, 255) as u8);
            }
            with_app = false;
            expect = Error::MissingKey;
            name = "missing_key";
        }
        _ => {
            let total = encode_data(&d, &nwk, &app).unwrap().len();
            buflen = if rng.chance(1, 3) { total - 1 } else { rng.below(total as u64) as usize };
            expect = Error::BufferTooShort;
            name = "buffer";
        }
    }
    expect_refusal(&d, buflen, &nwk, &app, variant, with_app, expect, name, col);
}

#[allow(clippy::too_many_arguments)]
fn expect_refusal(d: &DataDesc, buflen: usize, nwk: &[u8; 16], app: &[u8; 16], variant: usize, with_app: bool, expect: Error, name: &str, col: &mut Collector) {
    let mut buf = vec![0xA5u8; buflen];
    let dd = d.clone();
    let r = trap(|| build_repo_data(&dd, &mut buf, nwk, app, variant, with_app));
    col.eval(&format!("forbidden|{}|{}|{}|{}", name, d.mtype, d.f_port.map(|p| (p != 0) as u8 + 1).unwrap_or(0), VARIANTS[variant]));
    if col.want_sample() {
        col.sample(json!({"forbidden": name, "desc": desc_json(d), "buffer_len": buflen}));
    }
    let sig = format!("C01|forbidden|{}", name);
    match r {
        Err(t) => col.violation(&format!("{}|panic|{}", sig, t.file()), "builder panicked on a forbidden description", json!({"desc": desc_json(d), "buflen": buflen, "panic": t.msg, "loc": t.loc})),
        Ok(Ok(n)) => col.violation(&format!("{}|yielded-frame", sig), "forbidden description yielded a frame", json!({"desc": desc_json(d), "buflen": buflen, "got": hex(&buf[..n])})),
        Ok(Err(e)) => {
            col.event(&format!("refused_{}", name));
            // Any refusal satisfies the statement; a description that is forbidden for two
            // reasons may report either. Record unexpected variants for information only.
            if e != expect {
                col.event("refused_with_other_variant");
            }
        }
    }
}

fn join_request(idx: u64, rng: &mut Prng, col: &mut Collector) {
    let nonce = (idx % 65_536) as u16;
    let variant = ((idx / 65_536) % 3) as usize;
    let key: [u8; 16] = rng.arr();
    let je: [u8; 8] = rng.arr();
    let de: [u8; 8] = rng.arr();
    let exp = encode_join_request(&key, &je, &de, nonce);
    let short = rng.chance(1, 16);
    let buflen = if short { rng.below(23) as usize } else { 23 + rng.below(4) as usize };
    let mut buf = vec![0xA5u8; buflen];
    let r = trap(|| build_repo_join_request(&mut buf, &key, &je, &de, nonce, variant));
    col.eval(&format!("joinreq|{}|{}|{}", nonce >> 12, VARIANTS[variant], short));
    if col.want_sample() {
        col.sample(json!({"join_request": {"join_eui_wire": hex(&je), "dev_eui_wire": hex(&de), "dev_nonce": nonce}, "expected": hex(&exp)}));
    }
    match r {
        Err(t) => col.violation(&format!("C01|joinreq|panic|{}", t.file()), "JoinRequest builder panicked", json!({"nonce": nonce, "buflen": buflen, "panic": t.msg})),
        Ok(Ok(n)) => {
            if short {
                col.violation("C01|joinreq|short-buffer-yielded-frame", "JoinRequest built into a too-small buffer", json!({"buflen": buflen}));
            } else if buf[..n] != exp[..] {
                col.violation("C01|joinreq|bytes-differ", "JoinRequest differs from the reference", json!({"got": hex(&buf[..n]), "expected": hex(&exp), "key": hex(&key)}));
            } else {
                col.event("join_request_ok");
            }
        }
        Ok(Err(e)) => {
            if !short {
                col.violation(&format!("C01|joinreq|refused|{:?}", e), "legal JoinRequest refused", json!({"nonce": nonce}));
            } else {
                col.event("refused_buffer");
            }
        }
    }
}

fn join_accept(idx: u64, rng: &mut Prng, col: &mut Collector) {
    let dl = (idx % 256) as u8;
    let rxd = ((idx / 256) % 16) as u8;
    let cfk = rng.below(3);
    let cf = match cfk {
        0 => CfDesc::None,
        1 => {
            let mut f = [0u32; 5];
            for x in f.iter_mut() {
                *x = if rng.chance(1, 6) { *rng.pick(&[0u32, 0xFF_FFFF, 8_681_000]) } else { rng.below(1 << 24) as u32 };
            }
            // structured lists: every entry unused (a list is a list, 16 octets on the air), all but one, all the same
            match rng.below(12) {
                0 => f = [0; 5],
                1 => {
                    let keep = rng.below(5) as usize;
                    for (i, x) in f.iter_mut().enumerate() {
                        if i != keep {
                            *x = 0;
                        }
                    }
                }
                2 => f = [f[0]; 5],
                _ => {}
            }
            CfDesc::Dynamic(f)
        }
        _ => CfDesc::Fixed(match rng.below(8) {
            0 => [0; 9],
            1 => [0xFF; 9],
            _ => rng.arr(),
        }),
    };
    let d = JoinAcceptDesc {
        join_nonce: rng.below(1 << 24) as u32,
        net_id: rng.below(1 << 24) as u32,
        dev_addr: rng.next_u32(),
        dl_settings: dl,
        rx_delay: rxd,
        cf_list: cf_bytes(&cf),
    };
    let key: [u8; 16] = rng.arr();
    let variant = 1 + rng.below(2) as usize;
    let exp = encode_join_accept(&key, &d);
    let short = rng.chance(1, 16);
    let buflen = if short { rng.below(exp.len() as u64) as usize } else { exp.len() + rng.below(4) as usize };
    let mut buf = vec![0xA5u8; buflen];
    let dd = d.clone();
    let cf2 = cf.clone();
    let r = trap(|| build_repo_join_accept(&mut buf, &key, &dd, &cf2, variant));
    col.eval(&format!("joinacc|{}|{}|{}|{}|{}", dl, rxd, cfk, VARIANTS[variant], short));
    if col.want_sample() {
        col.sample(json!({"join_accept": {"join_nonce": d.join_nonce, "net_id": d.net_id, "dev_addr": d.dev_addr, "dl_settings": dl, "rx_delay": rxd, "cf_list": d.cf_list.map(|c| hex(&c))}, "expected": hex(&exp)}));
    }
    match r {
        Err(t) => col.violation(&format!("C01|joinacc|panic|{}", t.file()), "JoinAccept builder panicked", json!({"panic": t.msg, "loc": t.loc, "buflen": buflen})),
        Ok(Ok(n)) => {
            if short {
                col.violation("C01|joinacc|short-buffer-yielded-frame", "JoinAccept built into a too-small buffer", json!({"buflen": buflen}));
            } else if buf[..n] != exp[..] {
                let region = if n != exp.len() { "length" } else { "bytes" };
                col.violation(&format!("C01|joinacc|differ|{}|cflist={}", region, cfk), "JoinAccept differs from the reference", json!({"got": hex(&buf[..n]), "expected": hex(&exp), "key": hex(&key), "dl": dl, "rxd": rxd}));
            } else {
                col.event("join_accept_ok");
            }
        }
        Ok(Err(e)) => {
            if !short {
                col.violation(&format!("C01|joinacc|refused|{:?}", e), "legal JoinAccept refused", json!({"dl": dl}));
            } else {
                col.event("refused_buffer");
            }
        }
    }
}
