//! Minimal single-threaded executor. The emulated bus completes every future immediately, so a
//! poll loop with a no-op waker and a poll budget is enough. Exceeding the budget is a harness
//! error (the panic escapes to the runner => inconclusive), never a verdict.

use std::future::Future;
use std::pin::pin;
use std::task::{Context, Poll, Waker};

pub const POLL_BUDGET: u32 = 10_000;

pub fn block_on<F: Future>(f: F) -> F::Output {
    let mut f = pin!(f);
    let mut cx = Context::from_waker(Waker::noop());
    for _ in 0..POLL_BUDGET {
        if let Poll::Ready(v) = f.as_mut().poll(&mut cx) {
            return v;
        }
    }
    panic!("lrv-phy executor: future still pending after {} polls", POLL_BUDGET);
}
