//! Network-server side of the simulation, built only on the reference codec.

use lrv_core::refcodec::*;

#[derive(Clone, Debug)]
pub struct Net {
    pub nwk: [u8; 16],
    pub app: [u8; 16],
    pub addr: u32,
}

#[derive(Clone, Debug, Default)]
pub struct Down<'a> {
    pub fcnt: u32,
    pub confirmed: bool,
    pub ack: bool,
    pub adr: bool,
    pub f_pending: bool,
    pub f_opts: &'a [u8],
    pub port: Option<u8>,
    pub payload: &'a [u8],
    /// RFU bits of the MHDR (bits 4..2) as sent; the MIC covers the MHDR as sent
    pub mhdr_rfu: u8,
}

impl Net {
    pub fn downlink(&self, d: &Down<'_>) -> Vec<u8> {
        let desc = DataDesc {
            mtype: if d.confirmed { MT_CONF_DOWN } else { MT_UNCONF_DOWN },
            dev_addr: self.addr,
            adr: d.adr,
            adr_ack_req: false,
            ack: d.ack,
            f_pending: d.f_pending,
            fcnt: d.fcnt,
            f_opts: d.f_opts.to_vec(),
            f_port: d.port,
            frm: d.payload.to_vec(),
        };
        if d.mhdr_rfu & 7 != 0 {
            return lrv_core::refcodec::encode_data_rfu(&desc, &self.nwk, &self.app, d.mhdr_rfu).expect("legal downlink description");
        }
        if d.port == Some(0) && !d.f_opts.is_empty() {
            return lrv_core::refcodec::encode_data_on_the_wire(&desc, &self.nwk, &self.app).expect("encodable downlink description");
        }
        encode_data(&desc, &self.nwk, &self.app).expect("legal downlink description")
    }

    /// A downlink carrying MAC commands, in FOpts (`in_fopts`) or on port 0.
    pub fn mac_downlink(&self, fcnt: u32, cmds: &[u8], in_fopts: bool) -> Vec<u8> {
        if in_fopts && cmds.len() <= 15 {
            self.downlink(&Down { fcnt, f_opts: cmds, ..Default::default() })
        } else {
            self.downlink(&Down { fcnt, port: Some(0), payload: cmds, ..Default::default() })
        }
    }

    /// Decodes an uplink of this session: finds the unique full counter >= `min` whose low half
    /// is on the wire and for which the MIC verifies (searching a few epochs upward).
    pub fn decode_uplink(&self, bytes: &[u8], min: u32) -> Option<Uplink> {
        let v = decode_data(bytes).ok()?;
        if !v.uplink() || v.dev_addr != self.addr {
            return None;
        }
        let lo = v.fcnt16 as u32;
        let mut cand = (min & 0xFFFF_0000) | lo;
        if cand < min {
            cand = cand.checked_add(0x1_0000)?;
        }
        for _ in 0..4 {
            if verify_data_mic(bytes, &self.nwk, cand) == Some(true) {
                let plain = decrypt_data(&v, &self.nwk, &self.app, cand);
                return Some(Uplink { view: v, fcnt: cand, plain });
            }
            cand = match cand.checked_add(0x1_0000) {
                Some(c) => c,
                None => break,
            };
        }
        None
    }

    /// Like decode_uplink but tries every epoch (used to detect counter reuse / going back).
    pub fn decode_uplink_any(&self, bytes: &[u8], hint: u32) -> Option<Uplink> {
        let v = decode_data(bytes).ok()?;
        let lo = v.fcnt16 as u32;
        let base = hint >> 16;
        let mut epochs: Vec<u32> = vec![base, base.wrapping_add(1), base.wrapping_sub(1), 0, 0xFFFF, 1];
        epochs.dedup();
        for e in epochs {
            if e > 0xFFFF {
                continue;
            }
            let cand = (e << 16) | lo;
            if verify_data_mic(bytes, &self.nwk, cand) == Some(true) {
                let plain = decrypt_data(&v, &self.nwk, &self.app, cand);
                return Some(Uplink { view: v, fcnt: cand, plain });
            }
        }
        None
    }
}

#[derive(Clone, Debug)]
pub struct Uplink {
    pub view: DataView,
    pub fcnt: u32,
    pub plain: Vec<u8>,
}

impl Uplink {
    /// MAC answers carried by this uplink (FOpts, or the port-0 payload).
    pub fn mac_bytes(&self) -> Vec<u8> {
        if self.view.f_port == Some(0) {
            self.plain.clone()
        } else {
            self.view.f_opts.clone()
        }
    }
}

// ---- MAC command bytes (network -> device), written from LoRaWAN 1.0.x section 5 ----------

pub fn link_adr_req(dr: u8, txpower: u8, chmask: u16, chmaskcntl: u8, nbtrans: u8) -> Vec<u8> {
    vec![0x03, (dr << 4) | (txpower & 0x0f), chmask as u8, (chmask >> 8) as u8, ((chmaskcntl & 7) << 4) | (nbtrans & 0x0f)]
}
pub fn duty_cycle_req(v: u8) -> Vec<u8> {
    vec![0x04, v]
}
pub fn rx_param_setup_req(dl_settings: u8, freq_100hz: u32) -> Vec<u8> {
    vec![0x05, dl_settings, freq_100hz as u8, (freq_100hz >> 8) as u8, (freq_100hz >> 16) as u8]
}
pub fn dev_status_req() -> Vec<u8> {
    vec![0x06]
}
pub fn new_channel_req(index: u8, freq_100hz: u32, dr_range: u8) -> Vec<u8> {
    vec![0x07, index, freq_100hz as u8, (freq_100hz >> 8) as u8, (freq_100hz >> 16) as u8, dr_range]
}
pub fn rx_timing_setup_req(settings: u8) -> Vec<u8> {
    vec![0x08, settings]
}
pub fn tx_param_setup_req(v: u8) -> Vec<u8> {
    vec![0x09, v]
}
pub fn dl_channel_req(index: u8, freq_100hz: u32) -> Vec<u8> {
    vec![0x0A, index, freq_100hz as u8, (freq_100hz >> 8) as u8, (freq_100hz >> 16) as u8]
}
pub fn link_check_ans(margin: u8, gw: u8) -> Vec<u8> {
    vec![0x02, margin, gw]
}
pub fn device_time_ans(secs: u32, frac: u8) -> Vec<u8> {
    let s = secs.to_le_bytes();
    vec![0x0D, s[0], s[1], s[2], s[3], frac]
}

/// Length of the payload of an *uplink* (device -> network) MAC command, per CID.
pub fn uplink_cmd_len(cid: u8) -> Option<usize> {
    Some(match cid {
        0x02 => 0, // LinkCheckReq
        0x03 => 1, // LinkADRAns
        0x04 => 0, // DutyCycleAns
        0x05 => 1, // RXParamSetupAns
        0x06 => 2, // DevStatusAns
        0x07 => 1, // NewChannelAns
        0x08 => 0, // RXTimingSetupAns
        0x09 => 0, // TXParamSetupAns
        0x0A => 1, // DlChannelAns
        0x0D => 0, // DeviceTimeReq
        _ => return None,
    })
}

/// Splits an uplink MAC stream into whole commands; Err(offset) at the first malformed one.
pub fn parse_uplink_cmds(b: &[u8]) -> Result<Vec<(u8, Vec<u8>)>, usize> {
    let mut i = 0;
    let mut out = vec![];
    while i < b.len() {
        let cid = b[i];
        let n = uplink_cmd_len(cid).ok_or(i)?;
        if i + 1 + n > b.len() {
            return Err(i);
        }
        out.push((cid, b[i + 1..i + 1 + n].to_vec()));
        i += 1 + n;
    }
    Ok(out)
}
