//! C02 — received frames are authenticated and decoded exactly per spec, else untouched.

use crate::common::*;
use lorawan::default_crypto::DefaultCrypto;
use lorawan::keys::AES128;
use lorawan::parser::{
    parse, DecryptedDataPayload, DecryptedJoinAcceptPayload, EncryptedDataPayload, Error, FrmPayload, JoinRequestPayload, PhyPayload,
};
use lrv_core::refcodec::*;
use lrv_core::*;

pub struct C02;

impl Monitor for C02 {
    fn prop(&self) -> &'static str {
        "C02"
    }
    fn scalable(&self, g: &str) -> bool {
        let _ = g;
        true
    }
    fn gens(&self, tier: Tier) -> Vec<Gen> {
        vec![
            gen("valid", tier.pick(40_000, 3_000_000, 60)),
            gen("valid-rfu", tier.pick(10_000, 500_000, 20)),
            gen("bitflip-all", tier.pick(1_500, 60_000, 2)),
            gen("targeted", tier.pick(60_000, 4_000_000, 60)),
            gen("resize", tier.pick(20_000, 1_000_000, 20)),
            gen("random", tier.pick(256 * 80, 256 * 8_000, 40)),
            gen("join-accept", tier.pick(20_000, 1_000_000, 20)),
            gen("join-request", tier.pick(8_000, 400_000, 10)),
        ]
    }
    fn rule(&self) -> String {
        "valid: frames from C01's generator (parse(build(d)) = d, MIC under true/other counters, checked decode, double decrypt); bitflip-all: every single-bit flip of a valid frame; targeted: MHDR/FCtrl/FCnt/MIC/length-field mutations, wrong/missing keys; resize: truncation/extension by 1..16 bytes; random: random strings of every length 0..255; join-accept/join-request: authentic and corrupted join frames. Class = (generator, reference classification, mutation kind, repo outcome, length bucket).".into()
    }
    fn assumptions(&self) -> Vec<String> {
        vec![
            "structural acceptance is compared as accept/reject + view kind; the particular Error variant is not part of the property".into(),
            "when the caller's counter disagrees with the wire counter in its low half, only MIC equivalence, buffer preservation on failure and decrypt involution are checked (DESIGN section 5)".into(),
        ]
    }
    fn required_events(&self, tier: Tier) -> Vec<&'static str> {
        if tier == Tier::Sanitizer {
            vec!["mic_ok", "mic_bad"]
        } else {
            vec!["mic_ok", "mic_bad", "checked_ok", "checked_err_buffer_intact", "struct_reject", "struct_accept", "roundtrip_ok", "ja_ok", "ja_bad", "jr_ok", "jr_bad", "double_decrypt_ok", "decrypt_other_low_half"]
        }
    }

    fn run_case(&self, g: &str, idx: u64, rng: &mut Prng, col: &mut Collector) {
        match g {
            "valid" => {
                let d = gen_any_desc(rng);
                let nwk: [u8; 16] = rng.arr();
                let app: [u8; 16] = rng.arr();
                let w = encode_data(&d, &nwk, &app).unwrap();
                roundtrip(&d, &w, &nwk, &app, col);
                judge_bytes(&w, &nwk, &app, d.fcnt, "valid", rng, col);
            }
            "valid-rfu" => {
                // authentic frames whose MHDR carries RFU bits: type and direction are still given
                // by MType alone, so they authenticate and decode like any other frame
                let d = gen_any_desc(rng);
                let nwk: [u8; 16] = rng.arr();
                let app: [u8; 16] = rng.arr();
                let w = encode_data_rfu(&d, &nwk, &app, rng.range(1, 8) as u8).unwrap();
                col.event("authentic_with_mhdr_rfu_bits");
                roundtrip(&d, &w, &nwk, &app, col);
                judge_bytes(&w, &nwk, &app, d.fcnt, "valid-rfu", rng, col);
            }
            "bitflip-all" => {
                let mut d = gen_any_desc(rng);
                d.frm.truncate(40);
                let nwk: [u8; 16] = rng.arr();
                let app: [u8; 16] = rng.arr();
                let w = encode_data(&d, &nwk, &app).unwrap();
                for bit in 0..w.len() * 8 {
                    let mut m = w.clone();
                    m[bit / 8] ^= 1 << (bit % 8);
                    judge_bytes(&m, &nwk, &app, d.fcnt, "bitflip", rng, col);
                }
            }
            "targeted" => {
                let d = gen_any_desc(rng);
                let nwk: [u8; 16] = rng.arr();
                let app: [u8; 16] = rng.arr();
                let mut w = encode_data(&d, &nwk, &app).unwrap();
                let n = w.len();
                let kind = idx % 8;
                let name = match kind {
                    0 => {
                        w[0] = rng.u8();
                        "mhdr"
                    }
                    1 => {
                        w[5] = (w[5] & 0xf0) | rng.below(16) as u8;
                        "foptslen"
                    }
                    2 => {
                        w[5] ^= 1 << rng.range(4, 7);
                        "fctrl-flags"
                    }
                    3 => {
                        // one flipped bit; or a pattern over several MIC octets: the same mask in two, three or
                        // all four of them (differences that cancel under XOR / sum to zero pairwise), the MIC
                        // inverted, rotated by one octet, reversed, or zeroed
                        match rng.below(8) {
                            0 | 1 => {
                                let i = n - 1 - rng.below(4) as usize;
                                w[i] ^= 1 << rng.below(8);
                            }
                            2 | 3 => {
                                let m = 1 + rng.below(255) as u8;
                                let k = 2 + rng.below(3) as usize;
                                let start = rng.below(4) as usize;
                                for j in 0..k {
                                    w[n - 4 + (start + j) % 4] ^= m;
                                }
                            }
                            4 => {
                                for j in 0..4 {
                                    w[n - 4 + j] = !w[n - 4 + j];
                                }
                            }
                            5 => w[n - 4..].rotate_left(1),
                            6 => w[n - 4..].reverse(),
                            _ => {
                                let m = 1 + rng.below(255) as u8;
                                let i = rng.below(4) as usize;
                                let j = (i + 1 + rng.below(3) as usize) % 4;
                                w[n - 4 + i] = w[n - 4 + i].wrapping_add(m);
                                w[n - 4 + j] = w[n - 4 + j].wrapping_sub(m);
                            }
                        }
                        col.event("mic_pattern_mutations");
                        "mic"
                    }
                    4 => {
                        w[6 + rng.below(2) as usize] ^= 1 << rng.below(8);
                        "fcnt"
                    }
                    5 => {
                        w[1 + rng.below(4) as usize] ^= 1 << rng.below(8);
                        "devaddr"
                    }
                    6 => {
                        if n > 12 {
                            let i = 8 + rng.below((n - 12) as u64) as usize;
                            w[i] = w[i].wrapping_add(1 + rng.below(255) as u8);
                        }
                        "body"
                    }
                    _ => "wrongkey",
                };
                if kind == 7 {
                    let mut nwk2 = nwk;
                    nwk2[rng.below(16) as usize] ^= 1 << rng.below(8);
                    judge_bytes(&w, &nwk2, &app, d.fcnt, name, rng, col);
                } else {
                    judge_bytes(&w, &nwk, &app, d.fcnt, name, rng, col);
                }
            }
            "resize" => {
                let d = gen_any_desc(rng);
                let nwk: [u8; 16] = rng.arr();
                let app: [u8; 16] = rng.arr();
                let mut w = encode_data(&d, &nwk, &app).unwrap();
                let k = rng.range(1, 16) as usize;
                if rng.bool() {
                    let nl = w.len().saturating_sub(k);
                    w.truncate(nl);
                    judge_bytes(&w, &nwk, &app, d.fcnt, "truncate", rng, col);
                } else {
                    w.extend(rng.bytes(k));
                    judge_bytes(&w, &nwk, &app, d.fcnt, "extend", rng, col);
                }
            }
            "random" => {
                let len = (idx % 256) as usize;
                let mut w = rng.bytes(len);
                if len > 0 && rng.chance(3, 4) {
                    // make the MHDR plausible most of the time
                    w[0] = (rng.below(8) as u8) << 5 | if rng.chance(1, 8) { rng.below(4) as u8 } else { 0 } | (rng.below(8) as u8) << 2;
                }
                let nwk: [u8; 16] = rng.arr();
                let app: [u8; 16] = rng.arr();
                let fc = gen_fcnt(rng);
                judge_bytes(&w, &nwk, &app, fc, "random", rng, col);
            }
            "join-accept" => join_accept(idx, rng, col),
            "join-request" => join_request(idx, rng, col),
            _ => unreachable!(),
        }
    }
}

fn errname(e: &Error) -> String {
    format!("{:?}", e)
}

/// parse(build(d)) == d for frames built by the *repo* builder and by the reference.
fn roundtrip(d: &DataDesc, w: &[u8], nwk: &[u8; 16], app: &[u8; 16], col: &mut Collector) {
    let mut buf = vec![0u8; w.len()];
    let dd = d.clone();
    let built = trap(|| build_repo_data(&dd, &mut buf, nwk, app, 0, true));
    let Ok(Ok(n)) = built else {
        // C01's business; nothing to round-trip
        col.event("roundtrip_build_failed");
        return;
    };
    let mut b = buf[..n].to_vec();
    let nc = DefaultCrypto::new(&AES128(*nwk));
    let ac = DefaultCrypto::new(&AES128(*app));
    let fc = d.fcnt;
    let r = trap(|| {
        DecryptedDataPayload::check_mic_and_decrypt_in_place(&mut b, &nc, Some(&ac), fc).map(|p| {
            let f = p.fhdr();
            let (port, frm) = match p.frm_payload() {
                FrmPayload::None => (p.f_port(), vec![]),
                FrmPayload::Data(x) => (p.f_port(), x.to_vec()),
                FrmPayload::MacCommands(x) => (p.f_port(), x.to_vec()),
            };
            let kind = match p.frm_payload() {
                FrmPayload::None => 0,
                FrmPayload::Data(_) => 1,
                FrmPayload::MacCommands(_) => 2,
            };
            (p.frame_type(), f.dev_addr().value(), f.fctrl().adr(), f.fctrl().adr_ack_req(), f.fctrl().ack(), f.fctrl().f_pending(), f.fcnt(), f.f_opts().to_vec(), port, frm, kind)
        })
    });
    col.eval(&format!("roundtrip|{}|{}|{}", d.mtype, d.f_port.map(|p| (p != 0) as u8 + 1).unwrap_or(0), d.f_opts.len()));
    let up = is_uplink_mtype(d.mtype);
    match r {
        Err(t) => col.violation(&format!("C02|roundtrip|panic|{}", t.file()), "checked decode of a built frame panicked", json!({"desc": desc_json(d), "panic": t.msg})),
        Ok(Err(e)) => col.violation(&format!("C02|roundtrip|rejected|{:?}", e), "a frame built by the library is rejected by its own checked decoder", json!({"desc": desc_json(d), "frame": hex(&buf[..n])})),
        Ok(Ok((ft, addr, adr, aar, ack, fp, fc16, fo, port, frm, kind))) => {
            let exp_kind = match d.f_port {
                None => 0,
                Some(0) => 2,
                _ => 1,
            };
            // Port present with an empty payload round-trips as a present port.
            let ok = ft == frame_type(d.mtype)
                && addr == d.dev_addr
                && adr == d.adr
                && aar == (d.adr_ack_req && up)
                && ack == d.ack
                && fp == (d.f_pending && !up)
                && fc16 == d.fcnt as u16
                && fo == d.f_opts
                && port == d.f_port
                && frm == d.frm
                && kind == exp_kind;
            if ok {
                col.event("roundtrip_ok");
            } else {
                col.violation(
                    &format!("C02|roundtrip|fields-differ|kind={}", exp_kind),
                    "parsing a built frame does not return the description it was built from",
                    json!({"desc": desc_json(d), "frame": hex(&buf[..n]), "got": {"addr": addr, "adr": adr, "adr_ack_req": aar, "ack": ack, "f_pending": fp, "fcnt16": fc16, "f_opts": hex(&fo), "port": port, "frm": hex(&frm)}}),
                );
            }
        }
    }
}

/// The main oracle: everything the receive path says about `w` is compared with the
/// reference decoder.
fn judge_bytes(w: &[u8], nwk: &[u8; 16], app: &[u8; 16], true_fcnt: u32, mutation: &str, rng: &mut Prng, col: &mut Collector) {
    let nc = DefaultCrypto::new(&AES128(*nwk));
    let ac = DefaultCrypto::new(&AES128(*app));
    let refc = classify(w);
    let refd = decode_data(w);

    // (1) structural classification through parse()
    let r = trap(|| {
        parse(w).map(|p| match p {
            PhyPayload::JoinRequest(_) => 0u8,
            PhyPayload::JoinAccept(_) => 1,
            PhyPayload::Data(_) => 2,
        })
    });
    let refkind = match &refc {
        Ok(Frame::JoinRequest { .. }) => Some(0u8),
        Ok(Frame::JoinAccept) => Some(1),
        Ok(Frame::Data(_)) => Some(2),
        Err(_) => None,
    };
    let outcome;
    match &r {
        Err(t) => {
            outcome = "panic".to_string();
            col.violation(&format!("C02|parse|panic|{}", t.file()), "parse panicked", json!({"bytes": hex(w), "panic": t.msg, "loc": t.loc}));
        }
        Ok(res) => {
            let got = res.as_ref().ok().copied();
            outcome = match res {
                Ok(k) => format!("ok{}", k),
                Err(e) => errname(e),
            };
            if got != refkind {
                col.violation(
                    &format!("C02|parse|classification|ref={:?}|got={:?}|{}", refkind, got, match &refc { Err(e) => format!("{:?}", e), _ => "ok".into() }),
                    "structural classification differs from the reference decoder",
                    json!({"bytes": hex(w), "reference": format!("{:?}", refc.as_ref().map(|_| "frame").map_err(|e| *e)), "repo": outcome}),
                );
            } else if got.is_some() {
                col.event("struct_accept");
            } else {
                col.event("struct_reject");
            }
        }
    }
    col.eval(&format!("judge|{}|{:?}|{}|{}", mutation, refkind, outcome, w.len() / 32));
    if col.want_sample() {
        col.sample(json!({"mutation": mutation, "bytes": hex(w), "reference_kind": refkind, "repo": outcome}));
    }

    // (2) data-frame view: fields, MIC equivalence
    let r = trap(|| {
        EncryptedDataPayload::parse(w).map(|p| {
            let f = p.fhdr();
            let v = DataView {
                mtype: match p.frame_type() {
                    lorawan::parser::DataFrameType::UnconfirmedUp => 2,
                    lorawan::parser::DataFrameType::UnconfirmedDown => 3,
                    lorawan::parser::DataFrameType::ConfirmedUp => 4,
                    lorawan::parser::DataFrameType::ConfirmedDown => 5,
                },
                dev_addr: f.dev_addr().value(),
                fctrl: f.fctrl().raw_value(),
                fcnt16: f.fcnt(),
                f_opts: f.f_opts().to_vec(),
                f_port: p.f_port(),
                frm: vec![],
                mic: p.mic().0,
            };
            let flags = (f.fctrl().adr(), f.fctrl().adr_ack_req(), f.fctrl().ack(), f.fctrl().f_pending(), f.fctrl().f_opts_len(), p.is_uplink(), p.is_confirmed(), f.mc_addr().value());
            // MIC verdicts for a family of counters
            let lo = f.fcnt() as u32;
            let cands = [
                true_fcnt,
                true_fcnt.wrapping_add(0x1_0000),
                true_fcnt.wrapping_sub(0x1_0000),
                (true_fcnt & 0xFFFF_0000) ^ 0x8000_0000 | lo,
                true_fcnt ^ 1,
                lo,
                (true_fcnt & 0xFFFF_0000) | lo,
            ];
            let verdicts: Vec<(u32, bool)> = cands.iter().map(|c| (*c, p.validate_mic(&nc, *c))).collect();
            (v, flags, verdicts, p.as_bytes().len())
        })
    });
    match (r, &refd) {
        (Err(t), _) => col.violation(&format!("C02|data-parse|panic|{}", t.file()), "EncryptedDataPayload::parse or an accessor panicked", json!({"bytes": hex(w), "panic": t.msg, "loc": t.loc})),
        (Ok(Err(_)), Err(_)) => {}
        (Ok(Err(e)), Ok(_)) => col.violation(&format!("C02|data-parse|rejects-valid|{:?}", e), "structurally valid data frame rejected", json!({"bytes": hex(w)})),
        (Ok(Ok(_)), Err(e)) => col.violation(&format!("C02|data-parse|accepts-invalid|{:?}", e), "structurally invalid data frame accepted", json!({"bytes": hex(w)})),
        (Ok(Ok((v, flags, verdicts, _))), Ok(rv)) => {
            let mut rv2 = rv.clone();
            rv2.frm = vec![];
            if v != rv2 || flags != (rv.adr(), rv.adr_ack_req(), rv.ack(), rv.f_pending(), rv.f_opts.len(), rv.uplink(), rv.confirmed(), rv.dev_addr) {
                col.violation("C02|data-parse|fields-differ", "header fields differ from the reference decoder", json!({"bytes": hex(w), "repo": format!("{:?} {:?}", v, flags), "reference": format!("{:?}", rv2)}));
            }
            for (c, got) in verdicts {
                let exp = verify_data_mic(w, nwk, c).unwrap();
                if exp {
                    col.event("mic_ok");
                } else {
                    col.event("mic_bad");
                }
                if got != exp {
                    col.violation(
                        &format!("C02|validate_mic|{}|ref={}", if c == true_fcnt { "true-counter" } else if c & 0xFFFF == true_fcnt & 0xFFFF { "other-epoch" } else { "other-low" }, exp),
                        "validate_mic disagrees with the reference MIC",
                        json!({"bytes": hex(w), "nwk": hex(nwk), "fcnt": c, "repo": got, "reference": exp}),
                    );
                }
            }
        }
    }

    // (3) checked decode: untouched on failure, exact on success; double decrypt restores
    let cands = [true_fcnt, true_fcnt.wrapping_add(0x1_0000), true_fcnt ^ 1];
    let c = cands[rng.below(3) as usize];
    let which_app = rng.below(8); // 0: no app key supplied
    let mut buf = w.to_vec();
    let r = trap(|| {
        DecryptedDataPayload::check_mic_and_decrypt_in_place(&mut buf, &nc, if which_app == 0 { None } else { Some(&ac) }, c).map(|p| {
            let frm = match p.frm_payload() {
                FrmPayload::None => (0u8, vec![]),
                FrmPayload::Data(x) => (1, x.to_vec()),
                FrmPayload::MacCommands(x) => (2, x.to_vec()),
            };
            (p.f_port(), frm, p.fhdr().f_opts().to_vec(), p.fhdr().fcnt(), p.fhdr().dev_addr().value(), p.mic().0, p.as_bytes().to_vec())
        })
    });
    match r {
        Err(t) => col.violation(&format!("C02|checked|panic|{}", t.file()), "check_mic_and_decrypt_in_place panicked", json!({"bytes": hex(w), "panic": t.msg, "loc": t.loc})),
        Ok(Err(e)) => {
            if buf != w {
                col.violation(&format!("C02|checked|buffer-modified-on-error|{:?}", e), "checked decoding failed but the caller's buffer was modified", json!({"bytes": hex(w), "after": hex(&buf), "error": errname(&e), "fcnt": c}));
            } else {
                col.event("checked_err_buffer_intact");
            }
            // must only fail when the reference says so
            if let Ok(rv) = &refd {
                let mic_ok = verify_data_mic(w, nwk, c).unwrap();
                let needs_app = rv.f_port.map(|p| p != 0).unwrap_or(false) && !rv.frm.is_empty();
                if mic_ok && !(needs_app && which_app == 0) {
                    col.violation(&format!("C02|checked|rejects-authentic|{:?}", e), "authentic frame rejected by checked decoding", json!({"bytes": hex(w), "fcnt": c, "error": errname(&e)}));
                }
            }
        }
        Ok(Ok((port, (kind, frm), fo, fc16, addr, mic, after))) => match &refd {
            Err(e) => col.violation(&format!("C02|checked|accepts-invalid|{:?}", e), "structurally invalid frame accepted by checked decoding", json!({"bytes": hex(w)})),
            Ok(rv) => {
                let mic_ok = verify_data_mic(w, nwk, c).unwrap();
                if !mic_ok {
                    col.violation("C02|checked|accepts-bad-mic", "frame with a wrong MIC accepted by checked decoding", json!({"bytes": hex(w), "nwk": hex(nwk), "fcnt": c}));
                } else {
                    col.event("checked_ok");
                    // plaintext: defined when the counter's low half matches the wire
                    if c & 0xFFFF == rv.fcnt16 as u32 {
                        let exp = decrypt_data(rv, nwk, app, c);
                        let exp_kind = match rv.f_port {
                            None => 0,
                            Some(0) => 2,
                            _ => 1,
                        };
                        if port != rv.f_port || frm != exp || kind != exp_kind || fo != rv.f_opts || fc16 != rv.fcnt16 || addr != rv.dev_addr || mic != rv.mic {
                            col.violation(
                                &format!("C02|checked|plaintext-differs|kind={}|fcnt={}", exp_kind, if c > 0xFFFF { "hi" } else { "lo" }),
                                "decoded fields/plaintext differ from the reference decoder",
                                json!({"bytes": hex(w), "nwk": hex(nwk), "app": hex(app), "fcnt": c, "got": hex(&frm), "expected": hex(&exp)}),
                            );
                        }
                        // everything outside the FRMPayload is unchanged
                        let s = 8 + rv.f_opts.len() + 1;
                        let n = w.len();
                        let outside_same = if rv.f_port.is_some() { after[..s.min(n)] == w[..s.min(n)] && after[n - 4..] == w[n - 4..] } else { after == w };
                        if !outside_same {
                            col.violation("C02|checked|header-modified", "decryption modified bytes outside the FRMPayload", json!({"bytes": hex(w), "after": hex(&after)}));
                        }
                    }
                }
            }
        },
    }

    // (4) decrypt twice restores the ciphertext (no MIC involved)
    if refd.is_ok() {
        let mut b2 = w.to_vec();
        let r = trap(|| {
            let ok1 = DecryptedDataPayload::decrypt_in_place(&mut b2, Some(&nc), Some(&ac), c).is_ok();
            let ok2 = DecryptedDataPayload::decrypt_in_place(&mut b2, Some(&nc), Some(&ac), c).is_ok();
            (ok1, ok2)
        });
        match r {
            Err(t) => col.violation(&format!("C02|decrypt|panic|{}", t.file()), "decrypt_in_place panicked", json!({"bytes": hex(w), "panic": t.msg})),
            Ok((true, true)) => {
                if b2 != w {
                    col.violation("C02|decrypt|not-involution", "decrypting twice does not restore the ciphertext", json!({"bytes": hex(w), "after": hex(&b2), "fcnt": c}));
                } else {
                    col.event("double_decrypt_ok");
                }
            }
            Ok(x) => col.violation("C02|decrypt|rejects-valid", "decrypt_in_place failed on a structurally valid frame with both keys", json!({"bytes": hex(w), "results": format!("{:?}", x)})),
        }
        // (5) the caller supplies only the upper half of the counter: whatever its lower half is,
        // the keystream is that of (upper half | FCnt on the wire)
        {
            let rv = refd.as_ref().unwrap();
            if !rv.frm.is_empty() {
                let upper = c & 0xFFFF_0000;
                let alt = upper
                    | match rng.below(4) {
                        0 => 0,
                        1 => 0xFFFF,
                        2 => (rv.fcnt16 as u32) ^ 0x8000,
                        _ => rng.below(0x1_0000) as u32,
                    };
                let mut b5 = w.to_vec();
                let r = trap(|| {
                    DecryptedDataPayload::decrypt_in_place(&mut b5, Some(&nc), Some(&ac), alt).map(|p| match p.frm_payload() {
                        FrmPayload::None => vec![],
                        FrmPayload::Data(x) => x.to_vec(),
                        FrmPayload::MacCommands(x) => x.to_vec(),
                    })
                });
                let exp = decrypt_data(rv, nwk, app, upper | rv.fcnt16 as u32);
                match r {
                    Err(t) => col.violation(&format!("C02|decrypt|panic|{}", t.file()), "decrypt_in_place panicked", json!({"bytes": hex(w), "panic": t.msg, "fcnt": alt})),
                    Ok(Err(e)) => col.violation("C02|decrypt|rejects-valid", "decrypt_in_place failed on a structurally valid frame with both keys", json!({"bytes": hex(w), "error": errname(&e), "fcnt": alt})),
                    Ok(Ok(got)) => {
                        col.event("decrypt_other_low_half");
                        if got != exp {
                            col.violation(
                                &format!("C02|decrypt|plaintext-differs|caller-low-half-{}", if alt & 0xFFFF == rv.fcnt16 as u32 { "same" } else { "other" }),
                                "decrypt_in_place: the plaintext is not that of (caller's upper half, FCnt on the wire)",
                                json!({"bytes": hex(w), "nwk": hex(nwk), "app": hex(app), "fcnt_argument": alt, "wire_fcnt": rv.fcnt16, "got": hex(&got), "expected": hex(&exp)}),
                            );
                        }
                    }
                }
            }
        }
        // missing key: Err(MissingKey) and buffer untouched
        let rv = refd.as_ref().unwrap();
        if !rv.frm.is_empty() {
            let mut b3 = w.to_vec();
            let uses_app = rv.f_port.map(|p| p != 0).unwrap_or(false);
            let r = trap(|| {
                if uses_app {
                    DecryptedDataPayload::decrypt_in_place(&mut b3, Some(&nc), None, c).is_err()
                } else {
                    DecryptedDataPayload::decrypt_in_place(&mut b3, None::<&DefaultCrypto>, Some(&ac), c).is_err()
                }
            });
            match r {
                Ok(true) if b3 == w => col.event("missing_key_refused"),
                Ok(true) => col.violation("C02|decrypt|buffer-modified-on-error|MissingKey", "missing key: buffer modified", json!({"bytes": hex(w)})),
                Ok(false) => col.violation("C02|decrypt|missing-key-accepted", "payload decrypted without the key its port needs", json!({"bytes": hex(w)})),
                Err(t) => col.violation(&format!("C02|decrypt|panic|{}", t.file()), "decrypt_in_place panicked", json!({"bytes": hex(w), "panic": t.msg})),
            }
        }
    }
}

fn join_accept(idx: u64, rng: &mut Prng, col: &mut Collector) {
    let key: [u8; 16] = rng.arr();
    let with_cf = rng.bool();
    let d = JoinAcceptDesc {
        join_nonce: rng.below(1 << 24) as u32,
        net_id: rng.below(1 << 24) as u32,
        dev_addr: rng.next_u32(),
        dl_settings: rng.u8(),
        rx_delay: rng.u8(),
        cf_list: if with_cf {
            let mut c: [u8; 16] = rng.arr();
            c[15] = *rng.pick(&[0u8, 0, 1, 1, 2, 0xff]);
            Some(c)
        } else {
            None
        },
    };
    let mut w = encode_join_accept(&key, &d);
    let mutation = idx % 6;
    let mut usekey = key;
    match mutation {
        0 => {}
        1 => {
            let i = rng.below(w.len() as u64) as usize;
            w[i] ^= 1 << rng.below(8);
        }
        2 => usekey[rng.below(16) as usize] ^= 1 << rng.below(8),
        3 => {
            let k = rng.range(1, 5) as usize;
            w.truncate(w.len() - k);
        }
        4 => {
            let k = rng.range(1, 16) as usize;
            w.extend(rng.bytes(k));
        }
        _ => w[0] = rng.u8(),
    }
    let refopen = open_join_accept(&usekey, &w);
    let dev_nonce = rng.next_u32() as u16;
    let kc = DefaultCrypto::new(&AES128(usekey));
    let mut buf = w.clone();
    let r = trap(|| {
        DecryptedJoinAcceptPayload::check_mic_and_decrypt_in_place(&mut buf, &kc).map(|p| {
            let cf = p.c_f_list().map(|c| match c {
                lorawan::parser::CfList::DynamicChannel(f) => {
                    let mut v = vec![0u8];
                    for x in f {
                        v.extend_from_slice(x.as_wire_bytes());
                    }
                    v
                }
                lorawan::parser::CfList::FixedChannel(m) => {
                    let mut v = vec![1u8];
                    v.extend_from_slice(m.as_ref());
                    v
                }
            });
            (
                p.join_nonce().value(),
                p.net_id().value(),
                p.dev_addr().value(),
                // raw octet, and the two fields the accessors cut out of it (RX1DROffset bits 6..4, RX2 data rate bits 3..0)
                p.dl_settings().raw_value() as u32 | (p.dl_settings().rx1_dr_offset() as u32) << 8 | (p.dl_settings().rx2_data_rate() as u32) << 16,
                p.rx_delay(),
                cf,
                p.derive_nwkskey(lorawan::parser::DevNonce::from_value(dev_nonce), &kc).inner().0,
                p.derive_appskey(lorawan::parser::DevNonce::from_value(dev_nonce), &kc).inner().0,
                p.as_bytes().to_vec(),
                p.mic().0,
            )
        })
    });
    col.eval(&format!("ja|{}|{}|{}", mutation, with_cf, match &refopen { None => "struct", Some((_, true)) => "ok", Some((_, false)) => "mic" }));
    if col.want_sample() {
        col.sample(json!({"join_accept_wire": hex(&w), "mutation": mutation, "reference": format!("{:?}", refopen.as_ref().map(|x| x.1))}));
    }
    match (r, refopen) {
        (Err(t), _) => col.violation(&format!("C02|ja|panic|{}", t.file()), "JoinAccept decoding panicked", json!({"bytes": hex(&w), "panic": t.msg, "loc": t.loc})),
        (Ok(Err(_)), None) | (Ok(Err(_)), Some((_, false))) => col.event("ja_bad"),
        (Ok(Err(e)), Some((_, true))) => col.violation(&format!("C02|ja|rejects-authentic|{:?}", e), "authentic JoinAccept rejected", json!({"bytes": hex(&w), "key": hex(&usekey)})),
        (Ok(Ok(_)), None) => col.violation("C02|ja|accepts-malformed", "malformed JoinAccept accepted", json!({"bytes": hex(&w)})),
        (Ok(Ok(_)), Some((_, false))) => col.violation("C02|ja|accepts-bad-mic", "JoinAccept with a wrong MIC accepted", json!({"bytes": hex(&w), "key": hex(&usekey)})),
        (Ok(Ok((jn, ni, da, dl, rxd, cf, nk, ak, clear_bytes, mic))), Some((clear, true))) => {
            col.event("ja_ok");
            let rd = parse_join_accept_clear(&clear);
            let (rn, ra) = derive_session_keys(&usekey, rd.join_nonce, rd.net_id, dev_nonce);
            let exp_cf = rd.cf_list.and_then(|c| match c[15] {
                0 => {
                    let mut v = vec![0u8];
                    v.extend_from_slice(&c[..15]);
                    Some(v)
                }
                1 => {
                    let mut v = vec![1u8];
                    v.extend_from_slice(&c[..9]);
                    Some(v)
                }
                _ => None,
            });
            if jn != rd.join_nonce || ni != rd.net_id || da != rd.dev_addr || dl != (rd.dl_settings as u32 | ((rd.dl_settings as u32 >> 4) & 7) << 8 | (rd.dl_settings as u32 & 0x0f) << 16) || rxd != (rd.rx_delay & 0x0f) || cf != exp_cf || clear_bytes != clear || mic != clear[clear.len() - 4..] {
                col.violation("C02|ja|fields-differ", "decoded JoinAccept fields differ from the reference", json!({"bytes": hex(&w), "key": hex(&usekey), "clear": hex(&clear)}));
            }
            if nk != rn || ak != ra {
                col.violation(&format!("C02|ja|derivation|nwk={}|app={}", nk == rn, ak == ra), "derived session keys differ from the reference derivation", json!({"bytes": hex(&w), "key": hex(&usekey), "dev_nonce": dev_nonce}));
            }
        }
    }
}

fn join_request(idx: u64, rng: &mut Prng, col: &mut Collector) {
    let key: [u8; 16] = rng.arr();
    let je: [u8; 8] = rng.arr();
    let de: [u8; 8] = rng.arr();
    let nonce = rng.next_u32() as u16;
    let mut w = encode_join_request(&key, &je, &de, nonce);
    let mutation = idx % 5;
    let mut usekey = key;
    match mutation {
        0 => {}
        1 if rng.chance(1, 3) => {
            // the same mask in two to four MIC octets, or the MIC inverted
            let n = w.len();
            let m = if rng.chance(1, 4) { 0xff } else { 1 + rng.below(255) as u8 };
            let k = if m == 0xff { 4 } else { 2 + rng.below(3) as usize };
            let start = rng.below(4) as usize;
            for j in 0..k {
                w[n - 4 + (start + j) % 4] ^= m;
            }
        }
        1 => {
            let i = rng.below(w.len() as u64) as usize;
            w[i] ^= 1 << rng.below(8);
        }
        2 => usekey[rng.below(16) as usize] ^= 1 << rng.below(8),
        3 => w.truncate(w.len() - rng.range(1, 5) as usize),
        _ => {
            let k = rng.range(1, 4) as usize;
            w.extend(rng.bytes(k));
        }
    }
    let kc = DefaultCrypto::new(&AES128(usekey));
    let structural = w.len() == 23 && w[0] & 3 == 0 && w[0] >> 5 == 0;
    let mic_ok = structural && join_mic(&usekey, &w[..19]) == w[19..];
    let r = trap(|| JoinRequestPayload::parse(&w).map(|p| (p.join_eui().as_wire_bytes().to_vec(), p.dev_eui().as_wire_bytes().to_vec(), p.dev_nonce().value(), p.mic().0, p.validate_mic(&kc), p.as_bytes().to_vec())));
    col.eval(&format!("jr|{}|{}|{}", mutation, structural, mic_ok));
    match r {
        Err(t) => col.violation(&format!("C02|jr|panic|{}", t.file()), "JoinRequest parsing panicked", json!({"bytes": hex(&w), "panic": t.msg})),
        Ok(Err(_)) if !structural => col.event("jr_bad"),
        Ok(Err(e)) => col.violation(&format!("C02|jr|rejects-valid|{:?}", e), "well-formed JoinRequest rejected", json!({"bytes": hex(&w)})),
        Ok(Ok(_)) if !structural => col.violation("C02|jr|accepts-malformed", "malformed JoinRequest accepted", json!({"bytes": hex(&w)})),
        Ok(Ok((j, d, n, mic, v, all))) => {
            if j != w[1..9] || d != w[9..17] || n != u16::from_le_bytes([w[17], w[18]]) || mic != w[19..23] || all != w {
                col.violation("C02|jr|fields-differ", "JoinRequest fields differ", json!({"bytes": hex(&w)}));
            }
            if v != mic_ok {
                col.violation(&format!("C02|jr|validate_mic|ref={}", mic_ok), "JoinRequest validate_mic disagrees with the reference", json!({"bytes": hex(&w), "key": hex(&usekey)}));
            } else if v {
                col.event("jr_ok");
            } else {
                col.event("jr_bad");
            }
        }
    }
}
