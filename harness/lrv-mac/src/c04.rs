//! C04 — no received frame or network command can panic or hang the device; it can still
//! transmit afterwards. Panic trap + RNG-draw budget + poll budget (bounded progress).

use crate::c12::uplink_drs;
use crate::net::*;
use crate::regions::{self, Reg};
use crate::sim::*;
use lrv_core::refcodec::*;
use lrv_core::*;

pub struct C04;

const NSYM: u64 = 26;

impl Monitor for C04 {
    fn prop(&self) -> &'static str {
        "C04"
    }
    fn gens(&self, tier: Tier) -> Vec<Gen> {
        vec![
            gen("mac-field-sweep", 9 * 3 * 256 * tier.pick(2, 30, 0)),
            gen("joinaccept-sweep", 9 * 3 * 256 * tier.pick(1, 10, 0)),
            gen("exhaustive-depth3", NSYM * NSYM * NSYM * tier.pick(1, 6, 0)),
            gen("exhaustive-depth4", if tier == Tier::Thorough { NSYM * NSYM * NSYM * NSYM } else { 0 }),
            gen("random-long", tier.pick(3_000, 200_000, 10)),
            gen("answer-fill", tier.pick(4_000, 200_000, 4)),
            gen("single-channel", 9 * 3 * 16 * tier.pick(2, 20, 0)),
            gen("odd-sizes", tier.pick(540, 54_000, 0)), gen("join-marathon", tier.pick(120, 3_000, 0)),
        ]
    }
    fn rule(&self) -> String {
        "mac-field-sweep: one authentic downlink per value of one byte position of every handled MAC command (all other bytes random), FOpts or port 0, RX1/RX2/Class C, followed by 3 uplinks; joinaccept-sweep: every DLSettings byte x RxDelay x CFList {none, type 0/1/RFU, zero, out-of-band, random}; exhaustive-depth3/4: every sequence of 3 (thorough: 4) symbols over a 26-symbol event alphabet (send unconf/conf/port 0, join without/with benign/hostile accept, silent, RX1/RX2/Class C hit with {benign, hostile MAC, replay, garbage, foreign, oversized, unknown CID, truncated command}, set_datarate, set_adr, rxc_listen with garbage/authentic/oversized); random-long: 200-2000 events. Oracle: every call returns (no unwind, <= 4096 RNG draws, <= 10000 polls) and afterwards a send (joined) or join (unjoined) still hands a frame to the radio. Class = (front-end, region, activation, abstract event sequence).".into()
    }
    fn assumptions(&self) -> Vec<String> {
        vec![
            "application-side preconditions: payload <= 50 bytes, port 0 only with an empty payload, set_datarate only to LoRa uplink rates of the region for which the current mask leaves a channel, board lead time 50 ms, antenna gain 0, board power 20 dBm".into(),
            "the radio never fails in this monitor (faults are C06's and C14's business)".into(),
        ]
    }
    fn required_events(&self, tier: Tier) -> Vec<&'static str> {
        if tier == Tier::Sanitizer {
            vec!["calls_returned"]
        } else {
            vec!["calls_returned", "still_transmits", "hostile_mac_accepted", "hostile_joinaccept_accepted", "authentic_arbitrary_layout_delivered", "oversized_delivered", "rxc_listen_calls", "unknown_cid_delivered", "otaa_histories", "abp_histories"]
        }
    }

    fn run_case(&self, g: &str, idx: u64, rng: &mut Prng, col: &mut Collector) {
        match g {
            "join-marathon" => {
                let reg = regions::ALL[(idx % 9) as usize];
                let front = FRONTS[((idx / 9) % 3) as usize];
                join_marathon(reg, front, rng, col);
            }
            "mac-field-sweep" => {
                let reg = regions::ALL[(idx % 9) as usize];
                let front = FRONTS[((idx / 9) % 3) as usize];
                let val = ((idx / 27) % 256) as u8;
                mac_sweep(reg, front, val, rng, col);
            }
            "joinaccept-sweep" => {
                let reg = regions::ALL[(idx % 9) as usize];
                let front = FRONTS[((idx / 9) % 3) as usize];
                let dl = ((idx / 27) % 256) as u8;
                let syms = vec![Sym::JoinHostile(Some(dl)), Sym::SendU, Sym::SendC, Sym::Silent];
                run_history(reg, front, false, &syms, rng, col, "ja-sweep");
            }
            "exhaustive-depth3" | "exhaustive-depth4" => {
                let depth = if g.ends_with('3') { 3 } else { 4 };
                let mut syms = vec![];
                let mut x = idx;
                for _ in 0..depth {
                    syms.push(Sym::from_index(x % NSYM));
                    x /= NSYM;
                }
                let reg = regions::ALL[(x % 9) as usize ^ 0]; // the remaining quotient picks region / front-end / activation
                let reg = if depth == 3 { regions::ALL[(rng.below(9)) as usize] } else { reg };
                let front = FRONTS[rng.below(3) as usize];
                let abp = rng.bool();
                run_history(reg, front, abp, &syms, rng, col, "exhaustive");
            }
            "answer-fill" => {
                let reg = regions::ALL[(idx % 9) as usize];
                let front = FRONTS[((idx / 9) % 3) as usize];
                answer_fill(reg, front, rng, col);
            }
            "single-channel" => {
                let reg = regions::ALL[(idx % 9) as usize];
                let front = FRONTS[((idx / 9) % 3) as usize];
                let ch = ((idx / 27) % 16) as u8;
                single_channel(reg, front, ch, rng, col);
            }
            "odd-sizes" => {
                let reg = regions::ALL[(idx % 9) as usize];
                match (idx / 9) % 6 {
                    0 => odd_sizes::<256, 0>(reg, rng, col),
                    1 => odd_sizes::<256, 1>(reg, rng, col),
                    2 => odd_sizes::<64, 0>(reg, rng, col),
                    3 => odd_sizes::<32, 1>(reg, rng, col),
                    4 => odd_sizes::<255, 2>(reg, rng, col),
                    _ => odd_sizes::<24, 4>(reg, rng, col),
                }
            }
            _ => {
                let reg = regions::ALL[(idx % 9) as usize];
                let front = FRONTS[((idx / 9) % 3) as usize];
                let abp = (idx / 27) % 2 == 0;
                let n = col.tier.pick(200 + rng.below(400), 200 + rng.below(1800), 30);
                let syms: Vec<Sym> = (0..n).map(|_| Sym::from_index(rng.below(NSYM))).collect();
                run_history(reg, front, abp, &syms, rng, col, "random");
            }
        }
    }
}

#[derive(Clone, Copy, Debug, PartialEq)]
enum Hit {
    Benign,
    HostileMac,
    Replay,
    Garbage,
    Foreign,
    Oversized,
    UnknownCid,
    TruncatedCmd,
}

#[derive(Clone, Copy, Debug, PartialEq)]
enum Sym {
    SendU,
    SendC,
    SendPort0,
    JoinSilent,
    JoinBenign,
    JoinHostile(Option<u8>),
    Silent,
    Rx1(Hit),
    Rx2(Hit),
    ClassC(Hit),
    SetDr,
    SetAdr,
    RxcListen(Hit),
}

impl Sym {
    fn from_index(i: u64) -> Sym {
        match i {
            0 => Sym::SendU,
            1 => Sym::SendC,
            2 => Sym::SendPort0,
            3 => Sym::JoinSilent,
            4 => Sym::JoinBenign,
            5 => Sym::JoinHostile(None),
            6 => Sym::Silent,
            7 => Sym::Rx1(Hit::Benign),
            8 => Sym::Rx1(Hit::HostileMac),
            9 => Sym::Rx1(Hit::Replay),
            10 => Sym::Rx1(Hit::Garbage),
            11 => Sym::Rx1(Hit::Oversized),
            12 => Sym::Rx1(Hit::UnknownCid),
            13 => Sym::Rx1(Hit::TruncatedCmd),
            14 => Sym::Rx2(Hit::HostileMac),
            15 => Sym::Rx2(Hit::Foreign),
            16 => Sym::Rx2(Hit::Oversized),
            17 => Sym::Rx2(Hit::Benign),
            18 => Sym::ClassC(Hit::HostileMac),
            19 => Sym::ClassC(Hit::Garbage),
            20 => Sym::ClassC(Hit::Oversized),
            21 => Sym::SetDr,
            22 => Sym::SetAdr,
            23 => Sym::RxcListen(Hit::Garbage),
            24 => Sym::RxcListen(Hit::Oversized),
            _ => Sym::RxcListen(Hit::Benign),
        }
    }
    fn short(&self) -> String {
        format!("{:?}", self).replace("Hit::", "")
    }
}

/// A hostile but well-formed stream of MAC commands: every handled CID with arbitrary field
/// bytes (reserved and out-of-range values included).
pub fn hostile_mac(reg: Reg, rng: &mut Prng, force: Option<(usize, u8)>) -> Vec<u8> {
    // mostly short streams; one in four is long enough to fill (and overflow) the 15 bytes of
    // answers the next uplink can carry
    let n = if rng.chance(1, 4) { rng.range(5, 12) } else { rng.range(1, 4) };
    let mut out = vec![];
    for k in 0..n {
        let kind = rng.below(10);
        let mut c: Vec<u8> = match kind {
            0 | 1 | 2 => vec![0x03, rng.u8(), rng.u8(), rng.u8(), rng.u8()],
            3 => vec![0x05, rng.u8(), rng.u8(), rng.u8(), rng.u8()],
            4 => vec![0x07, rng.u8(), rng.u8(), rng.u8(), rng.u8(), rng.u8()],
            5 => vec![0x0A, rng.u8(), rng.u8(), rng.u8(), rng.u8()],
            6 => vec![0x08, rng.u8()],
            7 => vec![0x04, rng.u8()],
            8 => vec![0x09, rng.u8()],
            _ => match rng.below(3) {
                0 => vec![0x06],
                1 => vec![0x02, rng.u8(), rng.u8()],
                _ => vec![0x0D, rng.u8(), rng.u8(), rng.u8(), rng.u8(), rng.u8()],
            },
        };
        // make some frequencies plausible so that deeper branches are reached
        if rng.bool() && c.len() >= 5 && matches!(c[0], 0x05 | 0x07 | 0x0A) {
            let (lo, hi) = reg.band();
            let f = (lo + rng.below(((hi - lo) / 100) as u64) as u32 * 100) / 100;
            let o = if c[0] == 0x05 { 2 } else { 2 };
            c[o..o + 3].copy_from_slice(&f.to_le_bytes()[..3]);
        } else if rng.chance(1, 3) && c.len() >= 5 && matches!(c[0], 0x05 | 0x07 | 0x0A) {
            // frequency 0: 'remove the channel' for NewChannelReq, nonsense for the other two
            c[2..5].copy_from_slice(&[0, 0, 0]);
            // (and now and then on one of the first channels of the plan)
            if c[0] != 0x05 && rng.bool() {
                c[1] = rng.below(4) as u8;
            }
        }
        if k == 0 {
            if let Some((pos, val)) = force {
                let l = c.len();
                if l > 1 {
                    c[1 + pos % (l - 1)] = val;
                }
            }
        }
        out.extend(c);
    }
    out
}

struct World {
    dev: Dev,
    reg: Reg,
    front: Front,
    last_good: Option<Vec<u8>>,
}

impl World {
    fn net(&mut self) -> Option<Net> {
        self.dev.session_keys().map(|(n, a, d)| Net { nwk: n, app: a, addr: d })
    }
    fn next_fdown(&mut self) -> u32 {
        match self.dev.fcnt_down() {
            Some(Some(n)) => n.saturating_add(1),
            _ => 0,
        }
    }
    fn frame(&mut self, hit: Hit, rng: &mut Prng, col: &mut Collector) -> Vec<u8> {
        let net = self.net();
        let f = self.next_fdown();
        match (hit, net) {
            (Hit::Garbage, _) | (_, None) => {
                let n = rng.range(0, 80) as usize;
                let mut v = rng.bytes(n);
                if n > 0 && rng.bool() {
                    v[0] = *rng.pick(&[0x60u8, 0xA0, 0x20, 0x40, 0x00]);
                }
                v
            }
            (Hit::Benign, Some(n)) => {
                let p = rng.bytes_below(8);
                let v = n.downlink(&Down { fcnt: f, confirmed: rng.bool(), port: Some(rng.range(1, 200) as u8), payload: &p, ..Default::default() });
                self.last_good = Some(v.clone());
                v
            }
            (Hit::HostileMac, Some(n)) => {
                col.event("hostile_mac_accepted");
                let cmds = hostile_mac(self.reg, rng, None);
                let v = n.mac_downlink(f, &cmds, rng.bool());
                self.last_good = Some(v.clone());
                v
            }
            (Hit::Replay, Some(n)) => self.last_good.clone().unwrap_or_else(|| n.downlink(&Down { fcnt: f.saturating_sub(1), port: Some(1), payload: &[1], ..Default::default() })),
            (Hit::Foreign, Some(_)) => {
                let other = Net { nwk: rng.arr(), app: rng.arr(), addr: rng.next_u32() };
                other.downlink(&Down { fcnt: f, port: Some(1), payload: &[1, 2], ..Default::default() })
            }
            (Hit::Oversized, Some(n)) => {
                col.event("oversized_delivered");
                let len = *rng.pick(&[60usize, 120, 200, 230, 242]);
                n.downlink(&Down { fcnt: f, port: Some(3), payload: &rng.bytes(len), ..Default::default() })
            }
            (Hit::UnknownCid, Some(n)) => {
                col.event("unknown_cid_delivered");
                let mut cmds = if rng.bool() { hostile_mac(self.reg, rng, None) } else { vec![] };
                cmds.push(*rng.pick(&[0x00u8, 0x01, 0x0B, 0x0C, 0x0E, 0x0F, 0x10, 0x20, 0x7F, 0x80, 0xE0, 0xFF]));
                cmds.extend(rng.bytes_below(4));
                cmds.truncate(40);
                n.mac_downlink(f, &cmds, rng.bool())
            }
            (Hit::TruncatedCmd, Some(n)) if rng.bool() => {
                // authentic in address, counter and MIC, but everything between the counter and the
                // MIC is arbitrary (FOptsLen promising more than the frame holds, no FPort, ...):
                // assembled octet by octet, no encoder would produce it
                col.event("authentic_arbitrary_layout_delivered");
                let mut v = vec![if rng.bool() { 0x60u8 } else { 0xA0 }];
                v.extend_from_slice(&n.addr.to_le_bytes());
                v.push(if rng.bool() { rng.u8() & 0x0f } else { rng.u8() });
                v.extend_from_slice(&(f as u16).to_le_bytes());
                let span = if rng.chance(1, 3) { 30 } else { 6 };
                let body = rng.below(span) as usize;
                v.extend(rng.bytes(body));
                let mic = lrv_core::refcodec::data_mic(&n.nwk, &v, 1, n.addr, f);
                v.extend_from_slice(&mic);
                v
            }
            (Hit::TruncatedCmd, Some(n)) => {
                let mut cmds = hostile_mac(self.reg, rng, None);
                let cut = rng.range(1, 3) as usize;
                let l = cmds.len().saturating_sub(cut).max(1);
                cmds.truncate(l);
                n.mac_downlink(f, &cmds, rng.bool())
            }
        }
    }
}

fn hostile_join_accept(reg: Reg, app_key: &[u8; 16], dl: Option<u8>, rng: &mut Prng) -> Vec<u8> {
    let (lo, hi) = reg.band();
    let cf: Option<[u8; 16]> = match rng.below(8) {
        0 => None,
        1 => Some([0u8; 16]),
        2 => {
            let mut b: [u8; 16] = rng.arr();
            b[15] = 0;
            Some(b)
        }
        3 => {
            let mut b: [u8; 16] = rng.arr();
            b[15] = 1;
            Some(b)
        }
        4 => {
            let mut b = [0u8; 16];
            b[15] = 1;
            Some(b)
        }
        5 => {
            let mut b: [u8; 16] = rng.arr();
            b[15] = rng.range(2, 255) as u8;
            Some(b)
        }
        6 => {
            let mut b = [0u8; 16];
            for i in 0..5 {
                let f = (lo + rng.below(((hi - lo) / 100) as u64) as u32 * 100) / 100;
                b[3 * i..3 * i + 3].copy_from_slice(&f.to_le_bytes()[..3]);
            }
            Some(b)
        }
        _ => {
            let mut b = [0xFFu8; 16];
            b[15] = rng.below(2) as u8;
            Some(b)
        }
    };
    let ja = JoinAcceptDesc { join_nonce: rng.below(1 << 24) as u32, net_id: rng.below(1 << 24) as u32, dev_addr: rng.next_u32(), dl_settings: dl.unwrap_or_else(|| rng.u8()), rx_delay: rng.u8(), cf_list: cf };
    encode_join_accept(app_key, &ja)
}

fn dr_allowed(reg: Reg, s: &lorawan_device::verif::Snapshot, d: u8) -> bool {
    if !reg.fixed() {
        return true;
    }
    match reg.lora_dr(d) {
        Some((_, 500_000)) => s.region.channel_mask[8] != 0,
        _ => s.region.channel_mask[..8].iter().map(|b| b.count_ones()).sum::<u32>() >= 2,
    }
}

fn run_history(reg: Reg, front: Front, abp: bool, syms: &[Sym], rng: &mut Prng, col: &mut Collector, tag: &str) {
    let creds = default_creds(rng);
    let bias = if reg.fixed() && rng.chance(1, 4) { Some((rng.range(1, 8) as u8, rng.range(1, 3) as usize)) } else { None };
    // half of the histories use the scripted counter RNG (worst case for retry loops)
    let opts = DevOpts { rng_seed: if rng.bool() { Some(rng.next_u64()) } else { None }, rng_start: rng.next_u32(), bias };
    let dev: Dev = Dev::new(front, reg, creds.clone(), &opts);
    let mut w = World { dev, reg, front, last_good: None };
    if abp {
        w.dev.join_abp(rng.arr(), rng.arr(), rng.next_u32());
        col.event("abp_histories");
    } else {
        col.event("otaa_histories");
    }
    let mut trace: Vec<String> = vec![];
    let abstract_seq: String = syms.iter().take(6).map(|s| s.short()).collect::<Vec<_>>().join(",");
    for (i, s) in syms.iter().enumerate() {
        let mut script = Script::silent();
        let mut action: Option<Action> = None;
        // one payload in ten is as long as an application may make it at the fastest rates, or longer: together
        // with the answers the network's commands have queued the frame may no longer fit - the call has to
        // come back with a frame or with an error, like any other
        let data = if rng.chance(1, 10) {
            col.event("long_application_payloads");
            let n = rng.range(200, 256) as usize;
            rng.bytes(n)
        } else {
            rng.bytes_below(12)
        };
        let port = rng.range(1, 223) as u8;
        let mut listen: Option<Vec<Vec<u8>>> = None;
        if front == Front::Nb {
            // the application misbehaves too: calls in the middle of a transaction, events when idle
            if rng.chance(1, 3) {
                for _ in 0..rng.range(1, 3) {
                    let k = match rng.below(6) {
                        0 => Intrusion::Send,
                        1 => Intrusion::SendConfirmed,
                        2 => Intrusion::Join,
                        3 => Intrusion::StrayRx(rng.bytes_below(40)),
                        4 => Intrusion::StrayTimeout,
                        _ => Intrusion::StrayNothing,
                    };
                    script.intrude.push((rng.range(1, 7) as u32, k));
                }
                col.event("nb_intrusions");
            }
            if rng.chance(1, 8) {
                col.event("nb_idle_pokes");
                if let Err(t) = w.dev.poke_idle(rng.bytes_below(30)) {
                    col.violation(&format!("C04|panic|idle-event|{}", short_loc(&t.loc)), "an event delivered while no transaction is running panicked the device", json!({"msg": t.msg, "loc": t.loc, "trace": trace}));
                    return;
                }
            }
        }
        match s {
            Sym::SendU | Sym::Silent => action = Some(Action::Send { data: &data, port, confirmed: false }),
            Sym::SendC => action = Some(Action::Send { data: &data, port, confirmed: true }),
            Sym::SendPort0 => action = Some(Action::Send { data: &[], port: 0, confirmed: rng.bool() }),
            Sym::JoinSilent => action = Some(Action::Join),
            Sym::JoinBenign => {
                let ja = JoinAcceptDesc { join_nonce: rng.below(1 << 24) as u32, net_id: 1, dev_addr: rng.next_u32(), dl_settings: 0, rx_delay: 1, cf_list: None };
                let f = encode_join_accept(&creds.app_key, &ja);
                place_join_accept(front, f, &mut script, rng, col);
                action = Some(Action::Join);
            }
            Sym::JoinHostile(dl) => {
                col.event("hostile_joinaccept_accepted");
                let f = hostile_join_accept(reg, &creds.app_key, *dl, rng);
                place_join_accept(front, f, &mut script, rng, col);
                action = Some(Action::Join);
            }
            Sym::Rx1(h) => {
                let f = w.frame(*h, rng, col);
                script.rx1.push(f);
                action = Some(Action::Send { data: &data, port, confirmed: rng.chance(1, 4) });
            }
            Sym::Rx2(h) => {
                let f = w.frame(*h, rng, col);
                script.rx2.push(f);
                action = Some(Action::Send { data: &data, port, confirmed: rng.chance(1, 4) });
            }
            Sym::ClassC(h) => {
                let f = w.frame(*h, rng, col);
                if rng.bool() {
                    script.pre_rx1.push(f);
                } else {
                    script.between.push(f);
                }
                action = Some(Action::Send { data: &data, port, confirmed: false });
            }
            Sym::SetDr => {
                let d = *rng.pick(&uplink_drs(reg));
                let snap = w.dev.snapshot();
                if dr_allowed(reg, &snap, d) {
                    let r = trap(|| w.dev.set_datarate(d));
                    if let Err(t) = r {
                        col.violation(&format!("C04|panic|set_datarate|{}", short_loc(&t.loc)), "set_datarate panicked", json!({"msg": t.msg}));
                        return;
                    }
                }
            }
            Sym::SetAdr => {
                let on = rng.bool();
                w.dev.set_adr(on);
            }
            Sym::RxcListen(h) => {
                if front == Front::AsyncC {
                    let n = rng.range(1, 3);
                    let mut fs = vec![];
                    for _ in 0..n {
                        fs.push(w.frame(*h, rng, col));
                    }
                    // an accept of the device's own network that comes too late (or out of the blue) is one
                    // more frame a Class C device may hear while it listens
                    if rng.chance(1, 6) {
                        let ja = JoinAcceptDesc { join_nonce: rng.below(1 << 24) as u32, net_id: 1, dev_addr: rng.next_u32(), dl_settings: 0, rx_delay: 1, cf_list: None };
                        fs.insert(rng.below(fs.len() as u64 + 1) as usize, encode_join_accept(&creds.app_key, &ja));
                        col.event("joinaccept_heard_in_rxc_listen");
                    }
                    listen = Some(fs);
                }
            }
        }
        let resp: Option<Resp> = if let Some(fs) = listen {
            col.event("rxc_listen_calls");
            w.dev.rxc_listen(&fs)
        } else if let Some(a) = action {
            Some(w.dev.transact(a, &script))
        } else {
            None
        };
        for n in w.dev.window_notes.iter().filter(|n| n.starts_with("intr@")) {
            let kind: String = n.splitn(2, ':').nth(1).unwrap_or("").chars().filter(|c| !c.is_ascii_digit()).take(60).collect();
            col.event(&format!("intrusion:{}", kind));
        }
        col.event("calls_returned");
        col.state(fnv64(format!("{:?}", w.dev.snapshot()).as_bytes()));
        trace.push(format!("{}->{}", s.short(), resp.as_ref().map(|r| r.kind()).unwrap_or("-")));
        if trace.len() > 12 {
            trace.remove(0);
        }
        if let Some(Resp::Panic(m, l)) = &resp {
            report(reg, front, abp, tag, s, m, l, &trace, i, col);
            return;
        }
        let _ = w.dev.take_downlinks();
    }
    // ---- the device can still transmit ---------------------------------------------------------
    let joined = w.dev.snapshot().joined;
    let ev0 = w.dev.ev_len();
    let r = if joined { w.dev.transact(Action::Send { data: &[0xEE], port: 9, confirmed: false }, &Script::silent()) } else { w.dev.transact(Action::Join, &Script::silent()) };
    if let Resp::Panic(m, l) = &r {
        report(reg, front, abp, tag, &Sym::SendU, m, l, &trace, syms.len(), col);
        return;
    }
    if w.dev.tx_since(ev0).is_empty() {
        col.violation(&format!("C04|cannot-transmit-afterwards|{}|{}|{}", if front == Front::Nb { "nb" } else { "async" }, if joined { "send" } else { "join" }, r.kind()), "after the history the device no longer hands a frame to the radio", json!({"region": reg.name(), "front": front.name(), "abp": abp, "trace": trace, "response": format!("{:?}", r)}));
    } else {
        col.event("still_transmits");
    }
    col.eval(&format!("{}|{}|{}|{}|{}", front.name(), reg.name(), if abp { "abp" } else { "otaa" }, tag, abstract_seq));
    if col.want_sample() {
        col.sample(json!({"region": reg.name(), "front": front.name(), "abp": abp, "symbols": syms.iter().take(12).map(|s| s.short()).collect::<Vec<_>>(), "trace_tail": trace}));
    }
}

#[allow(clippy::too_many_arguments)]
fn report(reg: Reg, front: Front, abp: bool, tag: &str, s: &Sym, m: &str, l: &str, trace: &[String], i: usize, col: &mut Collector) {
    let sym_class = match s {
        Sym::Rx1(h) | Sym::Rx2(h) => format!("classA:{:?}", h),
        Sym::ClassC(h) => format!("classC:{:?}", h),
        Sym::RxcListen(h) => format!("rxc_listen:{:?}", h),
        Sym::JoinHostile(_) => "join:hostile-accept".to_string(),
        Sym::JoinBenign | Sym::JoinSilent => "join".to_string(),
        _ => "send".to_string(),
    };
    let detail = json!({"region": reg.name(), "front": front.name(), "abp": abp, "tag": tag, "step": i, "trace": trace, "msg": m, "loc": l});
    if m == "rng-budget" {
        col.violation(&format!("C04|hang|rng-budget|{}|{}", if reg.fixed() { "fixed" } else { "dynamic" }, sym_class), "a call drew more than 4096 random numbers without returning (channel selection does not terminate)", detail);
    } else if m == "poll-budget" {
        col.violation(&format!("C04|hang|poll-budget|{}", sym_class), "a future did not complete within 10000 polls", detail);
    } else {
        let t = Trapped { msg: m.to_string(), loc: l.to_string() };
        col.violation(&format!("C04|panic|{}|{}|{}", short_loc(l), t.kind(), sym_class), "a call into the stack panicked", detail);
    }
}

/// Downlinks whose answers add up to 12..=18 bytes (around the 15-byte limit of the next uplink),
/// every total and every last-answer size, in FOpts-sized and port-0 carriers.
fn answer_fill(reg: Reg, front: Front, rng: &mut Prng, col: &mut Collector) {
    let creds = default_creds(rng);
    let opts = DevOpts { rng_seed: Some(rng.next_u64()), rng_start: 0, bias: None };
    let dev: Dev = Dev::new(front, reg, creds, &opts);
    let mut w = World { dev, reg, front, last_good: None };
    w.dev.join_abp(rng.arr(), rng.arr(), rng.next_u32());
    col.event("abp_histories");
    // answer sizes: DevStatusAns 3, LinkADRAns/RXParamSetupAns/NewChannelAns/DlChannelAns 2, RXTimingSetupAns 1
    let target = rng.range(12, 18) as usize;
    let mut cmds: Vec<u8> = vec![];
    let mut total = 0usize;
    let mut trace = vec![];
    while total < target {
        let (c, sz): (Vec<u8>, usize) = match rng.below(4) {
            0 => (dev_status_req(), 3),
            1 => (rx_timing_setup_req(rng.below(16) as u8), 1),
            2 => (link_adr_req(15, 15, 0xFFFF, if reg.fixed() { 6 } else { 0 }, 1), 2),
            _ => (rx_param_setup_req(reg.rx2_default().1, reg.rx2_default().0 / 100), 2),
        };
        // separate LinkADRReqs so that each gets its own answer
        if c[0] == 0x03 && cmds.len() >= 5 && cmds[cmds.len() - 5] == 0x03 {
            continue;
        }
        cmds.extend(c);
        total += sz;
    }
    trace.push(format!("answers total {} bytes: {}", total, hex(&cmds)));
    col.event("hostile_mac_accepted");
    let net = w.net().unwrap();
    let f = net.mac_downlink(0, &cmds, true);
    let mut script = Script::silent();
    if rng.bool() {
        script.rx1.push(f);
    } else {
        script.rx2.push(f);
    }
    let silent = Script::silent();
    for i in 0..3 {
        let payload = [i as u8];
        // (a port 0 uplink carries the answers as its payload: no application data)
        let (data, port): (&[u8], u8) = if i == 2 { (&[], 0) } else { (&payload, 1) };
        let r = w.dev.transact(Action::Send { data, port, confirmed: false }, if i == 0 { &script } else { &silent });
        col.event("calls_returned");
        if let Resp::Panic(m, l) = &r {
            report(reg, front, true, "answer-fill", &Sym::Rx1(Hit::HostileMac), m, l, &trace, i, col);
            return;
        }
    }
    col.event("still_transmits");
    col.eval(&format!("{}|{}|answer-fill|total={}", front.name(), reg.name(), total));
}

/// Leaves exactly one channel enabled (every index of the plan in turn) and transmits:
/// the selection loop must find it.
fn single_channel(reg: Reg, front: Front, ch: u8, rng: &mut Prng, col: &mut Collector) {
    let creds = default_creds(rng);
    let opts = DevOpts { rng_seed: if rng.bool() { Some(rng.next_u64()) } else { None }, rng_start: rng.next_u32(), bias: None };
    let dev: Dev = Dev::new(front, reg, creds, &opts);
    let mut w = World { dev, reg, front, last_good: None };
    w.dev.join_abp(rng.arr(), rng.arr(), rng.next_u32());
    col.event("abp_histories");
    let net = w.net().unwrap();
    let mut cmds: Vec<u8> = vec![];
    let mut f_dyn = 0u32;
    if reg.fixed() {
        // fixed plans: a bank of 125 kHz channels reduced to two neighbours, or one 500 kHz channel
        let k = ch as u32 % 8;
        if rng.bool() {
            cmds.extend(link_adr_req(if reg == Reg::US915 { 4 } else { 6 }, 15, 1 << k, 7, 1));
        } else {
            let bank = rng.below(4) as u8;
            cmds.extend(link_adr_req(15, 15, 0, 7, 1));
            cmds.extend(link_adr_req(0, 15, 0b11 << (ch % 15), bank, 1));
        }
    } else {
        let (lo, hi) = reg.inner_band();
        let f = (lo + rng.below(((hi - lo) / 100) as u64) as u32 * 100) / 100;
        f_dyn = f;
        if (ch as usize) >= reg.default_channels().len() {
            cmds.extend(new_channel_req(ch, f, 0x50));
        }
        // every other mask also enables a few indices at which no channel is defined (a mask the device may
        // accept as long as one enabled channel exists): still a single usable channel
        let mut mask: u16 = 1 << ch;
        if rng.bool() {
            let ndef = reg.default_channels().len() as u8;
            for _ in 0..rng.range(1, 3) {
                let i = rng.range(ndef as u64, 15) as u8;
                if i != ch {
                    mask |= 1 << i;
                }
            }
            col.event("single_channel_masks_with_undefined_indices");
        }
        cmds.extend(link_adr_req(15, 15, mask, 0, 1));
    }
    let trace = vec![format!("single channel {}: {}", ch, hex(&cmds))];
    let f = net.mac_downlink(0, &cmds, cmds.len() <= 15);
    let silent = Script::silent();
    let script = Script::rx1(f);
    // dynamic plans: two uplinks later the network tries to delete that one channel
    // (NewChannelReq with frequency 0): refused or not, the device must go on transmitting
    let deleter = if !reg.fixed() && (ch as usize) >= reg.default_channels().len() {
        col.event("delete_last_channel_attempts");
        // (or to re-define it with a frequency or a data-rate range the device has to refuse: the
        // refusal must leave the channel as it was)
        let req = match rng.below(3) {
            0 => new_channel_req(ch, 0, 0x50),
            1 => new_channel_req(ch, 1_000_000, 0x50),
            _ => new_channel_req(ch, f_dyn, 0x05),
        };
        Some(Script::rx1(net.mac_downlink(1, &req, rng.bool())))
    } else {
        None
    };
    // one history in four goes on through a long silence: the ADR back-off (uplinks 96, 128) must cope
    // with whatever mask the command left behind
    let n_up: usize = if rng.chance(1, 4) { rng.range(97, 135) as usize } else { 6 };
    if n_up > 6 {
        col.event("single_channel_long_silence");
    }
    for i in 0..n_up {
        let sc = match (i, &deleter) {
            (0, _) => &script,
            (2, Some(d)) => d,
            _ => &silent,
        };
        let r = w.dev.transact(Action::Send { data: &[i as u8], port: 1, confirmed: false }, sc);
        col.event("calls_returned");
        if let Resp::Panic(m, l) = &r {
            report(reg, front, true, "single-channel", &Sym::SendU, m, l, &trace, i, col);
            return;
        }
    }
    col.event("still_transmits");
    col.eval(&format!("{}|{}|single-channel|{}", front.name(), reg.name(), ch));
}

fn mac_sweep(reg: Reg, front: Front, val: u8, rng: &mut Prng, col: &mut Collector) {
    // one authentic downlink whose first command has byte position `pos` forced to `val`
    let creds = default_creds(rng);
    let opts = DevOpts { rng_seed: if rng.bool() { Some(rng.next_u64()) } else { None }, rng_start: rng.next_u32(), bias: None };
    let dev: Dev = Dev::new(front, reg, creds, &opts);
    let mut w = World { dev, reg, front, last_good: None };
    w.dev.join_abp(rng.arr(), rng.arr(), rng.next_u32());
    col.event("abp_histories");
    let pos = rng.below(5) as usize;
    let cmds = hostile_mac(reg, rng, Some((pos, val)));
    col.event("hostile_mac_accepted");
    let net = w.net().unwrap();
    let f = net.mac_downlink(0, &cmds, rng.bool());
    let mut script = Script::silent();
    let place = rng.below(if front == Front::AsyncC { 3 } else { 2 });
    match place {
        0 => script.rx1.push(f),
        1 => script.rx2.push(f),
        _ => script.pre_rx1.push(f),
    }
    let mut trace = vec![format!("mac {}", hex(&cmds))];
    let silent = Script::silent();
    for i in 0..4 {
        let r = w.dev.transact(Action::Send { data: &[i as u8], port: 1, confirmed: false }, if i == 0 { &script } else { &silent });
        col.event("calls_returned");
        trace.push(r.kind().to_string());
        if let Resp::Panic(m, l) = &r {
            report(reg, front, true, "mac-sweep", &Sym::Rx1(Hit::HostileMac), m, l, &trace, i, col);
            return;
        }
    }
    // ... and it can still activate over the air: what the command left behind in the channel plan (a join
    // channel it was allowed to touch, say) must not trip the join requests that follow
    for k in 0..6u32 {
        w.dev.set_rng_next(k.wrapping_mul(0x9E37_79B9) ^ k);
        let r = w.dev.transact(Action::Join, &silent);
        col.event("calls_returned");
        trace.push(r.kind().to_string());
        if let Resp::Panic(m, l) = &r {
            report(reg, front, true, "mac-sweep-then-join", &Sym::JoinSilent, m, l, &trace, 4 + k as usize, col);
            return;
        }
    }
    col.event("joins_after_hostile_mac");
    col.event("still_transmits");
    col.eval(&format!("{}|{}|sweep|cid={:02x}|pos={}|val={}", front.name(), reg.name(), cmds[0], pos, val >> 4));
}


/// Join attempt after join attempt that nobody answers (60-140 of them; fixed plans with a join
/// bias of 1-32 retries): every call returns, and in the end a JoinAccept is still taken and the
/// device transmits.
fn join_marathon(reg: Reg, front: Front, rng: &mut Prng, col: &mut Collector) {
    let creds = default_creds(rng);
    let bias = if reg.fixed() && rng.chance(3, 4) { Some((rng.range(1, 9) as u8, *rng.pick(&[1usize, 2, 3, 5, 8, 16, 32]))) } else { None };
    let opts = DevOpts { rng_seed: if rng.bool() { Some(rng.next_u64()) } else { None }, rng_start: rng.next_u32(), bias };
    let mut dev: Dev = Dev::new(front, reg, creds.clone(), &opts);
    let n = rng.range(60, 141);
    let trace = vec![format!("join-marathon bias={:?} attempts={}", bias, n)];
    for i in 0..n {
        let r = dev.transact(Action::Join, &Script::silent());
        col.event("calls_returned");
        if let Resp::Panic(m, l) = &r {
            report(reg, front, false, "join-marathon", &Sym::JoinSilent, m, l, &trace, i as usize, col);
            return;
        }
    }
    let ja = JoinAcceptDesc { join_nonce: 7, net_id: 1, dev_addr: rng.next_u32(), dl_settings: 0, rx_delay: 1, cf_list: None };
    let w = encode_join_accept(&creds.app_key, &ja);
    let r = dev.transact(Action::Join, &Script::rx1(w));
    if let Resp::Panic(m, l) = &r {
        report(reg, front, false, "join-marathon", &Sym::JoinBenign, m, l, &trace, n as usize, col);
        return;
    }
    let ev0 = dev.ev_len();
    let r2 = dev.transact(Action::Send { data: &[1], port: 1, confirmed: false }, &Script::silent());
    if let Resp::Panic(m, l) = &r2 {
        report(reg, front, false, "join-marathon", &Sym::SendU, m, l, &trace, n as usize + 1, col);
        return;
    }
    if !matches!(r, Resp::JoinSuccess) || dev.tx_since(ev0).is_empty() {
        col.violation(&format!("C04|cannot-transmit-afterwards|{}|after-join-marathon|{}", if front == Front::Nb { "nb" } else { "async" }, r.kind()), "after a long run of unanswered join attempts the device no longer joins or transmits", json!({"region": reg.name(), "front": front.name(), "bias": bias, "attempts": n, "join_response": format!("{:?}", r), "send_response": format!("{:?}", r2)}));
    } else {
        col.event("still_transmits");
    }
    col.eval(&format!("{}|{}|join-marathon|bias={:?}", front.name(), reg.name(), bias.map(|b| b.1)));
}

/// A JoinAccept arrives in RX1 or RX2 - or, for a Class C device, one time in three while it listens
/// continuously before RX1 or between the windows.
fn place_join_accept(front: Front, f: Vec<u8>, script: &mut Script, rng: &mut Prng, col: &mut Collector) {
    if front == Front::AsyncC && rng.chance(1, 3) {
        col.event("joinaccept_in_classc_gap");
        if rng.bool() {
            script.pre_rx1.push(f);
        } else {
            script.between.push(f);
        }
    } else if rng.bool() {
        script.rx1.push(f);
    } else {
        script.rx2.push(f);
    }
}


/// State-machine devices built with other sizes than the usual ones: radio buffers of 24..256 octets,
/// downlink queues of 0, 1, 2 entries (the const generics N and D). Benign downlinks with and without
/// payload, hostile MAC commands, frames longer than the buffer, application payloads that may not fit
/// the buffer, an application that collects its downlinks or does not: every call returns, and the
/// device still transmits.
fn odd_sizes<const N: usize, const D: usize>(reg: Reg, rng: &mut Prng, col: &mut Collector) {
    let mut d: SmallNb<N, D> = SmallNb::new(reg, rng);
    let drs = uplink_drs(reg);
    d.dev.set_datarate(lorawan_device::region::DR::from(*drs.iter().max().unwrap()));
    let n = rng.range(6, 16);
    let mut fdown = 0u32;
    let mut trace: Vec<String> = vec![];
    let lazy = rng.chance(1, 3);
    for i in 0..n {
        let mut script = Script::silent();
        let what = rng.below(6);
        let f: Option<Vec<u8>> = match what {
            0 => None,
            1 | 2 => {
                fdown += 1;
                let p = rng.bytes_below(6);
                Some(d.net.downlink(&Down { fcnt: fdown, port: Some(rng.range(1, 200) as u8), payload: &p, confirmed: rng.bool(), ..Default::default() }))
            }
            3 => {
                fdown += 1;
                Some(d.net.mac_downlink(fdown, &hostile_mac(reg, rng, None), rng.bool()))
            }
            4 => {
                let len = N + 1 + rng.below(12) as usize;
                let mut v = rng.bytes(len);
                v[0] = 0x60;
                Some(v)
            }
            _ => {
                // an authentic downlink that fills the buffer exactly, or goes one beyond
                fdown += 1;
                let len = (N + rng.below(2) as usize).clamp(13, 255);
                let payload = vec![7u8; len - 13];
                Some(d.net.downlink(&Down { fcnt: fdown, port: Some(9), payload: &payload, ..Default::default() }))
            }
        };
        if let Some(f) = f {
            if rng.bool() {
                script.rx1.push(f);
            } else {
                script.rx2.push(f);
            }
        }
        // application payloads around what the buffer can take (13 octets of frame around them)
        let dlen = if rng.chance(1, 3) { N.saturating_sub(16) + rng.below(8) as usize } else { rng.below(6) as usize };
        let data = rng.bytes(dlen.min(255));
        let r = d.transact(Action::Send { data: &data, port: 3, confirmed: rng.chance(1, 4) }, &script);
        col.event("calls_returned");
        trace.push(format!("{}:{}", ["silent", "benign", "benign", "hostile-mac", "longer-than-buffer", "fills-buffer"][what as usize], r.kind()));
        if let Resp::Panic(m, l) = &r {
            if m == "rng-budget" {
                col.violation(&format!("C04|hang|rng-budget|{}|odd-sizes:N={},D={}", if reg.fixed() { "fixed" } else { "dynamic" }, N, D), "a call drew more than 4096 random numbers without returning (channel selection does not terminate)", json!({"region": reg.name(), "buffer": N, "queue": D, "step": i, "trace": trace}));
            } else {
                col.violation(&format!("C04|panic|{}|{}|odd-sizes:N={},D={}", short_loc(l), lrv_core::runner::Trapped { msg: m.clone(), loc: l.clone() }.kind(), N, D), "a call into the stack panicked", json!({"region": reg.name(), "buffer": N, "queue": D, "step": i, "trace": trace, "msg": m, "loc": l}));
            }
            return;
        }
        if !lazy {
            let taken = trap(|| d.take_downlinks());
            if let Err(t) = taken {
                col.violation(&format!("C04|panic|{}|take_downlink|odd-sizes:N={},D={}", short_loc(&t.loc), N, D), "take_downlink panicked", json!({"msg": t.msg, "loc": t.loc, "trace": trace}));
                return;
            }
        }
    }
    // the device can still transmit
    let ev0 = d.ev_len();
    let r = d.transact(Action::Send { data: &[0xEE], port: 9, confirmed: false }, &Script::silent());
    if let Resp::Panic(m, l) = &r {
        col.violation(&format!("C04|panic|{}|final-send|odd-sizes:N={},D={}", short_loc(l), N, D), "a call into the stack panicked", json!({"msg": m, "loc": l, "trace": trace}));
        return;
    }
    if d.tx_since(ev0).is_empty() {
        let pending = d.dev.get_session().map(|s| serde_json::to_value(s).map(|v| v["uplink"]["pending_len"].clone()).unwrap_or_default());
        // (an error is named in the signature, so that a refusal for one reason does not hide a refusal for another)
        let rk = match &r {
            Resp::Error(e) => format!("Error:{}", e),
            _ => r.kind().to_string(),
        };
        col.violation(&format!("C04|cannot-transmit-afterwards|nb|send|{}|odd-sizes:N={},D={}", rk, N, D), "after the history the device no longer hands a frame to the radio", json!({"region": reg.name(), "trace": trace, "response": format!("{:?}", r), "queued_mac_answer_octets": pending}));
    } else {
        col.event("still_transmits");
    }
    col.event("odd_size_histories");
    col.eval(&format!("odd-sizes|{}|N={}|D={}|{}", reg.name(), N, D, trace.iter().map(|t| t.split(':').next().unwrap_or("")).collect::<Vec<_>>().join(",")));
}
