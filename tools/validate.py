#!/usr/bin/env python3-vt
"""Validates MANIFEST.json and every evidence file against the schemas (tooling venv)."""
import json, sys, glob, jsonschema
ms = json.load(open('/root/.vp/MANIFEST.schema.json'))
es = json.load(open('/root/.vp/EVIDENCE.schema.json'))
jsonschema.validate(json.load(open('/verif/MANIFEST.json')), ms)
print('MANIFEST ok')
for p in sorted(glob.glob('/verif/evidence/*.json')):
    jsonschema.validate(json.load(open(p)), es)
    print(p, 'ok')
