#!/bin/bash
# Confirms a seeded change in a scratch worktree (never in /repo):
#   tools/verify_seed.sh <seed-dir-with-patch.diff-and-demo.rs> <dest path of the demo inside the repo> "<cargo command that runs the demo>"
# 1. patch applies to HEAD, 2. with the patch the whole existing suite passes,
# 3. with the patch the demo FAILS, 4. without the patch the demo PASSES.
set -u
dir=$1; dest=$2; cmd=$3
name=$(echo "$dir" | tr '/' '_')
SC=${SEEDCHECK_BASE:-/tmp/lrv-seedcheck}
wt=$SC/$name
mkdir -p $SC
git -C /repo worktree remove --force $wt >/dev/null 2>&1; rm -rf $wt
git -C /repo worktree add --detach $wt ${SEED_REPO_REV:-HEAD} >/dev/null 2>&1 || { echo "SEED $dir: worktree failed"; exit 2; }
export CARGO_NET_OFFLINE=true CARGO_TARGET_DIR=$SC/target
res="SEED $dir:"
if git -C $wt apply $dir/patch.diff 2>$SC/apply.err; then res="$res applies"; else echo "$res PATCH DOES NOT APPLY: $(head -3 $SC/apply.err)"; git -C /repo worktree remove --force $wt; exit 1; fi
suite=$(cd $wt && cargo test --workspace --offline 2>&1 | grep -E "^test result" | awk '{p+=$4; f+=$6} END {print p" passed "f" failed"}')
res="$res; suite with patch: $suite"
mkdir -p $(dirname $wt/$dest); cp $dir/demo.rs $wt/$dest
with=$(cd $wt && eval "$cmd" 2>&1 | grep -E "^test result|error(\[|:)" | head -3 | tr '\n' ' ')
git -C $wt apply -R $dir/patch.diff
without=$(cd $wt && eval "$cmd" 2>&1 | grep -E "^test result|error(\[|:)" | head -3 | tr '\n' ' ')
echo "$res"
echo "   demo WITH patch   : $with"
echo "   demo WITHOUT patch: $without"
git -C /repo worktree remove --force $wt >/dev/null 2>&1; rm -rf $wt; git -C /repo worktree prune
