//! C14 — placeholder while C18 is being completed.
use lrv_core::*;
pub struct C14;
impl Monitor for C14 {
    fn prop(&self) -> &'static str { "C14" }
    fn gens(&self, _t: Tier) -> Vec<Gen> { vec![] }
    fn run_case(&self, _g: &str, _i: u64, _r: &mut Prng, _c: &mut Collector) {}
    fn rule(&self) -> String { String::new() }
}
