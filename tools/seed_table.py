#!/usr/bin/env python3
"""tools/seed_table.py <letters>  — prints the DESIGN 11.3 table rows for the seeded changes whose id ends in one of <letters>
   tools/seed_table.py --update <sweep log>  — writes the sweep's verdict (check, signature count, sample signature) into each meta.json"""
import sys, json, glob, os, re
if sys.argv[1] == "--update":
    cur = None
    res = {}
    for l in open(sys.argv[2]):
        m = re.match(r"MUTANT s-(C\d\d[a-z]+) (C\d\d): (CAUGHT|missed) (\d+) signatures", l)
        if m:
            cur = (m.group(1), m.group(2))
            res.setdefault(m.group(1), []).append([m.group(2), m.group(3), int(m.group(4)), None])
            continue
        m = re.match(r"\s+(C\d\d\|\S.*?) x\d+\s*$", l)
        if m and cur:
            sig = re.sub(r"/tmp/mutwork\d*/s-C\d\d[a-z]+/", "", m.group(1))
            res[cur[0]][-1][3] = sig
    for sid, rs in res.items():
        p = f"/verif/seeded/{sid}/meta.json"
        j = json.load(open(p))
        caught = [f"{c} ({n} signatures, e.g. {s})" for c, v, n, s in rs if v == "CAUGHT"]
        if caught:
            j["caught_by"] = "; ".join(caught)
            json.dump(j, open(p, "w"), indent=1)
        else:
            print("NOT CAUGHT:", sid, rs)
    sys.exit(0)
for d in sorted(glob.glob("/verif/seeded/C*")):
    sid = os.path.basename(d)
    if sid[-1] not in sys.argv[1]:
        continue
    j = json.load(open(d + "/meta.json"))
    title = open(d + "/README.md").readline().strip().lstrip("# ").strip()
    cb = re.sub(r"/tmp/mutwork\d*/s-C\d\d[a-z]+/", "", j["caught_by"]).replace("|", "/")
    print(f"| {sid} | {title} | {cb} | {j.get('initially_missed_by') or '—'} |")
