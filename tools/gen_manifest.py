#!/usr/bin/env python3
"""Regenerates /verif/MANIFEST.json from the table below (kept in one place so that the
manifest is always valid JSON and always lists every property either as claimed or as
not_applicable)."""
import json
import os
import subprocess

ROOT = os.path.dirname(os.path.dirname(os.path.abspath(__file__)))

ALL = ["C%02d" % i for i in range(1, 21)]

# id -> (level, technique, level text, level note, design ref)
CLAIMED = {
    "C01": ("exploration", "differential runtime monitor: frame builders vs independent reference codec (own AES/CMAC), panic trap, overflow-checked build; Miri + release legs in thorough",
            "Every description generated (full cross of type x flags x FOptsLen x payload kind, every payload length, all DevNonces, all DLSettings x RxDelay) is built by the real code and compared byte-for-byte with an independently written LoRaWAN 1.0.x encoder; forbidden descriptions must be refused. Held on the executions observed; counts in the evidence.",
            "Trusts the reference codec in harness/lrv-core (self-tested against FIPS-197, RFC 4493 and a public LoRaWAN vector at every start).", "6/C01"),
    "C02": ("exploration", "differential runtime monitor: parser/MIC/decrypt vs independent reference decoder on valid, bit-flipped, mutated, resized and random byte strings; buffer-before/after comparison",
            "Every byte string generated is fed to every receive-path entry point; classification, fields, MIC verdicts under several counters, plaintext, buffer preservation on error and decrypt involution are compared with the reference.",
            "Trusts the reference codec; Error variants are not compared, only accept/reject and values.", "6/C02"),
    "C05": ("exploration", "runtime monitor: exhaustive hook-level counter arithmetic vs the statement's rule + reference acceptance model over device sessions (reference codec decides every verdict)",
            "Counter reconstruction is compared for all 2^16 wire values per `last` around every boundary class; sessions created at chosen counters receive fresh/replayed/reordered/far-future/forged/oversized frames in RX1, RX2 and Class C gaps on both front-ends and after every transaction the remembered counter, response, delivered payloads and MAC answers are compared with the model.",
            "Trusts the reference codec; size-limit clause only exercised clearly within/beyond the limit; hook verif::next_fcnt_down is a thin wrapper of the private function.", "6/C05"),
    "C06": ("fault_enumeration", "runtime monitor with fault injection at every radio-call position; every frame handed to the radio is decoded by the reference codec and counters checked for strict increase",
            "Base histories over the event alphabet are re-run once per radio call with an injected error at that call (plus sampled double faults and near-2^32 sessions) on nb, async and async+ClassC front-ends; the full counter of every uplink is recovered by MIC verification and must strictly increase until SessionExpired.",
            "Trusts the reference codec; a frame passed to tx counts as handed to the radio even if the call then errors; guarantee ends once expiry was reported.", "6/C06"),
}

NOT_YET = "monitor not built yet in this revision (planned in DESIGN.md section 6)"


def main():
    commits = []
    try:
        out = subprocess.run(["git", "-C", "/repo", "log", "--format=%H %s"], stdout=subprocess.PIPE, text=True).stdout
        for line in out.splitlines():
            h, _, subj = line.partition(" ")
            if subj.startswith("verif-hooks:") or subj.startswith("hooks:"):
                commits.append(h)
    except Exception:
        pass
    checks = []
    for pid in ALL:
        if pid not in CLAIMED:
            continue
        level, tech, text, note, ref = CLAIMED[pid]
        checks.append({
            "property_id": pid,
            "quick_cmd": f"./check {pid} --tier quick",
            "thorough_cmd": f"./check {pid} --tier thorough",
            "evidence_file": f"/verif/evidence/{pid}.json",
            "replay_cmd_template": f"./check {pid} --replay {{path}}",
            "engine": "lrv",
            "level_claimed": {"category": level, "text": text, "design_ref": "DESIGN.md section " + ref},
            "level_note": note,
            "technique": tech,
        })
    m = {
        "version": 1,
        "setup_cmd": "./setup.sh",
        "hooks": {
            "guard": "cargo feature `verif-hooks` (lorawan-device, lora-phy), off by default",
            "enable": "the harness crates depend on /repo/* by path with features = [\"verif-hooks\"]; every ./check rebuilds them with cargo (offline)",
            "baseline_off_cmd": "cd /repo && cargo test --workspace --no-fail-fast --offline",
            "source_commits": commits,
            "add_only": True,
        },
        "engines": [
            {"name": "lrv", "path": "/verif/harness", "serves_properties": sorted(CLAIMED),
             "kind_free_text": "Rust monitor binaries (lrv-codec, lrv-mac, lrv-phy, lrv-phyref) driving the real crates through their public API with independent oracles (reference codec, regional tables, chip models), panic trap, step budgets; python driver ./check adds Miri/ASan/valgrind/release legs, signature de-duplication and known-finding matching"},
        ],
        "checks": checks,
        "notes": "Runtime monitoring and sanitizers only. Exit 0 held / 1 unlisted violation / 2 inconclusive (never a VIOLATION line). VERIF_SEED seeds all sampled parts.",
        "not_applicable": [{"property_id": p, "reason": NOT_YET} for p in ALL if p not in CLAIMED],
    }
    with open(os.path.join(ROOT, "MANIFEST.json"), "w") as f:
        json.dump(m, f, indent=1)
        f.write("\n")
    print("MANIFEST.json:", len(checks), "checks,", len(m["not_applicable"]), "not applicable")


if __name__ == "__main__":
    main()
