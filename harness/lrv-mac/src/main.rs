//! lrv-mac: monitors for the lorawan-device crate (C04-C12, C20).
mod c04;
mod c05;
mod c06;
mod c07;
mod c08;
mod c09;
mod c10;
mod c11;
mod c12;
mod c20;
mod net;
mod regions;
mod seqform;
mod sim;

fn main() {
    lrv_core::runner::main(&[&c04::C04, &c05::C05, &c06::C06, &c07::C07, &c08::C08, &c09::C09, &c10::C10, &c11::C11, &c12::C12, &c20::C20]);
}
