//! C17 / power: the PA settings written by set_tx_power_and_ramp_time, decoded with the data
//! sheets' tables/formulas, correspond to the request clamped into the chip's range.

use crate::bus::*;
use crate::exec::block_on;
use crate::viol;
use lora_modulation::{Bandwidth, CodingRate, SpreadingFactor};
use lora_phy::lr1110::PaSelection;
use lora_phy::mod_params::{ModulationParams, RadioError};
use lora_phy::mod_traits::RadioKind;
use lrv_core::*;
use std::collections::BTreeMap;

/// (variant/PA path, band) x (with / without modulation params)
const PATHS: [(&str, &str, u32); 18] = [
    ("sx1261", "lp", 315_000_000),
    ("sx1261", "lp", 868_100_000),
    ("sx1262", "hp", 315_000_000),
    ("sx1262", "hp", 868_100_000),
    ("stm32wl", "lp", 315_000_000),
    ("stm32wl", "lp", 868_100_000),
    ("stm32wl", "hp", 315_000_000),
    ("stm32wl", "hp", 868_100_000),
    ("sx1276", "rfo", 433_175_000),
    ("sx1276", "rfo", 868_100_000),
    ("sx1276", "boost", 433_175_000),
    ("sx1276", "boost", 868_100_000),
    ("sx1272", "rfo", 868_100_000),
    ("sx1272", "boost", 868_100_000),
    ("lr1110", "lp", 315_000_000),
    ("lr1110", "lp", 868_100_000),
    ("lr1110", "hp", 868_100_000),
    ("lr1110", "hf", 868_100_000),
];
pub const CASES: u64 = PATHS.len() as u64 * 2;

const EXTREMES: [i32; 16] = [i32::MIN, i32::MIN + 1, -65_536, -32_769, -32_768, -1000, -256, -129, 128, 255, 256, 1000, 32_767, 65_536, i32::MAX - 1, i32::MAX];

pub fn assumptions() -> Vec<String> {
    vec![
        "SX126x PA decode: a SetPaConfig equal to an 'optimal settings' row of data sheet table 13-21 (SX1262: (duty,hpMax) (4,7)=+22, (3,5)=+20, (2,3)=+17, (2,2)=+14, each with SetTxParams +22; SX1261: (6,0)=+15 and (4,0)=+14 with SetTxParams +14, (1,0)=+10 with SetTxParams +13) yields row power minus (row SetTxParams - written SetTxParams), i.e. output tracks SetTxParams dB for dB inside a row; any other SetPaConfig is undecodable and only the clamping/monotonic clauses are checked for it, except that paDutyCycle above 0x04 (high-power PA) / 0x07 (low-power PA) or hpMax above 0x07 break the limits section 13.1.14 sets".into(),
        "STM32WL high-power row (2,2) is set-valued: Semtech's table (+14 at SetTxParams +22) and ST's characterisation (SetTxParams value = output dBm) are both accepted".into(),
        "SetTxParams power must lie in -17..+14 (low-power PA) / -9..+22 (high-power PA) and deviceSel must name the PA of the variant (data sheet 13.1.14, 13.4.4)".into(),
        "chip ranges (set-valued where the data sheet gives two numbers): SX1261 -17..+15 or -17..+14 (only -17..+14 below 400 MHz, where an InvalidOutputPowerForFrequency refusal of >= +15 is accepted as well), SX1262 -9..+22, SX1276 RFO -4..+14 or -4..+15, SX1276/72 PA_BOOST +2..+20 or +2..+17, SX1272 RFO -1..+14".into(),
        "SX1276: RFO Pout = 10.8 + 0.6 MaxPower - (15 - OutputPower), PA_BOOST Pout = 17 - (15 - OutputPower), +3 dB when RegPaDac[2:0] = 7 (data sheet states it for OutputPower = 15; the linear extension 5 + OutputPower is Semtech's driver formula); SX1272: RFO Pout = -1 + OutputPower, PA_BOOST 2 + OutputPower (+3 dB with PaDac = 7). Decoded power must be <= the clamped request and less than 1 dB below it".into(),
        "LR1110: the vendor PA calibration tables cannot be pinned from the manual, so only (a) SetTxParams power within the PA's range (LP -17..+15, HP -9..+22, HF -18..+13) and (b) requests beyond the range giving the same bytes as the range end are checked".into(),
    ]
}

fn mp(freq: u32) -> ModulationParams {
    ModulationParams { spreading_factor: SpreadingFactor::_7, bandwidth: Bandwidth::_125KHz, coding_rate: CodingRate::_4_5, low_data_rate_optimize: 0, frequency_in_hz: freq }
}

/// What the chip model saw for one request.
#[derive(Clone, Debug, PartialEq)]
struct Seen {
    err: Option<String>,
    pa_cfg: Option<[u8; 4]>,
    tx_params: Option<[u8; 2]>,
    pa_config_reg: Option<u8>,
    pa_dac_reg: u8,
    other_regs: bool,
}

/// Equality of everything that determines the output power (the ramp byte does not).
fn same_power(a: &Seen, b: &Seen) -> bool {
    a.pa_cfg == b.pa_cfg && a.tx_params.map(|t| t[0]) == b.tx_params.map(|t| t[0]) && a.pa_config_reg == b.pa_config_reg && a.pa_dac_reg == b.pa_dac_reg
}

fn seen_json(s: &Seen) -> Value {
    json!({"error": s.err, "set_pa_config": s.pa_cfg.map(|b| hex(&b)), "set_tx_params": s.tx_params.map(|b| hex(&b)),
           "reg_pa_config": s.pa_config_reg.map(|b| format!("{:02x}", b)), "reg_pa_dac": format!("{:02x}", s.pa_dac_reg), "other_registers_written": s.other_regs})
}

enum Dec {
    /// candidate output powers in tenths of dBm
    Power(Vec<i32>),
    Undecodable(String),
    /// a hard data sheet rule is broken: (failure kind, explanation)
    Illegal(&'static str, String),
}

fn decode(variant: &str, pa: &str, s: &Seen) -> Dec {
    match variant {
        "sx1261" | "sx1262" | "stm32wl" => {
            let (Some(c), Some(t)) = (s.pa_cfg, s.tx_params) else { return Dec::Illegal("not-written", "SetPaConfig and SetTxParams must both be issued".into()) };
            let hp = pa == "hp";
            let want_sel = if hp { 0 } else { 1 };
            if c[2] != want_sel {
                return Dec::Illegal("wrong-device-sel", format!("deviceSel {} but the variant's PA needs {}", c[2], want_sel));
            }
            let txp = t[0] as i8 as i32;
            let (lo, hi) = if hp { (-9, 22) } else { (-17, 14) };
            if txp < lo || txp > hi {
                return Dec::Illegal("illegal-txparams", format!("SetTxParams power {} outside {}..{}", txp, lo, hi));
            }
            // data sheet 13.1.14: paDutyCycle above 0x04 (high-power PA) / 0x07 (low-power PA) and hpMax
            // above 0x07 are outside the specified operating range of the PA
            if (hp && c[0] > 4) || (!hp && c[0] > 7) || c[1] > 7 {
                return Dec::Illegal("pa-config-out-of-limits", format!("SetPaConfig duty={:#x} hpMax={:#x} exceeds the limits of the {} PA (duty <= {:#x}, hpMax <= 0x07)", c[0], c[1], if hp { "high-power" } else { "low-power" }, if hp { 4 } else { 7 }));
            }
            let rows: &[((u8, u8), i32, i32)] = if hp { &[((4, 7), 22, 22), ((3, 5), 20, 22), ((2, 3), 17, 22), ((2, 2), 14, 22)] } else { &[((6, 0), 15, 14), ((4, 0), 14, 14), ((1, 0), 10, 13)] };
            let mut cands = vec![];
            for (k, p, at) in rows {
                if *k == (c[0], c[1]) {
                    cands.push(10 * (p - (at - txp)));
                }
            }
            if variant == "stm32wl" && hp && (c[0], c[1]) == (2, 2) {
                cands.push(10 * txp);
            }
            if cands.is_empty() {
                Dec::Undecodable(format!("SetPaConfig duty={:#x} hpMax={:#x} is not a table row", c[0], c[1]))
            } else {
                Dec::Power(cands)
            }
        }
        "sx1276" | "sx1272" => {
            let Some(r) = s.pa_config_reg else { return Dec::Illegal("not-written", "RegPaConfig was not written".into()) };
            let boost_sel = r & 0x80 != 0;
            if boost_sel != (pa == "boost") {
                return Dec::Illegal("wrong-pa-pin", format!("PaSelect={} but the board uses {}", boost_sel as u8, pa));
            }
            let op = (r & 0x0f) as i32;
            let maxp = ((r >> 4) & 7) as i32;
            let dac = s.pa_dac_reg & 7;
            if dac != 4 && dac != 7 {
                return Dec::Undecodable(format!("RegPaDac[2:0]={} is neither 4 nor 7", dac));
            }
            let base = if variant == "sx1276" {
                if boost_sel {
                    10 * (2 + op)
                } else {
                    108 + 6 * maxp - 150 + 10 * op
                }
            } else if boost_sel {
                10 * (2 + op)
            } else {
                10 * (op - 1)
            };
            if boost_sel && dac == 7 {
                Dec::Power(vec![base + 30])
            } else {
                Dec::Power(vec![base])
            }
        }
        _ => {
            // lr1110
            let (Some(_c), Some(t)) = (s.pa_cfg, s.tx_params) else { return Dec::Illegal("not-written", "SetPaCfg and SetTxParams must both be issued".into()) };
            let txp = t[0] as i8 as i32;
            let (lo, hi) = match pa {
                "lp" => (-17, 15),
                "hp" => (-9, 22),
                _ => (-18, 13),
            };
            if txp < lo || txp > hi {
                return Dec::Illegal("illegal-txparams", format!("SetTxParams power {} outside {}..{}", txp, lo, hi));
            }
            Dec::Undecodable("vendor calibration table".into())
        }
    }
}

/// Defensible chip ranges (first = the one used for classes/signatures).
fn ranges(variant: &str, pa: &str, freq_known_below_400: bool, freq_known: bool) -> Vec<(i32, i32)> {
    match (variant, pa) {
        ("sx1261", _) | ("stm32wl", "lp") => {
            if freq_known_below_400 {
                vec![(-17, 14)]
            } else if freq_known {
                vec![(-17, 15), (-17, 14)]
            } else {
                vec![(-17, 15), (-17, 14)]
            }
        }
        ("sx1262", _) | ("stm32wl", _) => vec![(-9, 22)],
        ("sx1276", "rfo") => vec![(-4, 14), (-4, 15)],
        ("sx1276", _) | ("sx1272", "boost") => vec![(2, 20), (2, 17)],
        ("sx1272", _) => vec![(-1, 14)],
        ("lr1110", "lp") => vec![(-17, 15), (-17, 14)],
        ("lr1110", "hp") => vec![(-9, 22)],
        _ => vec![(-18, 13)],
    }
}

fn observe<RK: RadioKind>(rk: &mut RK, bus: &Bus, variant: &str, req: i32, m: Option<&ModulationParams>, prep: bool) -> Result<Seen, Trapped> {
    bus.chip().clear_decoded();
    let r: Result<Result<(), RadioError>, Trapped> = trap(|| block_on(rk.set_tx_power_and_ramp_time(req, m, prep)));
    let res = r?;
    let c = bus.chip();
    let dac_reg = if variant == "sx1272" { SX1272_REG_PA_DAC } else { SX1276_REG_PA_DAC };
    let is127 = c.family == Family::Sx127x;
    let allowed: u128 = (1u128 << SX127X_REG_PA_CONFIG) | (1u128 << SX127X_REG_PA_RAMP) | (1u128 << SX127X_REG_OCP) | (1u128 << dac_reg);
    Ok(Seen {
        err: res.err().map(|e| format!("{:?}", e)),
        pa_cfg: c.pa_cfg.map(|x| x.1),
        tx_params: c.tx_params.map(|x| x.1),
        pa_config_reg: if is127 && c.was_written(SX127X_REG_PA_CONFIG) { Some(c.regs[SX127X_REG_PA_CONFIG as usize]) } else { None },
        pa_dac_reg: if is127 { c.regs[dac_reg as usize] } else { 0 },
        other_regs: is127 && (c.reg_written & !allowed) != 0,
    })
}

fn sweep<RK: RadioKind>(rk: &mut RK, bus: &Bus, variant: &str, pa: &str, freq: u32, with_mp: bool, rng: &mut Prng, col: &mut Collector) {
    let m = mp(freq);
    let mref = if with_mp { Some(&m) } else { None };
    let below400 = with_mp && freq < 400_000_000;
    let rg = ranges(variant, pa, below400, with_mp);
    let (plo, phi) = rg[0];
    let bandname = if !with_mp {
        "no-mod-params"
    } else if freq < 400_000_000 {
        "<400M"
    } else if freq < 525_000_000 {
        "400-525M"
    } else {
        ">=862M"
    };
    let path = format!("{}/{}/{}", variant, pa, bandname);
    if bus.chip().family == Family::Sx127x {
        // reset values of the PA registers (data sheet register tables)
        let mut c = bus.chip();
        c.regs[SX127X_REG_PA_CONFIG as usize] = 0x4F;
        c.regs[SX127X_REG_PA_RAMP as usize] = if variant == "sx1272" { 0x19 } else { 0x09 };
        c.regs[SX127X_REG_OCP as usize] = 0x2B;
        c.regs[SX1276_REG_PA_DAC as usize] = 0x84;
        c.regs[SX1272_REG_PA_DAC as usize] = 0x84;
    }

    // order of requests: ascending, descending, then a shuffle (state left by one request must
    // not leak into the next, e.g. a stale high-power PaDac)
    let mut order: Vec<i32> = (-128..=127).collect();
    if col.tier == Tier::Sanitizer {
        order = (-20..=24).collect();
    }
    order.extend((-128..=127).rev());
    let mut sh: Vec<i32> = (-128..=127).chain(EXTREMES.iter().copied()).collect();
    for i in (1..sh.len()).rev() {
        let j = rng.below(i as u64 + 1) as usize;
        sh.swap(i, j);
    }
    if col.tier == Tier::Sanitizer {
        order.truncate(45);
    } else {
        order.extend(sh);
    }
    order.extend(EXTREMES.iter().copied());

    let mut first_seen: BTreeMap<i32, Seen> = BTreeMap::new();
    for (pos, req) in order.iter().copied().enumerate() {
        let prep = pos % 2 == 0;
        let reqclass = if req < plo {
            "below-range"
        } else if req > phi {
            "above-range"
        } else {
            "in-range"
        };
        col.eval(&format!("{}|power|{}", path, reqclass));
        col.event("power_judged");
        col.event(match reqclass {
            "below-range" => "power_clamped_low",
            "above-range" => "power_clamped_high",
            _ => "power_in_range",
        });
        let inp = |s: Option<&Seen>| json!({"path": path, "request_dbm": req, "is_tx_prep": prep, "freq_hz": if with_mp { Some(freq) } else { None }, "seen": s.map(seen_json)});
        let s = match observe(rk, bus, variant, req, mref, prep) {
            Ok(s) => s,
            Err(t) => {
                viol(col, &format!("C17|power|panic|{}/{}", path, reqclass), "set_tx_power_and_ramp_time panicked", || json!({"input": inp(None), "panic": t.msg, "loc": t.loc}));
                continue;
            }
        };
        if s.other_regs {
            col.event("power_other_registers_written");
        }
        first_seen.entry(req).or_insert_with(|| s.clone());
        if let Some(e) = &s.err {
            let documented = below400 && req >= 15 && (variant == "sx1261" || pa == "lp") && e == "InvalidOutputPowerForFrequency";
            if documented {
                col.event("power_refused_below_400MHz");
            } else {
                viol(col, &format!("C17|power|refused|{}/{}", path, reqclass), "a power request was refused instead of clamped", || inp(Some(&s)));
            }
            continue;
        }
        match decode(variant, pa, &s) {
            Dec::Illegal(kind, why) => {
                viol(col, &format!("C17|power|{}|{}/{}", kind, path, reqclass), "PA settings break a data sheet rule", || json!({"input": inp(Some(&s)), "why": why}));
            }
            Dec::Undecodable(why) => {
                col.event(&format!("power_undecodable:{}", variant));
                col.notes.entry(format!("power_undecodable:{}", path)).or_insert(json!(why));
            }
            Dec::Power(cands) => {
                col.event("power_decoded");
                let mut ok = false;
                for c10 in &cands {
                    for (lo, hi) in &rg {
                        let target = 10 * req.clamp(*lo, *hi);
                        if *c10 <= target && target - *c10 < 10 {
                            ok = true;
                        }
                    }
                }
                if !ok {
                    let c10 = cands[0];
                    let kind = if reqclass == "in-range" && c10 > 10 * req { "above-request" } else { "not-clamped-request" };
                    viol(col, &format!("C17|power|{}|{}/{}", kind, path, reqclass), "decoded output power does not correspond to the request clamped into the chip's range", || {
                        json!({"input": inp(Some(&s)), "decoded_dbm_candidates": cands.iter().map(|x| *x as f64 / 10.0).collect::<Vec<_>>(), "accepted_ranges": rg, "expected_dbm": req.clamp(plo, phi)})
                    });
                }
            }
        }
    }

    // clamping clause, decode-independent: a request beyond the range programs exactly what the
    // range end programs (for some defensible range end)
    for (req, s) in first_seen.iter() {
        if s.err.is_some() {
            continue;
        }
        let beyond_hi = rg.iter().all(|(_, hi)| req > hi);
        let beyond_lo = rg.iter().all(|(lo, _)| req < lo);
        if !(beyond_hi || beyond_lo) {
            continue;
        }
        col.eval_n(1);
        let ends: Vec<i32> = rg.iter().map(|(lo, hi)| if beyond_hi { *hi } else { *lo }).collect();
        let same = ends.iter().any(|e| first_seen.get(e).map(|x| x.err.is_none() && same_power(x, s)).unwrap_or(false));
        // below 400 MHz the upper end itself may be refused: then compare with the highest accepted request
        let same = same || (beyond_hi && below400 && ends.iter().all(|e| first_seen.get(e).map(|x| x.err.is_some()).unwrap_or(true)));
        if !same {
            let rc = if beyond_hi { "above-range" } else { "below-range" };
            viol(col, &format!("C17|power|clamp-differs|{}/{}", path, rc), "a request beyond the chip's range programs something else than the range end", || {
                json!({"path": path, "request_dbm": req, "seen": seen_json(s), "range_ends": ends, "seen_at_ends": ends.iter().map(|e| first_seen.get(e).map(seen_json)).collect::<Vec<_>>()})
            });
        }
    }
    // monotonic clause for settings the oracle cannot decode: inside one PA configuration the
    // SetTxParams power never decreases when the request grows
    let mut prev: Option<(i32, [u8; 4], i32)> = None;
    for (req, s) in first_seen.iter() {
        if s.err.is_some() {
            continue;
        }
        if let (Some(c), Some(t)) = (s.pa_cfg, s.tx_params) {
            let txp = t[0] as i8 as i32;
            if let Some((preq, pc, ptxp)) = prev {
                if pc == c && txp < ptxp {
                    viol(col, &format!("C17|power|non-monotonic|{}", path), "SetTxParams power decreases while the request grows (same PA configuration)", || json!({"path": path, "request_a": preq, "txparams_a": ptxp, "request_b": req, "txparams_b": txp, "pa_config": hex(&c)}));
                }
            }
            prev = Some((*req, c, txp));
        }
    }
    if col.want_sample() {
        col.sample(json!({"path": path, "requests": order.len(), "example": first_seen.get(&14).map(seen_json)}));
    }
}

pub fn run(idx: u64, rng: &mut Prng, col: &mut Collector) {
    let (variant, pa, freq) = PATHS[(idx / 2) as usize % PATHS.len()];
    let with_mp = idx % 2 == 0;
    match (variant, pa) {
        ("sx1261", _) => {
            let (mut rk, bus) = new_sx1261();
            sweep(&mut rk, &bus, variant, pa, freq, with_mp, rng, col)
        }
        ("sx1262", _) => {
            let (mut rk, bus) = new_sx1262();
            sweep(&mut rk, &bus, variant, pa, freq, with_mp, rng, col)
        }
        ("stm32wl", _) => {
            let (mut rk, bus) = new_stm32wl(pa == "hp");
            sweep(&mut rk, &bus, variant, pa, freq, with_mp, rng, col)
        }
        ("sx1276", _) => {
            let (mut rk, bus) = new_sx1276(pa == "boost");
            sweep(&mut rk, &bus, variant, pa, freq, with_mp, rng, col)
        }
        ("sx1272", _) => {
            let (mut rk, bus) = new_sx1272(pa == "boost");
            sweep(&mut rk, &bus, variant, pa, freq, with_mp, rng, col)
        }
        _ => {
            let sel = match pa {
                "lp" => PaSelection::Lp,
                "hp" => PaSelection::Hp,
                _ => PaSelection::Hf,
            };
            let (mut rk, bus) = new_lr1110(sel);
            sweep(&mut rk, &bus, variant, pa, freq, with_mp, rng, col)
        }
    }
}
