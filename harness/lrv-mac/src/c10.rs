//! C10 — receive windows follow the regional parameters in force when the uplink was sent.

use crate::c12::uplink_drs;
use crate::net::*;
use crate::regions::{self, Reg};
use crate::sim::*;
use lrv_core::refcodec::*;
use lrv_core::*;

pub struct C10;

impl Monitor for C10 {
    fn prop(&self) -> &'static str {
        "C10"
    }
    fn scalable(&self, g: &str) -> bool {
        let _ = g;
        true
    }
    fn gens(&self, tier: Tier) -> Vec<Gen> {
        vec![
            // region x front x uplink DR slot(8) x offset(8) x rx-delay class(4)
            gen("data-grid", 9 * 3 * 8 * 8 * 4 * tier.pick(1, 60, 0)),
            gen("fixed-channels", 2 * 3 * 72 * tier.pick(1, 40, 0)),
            gen("join-windows", tier.pick(3_000, 1_000_000, 4)),
            gen("histories", tier.pick(2_000, 1_000_000, 4)),
        ]
    }
    fn rule(&self) -> String {
        "data-grid: region x front-end x uplink DR x RX1DROffset 0..7 (put in force by RXParamSetupReq, only acked ones count) x RxDelay class, with RX2 overrides, DlChannelReq remaps, lead time {0,50,300} ms and TX-done times {0,57,1800}; fixed-channels: every one of the 72 US915/AU915 uplink channels reached through the scripted RNG; join-windows: join attempts incl. fixed-plan forced join rates and biases; histories: random sequences where parameter-changing MAC commands arrive between uplinks. For every transaction the RX1/RX2/Class C RfConfig and the timer requests at the radio boundary are compared with the regional tables applied to the parameters in force (snapshot) and the TxConfig actually used. Class = (region, uplink DR, offset, channel class, frame kind, override class).".into()
    }
    fn assumptions(&self) -> Vec<String> {
        vec![
            "parameters in force are read from the verif-hooks snapshot immediately before the uplink (their agreement with the MAC answers is C08's business); the DlChannel mapping is tracked from acknowledged DlChannelReq commands".into(),
            "where the regional RX1 table is edition dependent (AS923 upper clamp 5/7, lower clamp by dwell time) every defensible cell value is accepted; where the table cell is a non-LoRa rate the window only has to use some LoRa rate the region defines".into(),
            "timing: RX1 timer = delay + reported end-of-TX time - declared lead time; RX2 = RX1 + 1000 ms; the close time of an nb window is not judged".into(),
        ]
    }
    fn required_events(&self, tier: Tier) -> Vec<&'static str> {
        if tier == Tier::Sanitizer {
            vec!["windows_checked"]
        } else {
            vec!["windows_checked", "rx1_offset_in_force", "rx2_override_in_force", "dlchannel_in_force", "rxdelay_in_force", "join_windows_checked", "classc_gap_checked", "fixed_500k_channel", "nb_timing_checked", "async_timing_checked", "remapped_channel_redefined", "refused_rxparamsetup_steps", "nb_clock_upper_half", "rxtiming_rfu_bits_set"]
        }
    }

    fn run_case(&self, g: &str, idx: u64, rng: &mut Prng, col: &mut Collector) {
        match g {
            "data-grid" => {
                let reg = regions::ALL[(idx % 9) as usize];
                let front = FRONTS[((idx / 9) % 3) as usize];
                let dslot = ((idx / 27) % 8) as usize;
                let off = ((idx / 216) % 8) as u8;
                let dclass = ((idx / 1728) % 4) as u8;
                data_case(reg, front, Some(dslot), Some(off), Some(dclass), rng, col);
            }
            "fixed-channels" => {
                let reg = if idx % 2 == 0 { Reg::US915 } else { Reg::AU915 };
                let front = FRONTS[((idx / 2) % 3) as usize];
                let ch = ((idx / 6) % 72) as u32;
                fixed_channel_case(reg, front, ch, rng, col);
            }
            "join-windows" => {
                let reg = regions::ALL[(idx % 9) as usize];
                let front = FRONTS[((idx / 9) % 3) as usize];
                join_case(reg, front, rng, col);
            }
            _ => {
                let reg = regions::ALL[(idx % 9) as usize];
                let front = FRONTS[((idx / 9) % 3) as usize];
                data_case(reg, front, None, None, None, rng, col);
            }
        }
    }
}

/// What the monitor knows about the parameters in force.
struct Model {
    dl_map: std::collections::BTreeMap<usize, u32>,
}

fn uplink_dr_of(reg: Reg, sf: u8, bw: u32) -> Option<u8> {
    (0..8u8).find(|d| reg.lora_dr(*d) == Some((sf, bw)))
}

struct Windows {
    tx: (u32, u8, u32), // freq, sf, bw
    rx: Vec<(u32, u8, u32, Option<u32>)>, // single-shot windows in order: freq, sf, bw, buffer ms
    cont: Vec<(u32, u8, u32, usize)>,     // continuous (Class C) setups + number of rx_single calls before it
    timers: Vec<u64>,
    /// async: the timer was restarted between the (first) TX and the first timer wait
    reset_after_tx: bool,
}

fn extract(evs: &[Ev], nb: bool) -> Option<Windows> {
    let mut w = Windows { tx: (0, 0, 0), rx: vec![], cont: vec![], timers: vec![], reset_after_tx: false };
    let mut seen_tx = false;
    let mut singles = 0usize;
    for e in evs {
        match e {
            Ev::Tx { freq, sf, bw, .. } => {
                if !seen_tx {
                    w.tx = (*freq, *sf, *bw);
                    seen_tx = true;
                }
            }
            Ev::SetupRx { freq, sf, bw, single_ms, .. } => {
                if nb || single_ms.is_some() {
                    w.rx.push((*freq, *sf, *bw, *single_ms));
                } else {
                    w.cont.push((*freq, *sf, *bw, singles));
                }
            }
            Ev::RxSingle => singles += 1,
            Ev::TimerAt(t) => w.timers.push(*t),
            Ev::TimerReset => {
                if seen_tx && w.timers.is_empty() {
                    w.reset_after_tx = true;
                }
            }
            _ => {}
        }
    }
    if seen_tx {
        Some(w)
    } else {
        None
    }
}

#[allow(clippy::too_many_arguments)]
fn check_windows(reg: Reg, front: Front, join: bool, snap: &lorawan_device::verif::Snapshot, snap_after: &lorawan_device::verif::Snapshot, accepted: bool, model: &Model, evs: &[Ev], tx_done_ms: u32, lead: u32, col: &mut Collector, what: &str, extra: serde_json::Value) {
    // (top bit of `lead`: the board's offset is positive - windows after the nominal instant)
    let late = lead & 0x8000_0000 != 0;
    let lead = lead & 0x7FFF_FFFF;
    let nb = front == Front::Nb;
    let Some(w) = extract(evs, nb) else { return };
    col.event("windows_checked");
    if join {
        col.event("join_windows_checked");
    }
    let (txf, txsf, txbw) = w.tx;
    let ctx = |k: &str| json!({"kind": k, "what": what, "region": reg.name(), "front": front.name(), "join": join, "tx": {"freq": txf, "sf": txsf, "bw": txbw}, "rx_windows": w.rx, "classc_setups": w.cont, "timers": w.timers, "in_force": {"rx1_delay": snap.rx1_delay, "rx1_dr_offset": snap.rx1_dr_offset, "rx2_dr": snap.rx2_data_rate, "rx2_freq": snap.rx2_frequency, "dr": snap.data_rate}, "tx_done_ms": tx_done_ms, "lead_ms": lead, "extra": extra});
    // ---- RX1 frequency ---------------------------------------------------------------------------
    let mut exp_rx1_freqs: Vec<u32> = vec![];
    let mut chan_class = "dyn";
    if reg.fixed() {
        match reg.fixed_channel_of(txf) {
            Some(k) => {
                exp_rx1_freqs.push(reg.fixed_downlink(k % 8));
                chan_class = if k >= 64 { "fixed500" } else { "fixed125" };
                if k >= 64 {
                    col.event("fixed_500k_channel");
                }
            }
            None => {
                // transmitting off-plan is C09's finding; nothing to pair here
                return;
            }
        }
    } else {
        for (i, c) in snap.region.channels.iter().enumerate() {
            if let Some(c) = c {
                if c.ul_frequency == txf {
                    exp_rx1_freqs.push(model.dl_map.get(&i).copied().unwrap_or(txf));
                    if model.dl_map.contains_key(&i) {
                        chan_class = "dyn-remapped";
                    }
                }
            }
        }
        if exp_rx1_freqs.is_empty() {
            return; // C09's finding
        }
    }
    if w.rx.is_empty() {
        // a radio error or refusal ended the transaction before RX1; nothing to judge
        return;
    }
    let off = if join { 0 } else { snap.rx1_dr_offset };
    let up_dr = uplink_dr_of(reg, txsf, txbw);
    // ---- RX1 data rate ----------------------------------------------------------------------------
    let (f1, sf1, bw1, _) = w.rx[0];
    let mut class_dr = 99u8;
    if !exp_rx1_freqs.contains(&f1) {
        col.violation(&format!("C10|rx1-frequency|{}|{}|{}", reg.name(), chan_class, if join { "join" } else { "data" }), "RX1 is not opened on the downlink frequency paired with the uplink channel", ctx("rx1-frequency"));
    }
    if let Some(d) = up_dr {
        class_dr = d;
        let allowed = reg.rx1_dr(d, off);
        if !allowed.is_empty() {
            let rates: Vec<Option<(u8, u32)>> = allowed.iter().map(|x| reg.lora_dr(*x)).collect();
            if rates.iter().all(|r| r.is_some()) {
                if !rates.contains(&Some((sf1, bw1))) {
                    col.violation(&format!("C10|rx1-datarate|{}|updr={}|off={}|got=sf{}bw{}|{}", reg.name(), d, off, sf1, bw1 / 1000, if join { "join" } else { "data" }), "RX1 data rate differs from the regional RX1 table for (uplink data rate actually used, RX1DROffset in force)", json!({"ctx": ctx("rx1-datarate"), "allowed_dr": allowed}));
                }
            } else if !reg.is_lora_rate(sf1, bw1) {
                col.violation(&format!("C10|rx1-not-a-regional-lora-rate|{}|updr={}|off={}", reg.name(), d, off), "RX1 uses a rate the region does not define", ctx("rx1-rate"));
            }
        }
    }
    if !reg.is_lora_rate(sf1, bw1) {
        col.violation(&format!("C10|window-rate-undefined|rx1|{}|sf{}bw{}", reg.name(), sf1, bw1 / 1000), "a receive window uses a LoRa rate the region does not define", ctx("rx1-rate"));
    }
    // ---- RX2 --------------------------------------------------------------------------------------
    let (df, dd) = reg.rx2_default();
    let exp_f2 = if join { df } else { snap.rx2_frequency.unwrap_or(df) };
    let exp_d2 = if join { dd } else { snap.rx2_data_rate.unwrap_or(dd) };
    // (a join uses the parameters in force before the accept; a re-join from a configured
    // device may legitimately keep negotiated values: accept both for joins)
    let mut f2_ok = vec![exp_f2];
    let mut d2_ok = vec![exp_d2];
    if join {
        if let Some(f) = snap.rx2_frequency {
            f2_ok.push(f);
        }
        if let Some(d) = snap.rx2_data_rate {
            d2_ok.push(d);
        }
    }
    let check_rx2 = |f: u32, sf: u8, bw: u32, which: &str, col: &mut Collector| {
        if !f2_ok.contains(&f) {
            let tag = if what.contains("moved-rx2") { "|rx2-moved-in-the-session-left-behind" } else { "" };
            col.violation(&format!("C10|{}-frequency|{}|{}{}", which, reg.name(), if snap.rx2_frequency.is_some() { "negotiated" } else { "default" }, tag), "RX2 / Class C frequency differs from the negotiated or regional default", ctx(which));
        }
        let rates: Vec<Option<(u8, u32)>> = d2_ok.iter().map(|d| reg.lora_dr(*d)).collect();
        if rates.iter().all(|r| r.is_some()) {
            if !rates.contains(&Some((sf, bw))) {
                col.violation(&format!("C10|{}-datarate|{}|{}|got=sf{}bw{}", which, reg.name(), if snap.rx2_data_rate.is_some() { "negotiated" } else { "default" }, sf, bw / 1000), "RX2 / Class C data rate differs from the negotiated or regional default", ctx(which));
            }
        } else if !reg.is_lora_rate(sf, bw) {
            col.violation(&format!("C10|window-rate-undefined|{}|{}|sf{}bw{}", which, reg.name(), sf, bw / 1000), "a receive window uses a LoRa rate the region does not define", ctx(which));
        }
    };
    if w.rx.len() >= 2 {
        let (f2, sf2, bw2, _) = w.rx[1];
        check_rx2(f2, sf2, bw2, "rx2", col);
    }
    let nsingles = w.rx.len();
    for (f, sf, bw, before) in w.cont.iter() {
        col.event("classc_gap_checked");
        if (accepted || join) && *before == nsingles && nsingles > 0 {
            // Class C listening resumed after a downlink was accepted in this transaction: the
            // parameters in force are now the ones that downlink (or JoinAccept) left behind
            let f_ok = snap_after.rx2_frequency.unwrap_or(df);
            let d_ok = snap_after.rx2_data_rate.unwrap_or(dd);
            let rate = reg.lora_dr(d_ok);
            if *f != f_ok || (rate.is_some() && rate != Some((*sf, *bw))) {
                if !join || !(f2_ok.contains(f)) {
                    col.violation(&format!("C10|classc-after-downlink|{}|freq_ok={}", reg.name(), *f == f_ok), "Class C listening after an accepted downlink does not use the RX2 parameters now in force", ctx("classc-after"));
                }
            }
        } else {
            check_rx2(*f, *sf, *bw, "classc", col);
        }
    }
    // a Class C device listens in both gaps (before RX1, between RX1 and RX2) when both windows open
    // (a joined one: before the first accept there are no RX2 parameters of a session to listen on)
    if front == Front::AsyncC && !join && w.rx.len() >= 2 {
        for gap in 0..2usize {
            if !w.cont.iter().any(|c| c.3 == gap) {
                col.violation(&format!("C10|classc|no-listening-in-gap|{}", if gap == 0 { "before-rx1" } else { "between-rx1-and-rx2" }), "a Class C device did not listen between the windows of an uplink", ctx("classc-gap"));
            }
        }
    }
    // ---- timing -----------------------------------------------------------------------------------
    let d1: u64 = if join { 5000 } else { snap.rx1_delay as u64 };
    let mut exp_t1 = if late { d1 + tx_done_ms as u64 + lead as u64 } else { (d1 + tx_done_ms as u64).saturating_sub(lead as u64) };
    let mut exp_t2 = exp_t1 + 1000;
    if nb {
        // a 32-bit millisecond clock: instants are taken modulo 2^32
        exp_t1 &= 0xFFFF_FFFF;
        exp_t2 &= 0xFFFF_FFFF;
    }
    if nb {
        col.event("nb_timing_checked");
        // [t1, close1, t2, close2]
        if let Some(t1) = w.timers.first() {
            if *t1 != exp_t1 {
                col.violation(&format!("C10|rx1-timing|nb|{}|delay={}", if join { "join" } else { "data" }, d1 / 1000), "RX1 timeout request differs from delay + end-of-TX - lead", json!({"ctx": ctx("t1"), "expected": exp_t1}));
            }
        }
        if w.rx.len() >= 2 {
            if let Some(t2) = w.timers.get(2) {
                if *t2 != exp_t2 {
                    col.violation(&format!("C10|rx2-timing|nb|{}|delay={}", if join { "join" } else { "data" }, d1 / 1000), "RX2 timeout request is not RX1 + 1 s", json!({"ctx": ctx("t2"), "expected": exp_t2}));
                }
            }
        }
    } else {
        col.event("async_timing_checked");
        // the delays count from the end of the transmission: the timer is restarted there
        if !w.timers.is_empty() && !w.reset_after_tx {
            col.violation(&format!("C10|timing|async|timer-not-restarted-after-tx|{}", if join { "join" } else { "data" }), "the window timer is not restarted when the transmission ends: the receive delays count from an earlier instant", ctx("timer-reset"));
        }
        if let Some(t1) = w.timers.first() {
            if *t1 != exp_t1 {
                col.violation(&format!("C10|rx1-timing|async|{}|delay={}", if join { "join" } else { "data" }, d1 / 1000), "RX1 timer differs from delay + end-of-TX - lead", json!({"ctx": ctx("t1"), "expected": exp_t1}));
            }
        }
        if w.rx.len() >= 2 {
            if let Some(t2) = w.timers.get(1) {
                if *t2 != exp_t2 {
                    col.violation(&format!("C10|rx2-timing|async|{}|delay={}", if join { "join" } else { "data" }, d1 / 1000), "RX2 timer is not RX1 + 1 s", json!({"ctx": ctx("t2"), "expected": exp_t2}));
                }
            }
        }
    }
    col.eval(&format!("{}|updr={}|off={}|{}|{}|rx2={}{}|delay={}|{}", reg.name(), class_dr, off, chan_class, if join { "join" } else { "data" }, snap.rx2_data_rate.is_some(), snap.rx2_frequency.is_some(), d1 / 1000, front.name()));
}

fn data_case(reg: Reg, front: Front, dslot: Option<usize>, off: Option<u8>, dclass: Option<u8>, rng: &mut Prng, col: &mut Collector) {
    let opts = DevOpts { rng_seed: None, rng_start: rng.next_u32(), ..Default::default() };
    let Some(mut link): Option<Link> = Link::abp(front, reg, rng, &opts) else {
        col.event("harness_session_json_rejected");
        return;
    };
    let lead = *rng.pick(&[0u32, 50, 300]);
    // (the state-machine front-end works on the board's 32-bit millisecond clock: also instants in
    // its upper half and just before it wraps, i.e. after 24.8 and 49.7 days of uptime - among them
    // ends of transmission from which the receive delay leads exactly to, or a few milliseconds past,
    // the wrap, so that the board's lead time reaches back across it)
    let near_wrap = 0u32.wrapping_sub(1000 * rng.range(1, 15) as u32) + rng.below(300) as u32;
    let txd = if front == Front::Nb && rng.chance(1, 4) { *rng.pick(&[0x7FFF_FD00u32, 0x7FFF_FFFF, 0x8000_1000, 0xC000_0000, 0xFFFF_F000, 0xFFFF_FFFF, 0u32.wrapping_sub(1000), 0u32.wrapping_sub(1000) + 7, 0u32.wrapping_sub(5000), 0u32.wrapping_sub(5000) + 31, 0u32.wrapping_sub(2000) + 49, near_wrap]) } else { *rng.pick(&[0u32, 57, 1800]) };
    if txd > 0x7000_0000 {
        col.event("nb_clock_upper_half");
    }
    // state-machine front-end: one board in three with a lead time declares it as a positive offset (its
    // windows are to be opened that long after the nominal instant); carried to the oracle in the top bit
    let late = front == Front::Nb && lead > 0 && rng.chance(1, 3);
    if late {
        col.event("nb_positive_window_offsets");
    }
    {
        let mut l = link.dev.log.borrow_mut();
        l.late = late;
        l.lead_ms = lead;
        // a board may declare a listening buffer shorter than its lead time: the timers follow the lead time
        l.buffer_ms = if lead > 0 && lead % 100 == 0 { Some(lead / 5) } else { None };
        l.tx_done_ms = txd;
    }
    let mut model = Model { dl_map: Default::default() };
    let drs = uplink_drs(reg);
    // one free history in twelve is a long silence at the lowest rate (100-140 unanswered uplinks: the ADR
    // back-off has nowhere to go; the windows keep following what was negotiated, DlChannel pairings included)
    let long_silence = dslot.is_none() && rng.chance(1, 12);
    if long_silence {
        col.event("long_silences_at_the_lowest_rate");
    }
    let steps = if dslot.is_some() { 6 } else if long_silence { rng.range(100, 141) } else { rng.range(6, 20) };
    // ---- put parameters in force ----------------------------------------------------------------
    let mut cmds: Vec<u8> = vec![];
    let want_off = off.unwrap_or_else(|| rng.below(8) as u8);
    let (lo, hi) = reg.inner_band();
    let rx2_override = rng.chance(1, 2);
    let rx2dr = if rx2_override { *rng.pick(&[0u8, 1, 2, 3, 4, 5, 8, 9, 10, 12, 13]) } else { reg.rx2_default().1 };
    let rx2f = if rx2_override { lo + rng.below(((hi - lo) / 100) as u64) as u32 * 100 } else { reg.rx2_default().0 };
    cmds.extend(rx_param_setup_req((want_off << 4) | (rx2dr & 0x0f), rx2f / 100));
    let del = match dclass.unwrap_or_else(|| rng.below(4) as u8) {
        0 => 0,
        1 => 1,
        2 => rng.range(2, 14) as u8,
        _ => 15,
    };
    // (the upper nibble of the settings octet is RFU: a network that sets bits there still means Del)
    let rfu = if rng.bool() { (rng.below(16) as u8) << 4 } else { 0 };
    if rfu != 0 {
        col.event("rxtiming_rfu_bits_set");
    }
    cmds.extend(rx_timing_setup_req(del | rfu));
    let t = link.deliver_mac(&cmds, rng.bool(), rng.bool());
    // RXTimingSetupReq has no status bits: once the downlink is accepted the delay in force is
    // the commanded one (0 and 1 both mean 1 s)
    if matches!(t.resp, Resp::DownlinkReceived(_)) {
        let want = if del < 2 { 1000 } else { del as u32 * 1000 };
        let got = link.dev.snapshot().rx1_delay;
        if got != want {
            col.violation(&format!("C10|rx-delay-not-as-commanded|del={}", if del == 15 { "15".to_string() } else if del < 2 { "0-1".to_string() } else { "2-14".to_string() }), "the RX1 delay in force differs from the RXTimingSetupReq that was accepted", json!({"region": reg.name(), "front": front.name(), "commanded_del": del, "in_force_ms": got}));
        }
    }
    if let Resp::Panic(m, l) = &t.resp {
        col.violation(&format!("C10|panic|{}|{}", reg.name(), short_loc(l)), "device panicked while parameters were set up", json!({"msg": m, "loc": l, "cmds": hex(&cmds)}));
        return;
    }
    if !reg.fixed() && rng.chance(2, 3) {
        // remap the RX1 frequency of a default channel
        let idx = rng.below(reg.default_channels().len() as u64) as u8;
        let f = lo + rng.below(((hi - lo) / 100) as u64) as u32 * 100;
        let before = link.dev.snapshot();
        let t = link.deliver_mac(&dl_channel_req(idx, f / 100), rng.bool(), false);
        // acknowledged? read the answer in the next uplink below; the mapping is taken from the
        // answer of the *following* uplink, so peek with a dedicated uplink now
        let _ = before;
        let _ = t;
        let probe = link.txn(&[0x22], 1, false, &Script::silent());
        if let Some(u) = &probe.up {
            if let Ok(c) = parse_uplink_cmds(&u.mac_bytes()) {
                if c.iter().any(|(cid, p)| *cid == 0x0A && p.first().map(|b| b & 3 == 3).unwrap_or(false)) {
                    model.dl_map.insert(idx as usize, f);
                }
            }
        }
    }
    if !reg.fixed() && rng.chance(1, 3) {
        // an added channel, its RX1 frequency remapped, then the channel re-defined on another
        // frequency: the new definition is paired with its own frequency again
        let idx = (reg.default_channels().len() + rng.below(3) as usize) as u8;
        let f1 = lo + rng.below(((hi - lo) / 100) as u64) as u32 * 100;
        let fdl = lo + rng.below(((hi - lo) / 100) as u64) as u32 * 100;
        let f2 = lo + rng.below(((hi - lo) / 100) as u64) as u32 * 100;
        let acked = |link: &mut Link, cid: u8, want: u8| -> bool {
            let probe = link.txn(&[0x23], 1, false, &Script::silent());
            probe.up.as_ref().and_then(|u| parse_uplink_cmds(&u.mac_bytes()).ok()).map(|c| c.iter().any(|(c0, p)| *c0 == cid && p.first().map(|b| b & want == want).unwrap_or(false))).unwrap_or(false)
        };
        let _ = link.deliver_mac(&new_channel_req(idx, f1 / 100, 0x50), rng.bool(), false);
        if acked(&mut link, 0x07, 3) {
            let _ = link.deliver_mac(&dl_channel_req(idx, fdl / 100), rng.bool(), false);
            if acked(&mut link, 0x0A, 3) {
                model.dl_map.insert(idx as usize, fdl);
                if rng.chance(2, 3) && f2 != f1 {
                    let _ = link.deliver_mac(&new_channel_req(idx, f2 / 100, 0x50), rng.bool(), false);
                    if acked(&mut link, 0x07, 3) {
                        model.dl_map.remove(&(idx as usize));
                        col.event("remapped_channel_redefined");
                    }
                }
            }
        }
    }
    let s0 = link.dev.snapshot();
    if s0.rx1_dr_offset != 0 {
        col.event("rx1_offset_in_force");
    }
    if s0.rx2_frequency.is_some() && rx2_override {
        col.event("rx2_override_in_force");
    }
    if !model.dl_map.is_empty() {
        col.event("dlchannel_in_force");
    }
    if s0.rx1_delay != 1000 {
        col.event("rxdelay_in_force");
    }
    // the DlChannelAns is sticky until the next Class A downlink; that does not matter here
    for step in 0..steps {
        let dr = match dslot {
            Some(sl) => drs[sl % drs.len()],
            None if long_silence => drs[0],
            None => *rng.pick(&drs),
        };
        link.dev.set_datarate(dr);
        link.dev.set_rng_next(rng.next_u32());
        let snap = link.dev.snapshot();
        // histories: occasionally a parameter-changing downlink arrives in this transaction;
        // it must only affect the *next* uplink's windows
        let mut script = Script::silent();
        let mut changed = false;
        if dslot.is_none() && !long_silence && rng.chance(1, 4) {
            let o2 = rng.below(reg.max_rx1_offset() as u64 + 1) as u8;
            let c = rx_param_setup_req((o2 << 4) | (reg.rx2_default().1), reg.rx2_default().0 / 100);
            let f = link.mac_frame(&c, true);
            if rng.bool() {
                script.rx1.push(f);
            } else {
                script.rx2.push(f);
            }
            changed = true;
        }
        // a request the device has to refuse (RX2 on 100 MHz, in no region's band) whose other fields are
        // valid and differ from what is in force: the negotiated values stay what they were
        let mut refused = false;
        if dslot.is_none() && !changed && !long_silence && rng.chance(1, 6) {
            let o2 = (snap.rx1_dr_offset + 1 + rng.below(reg.max_rx1_offset() as u64) as u8) % (reg.max_rx1_offset() + 1);
            let c = rx_param_setup_req((o2 << 4) | (reg.rx2_default().1), 1_000_000);
            let f = link.mac_frame(&c, rng.bool());
            if rng.bool() {
                script.rx1.push(f);
            } else {
                script.rx2.push(f);
            }
            refused = true;
        }
        if front == Front::AsyncC && rng.chance(1, 5) {
            // Class C downlink with a MAC command in the gap: accepted, command not executed
            let c = rx_timing_setup_req(rng.range(2, 9) as u8);
            let f = link.mac_frame(&c, true);
            script.pre_rx1.push(f);
        }
        if front == Front::AsyncC && rng.chance(1, 6) {
            // the radio reports a receive error while the device listens in a gap (a frame with a bad CRC
            // overheard on the RX2 channel): the windows open when they are due all the same
            col.event("classc_gap_radio_errors");
            if rng.bool() {
                script.pre_rx1.push(vec![]);
            } else {
                script.between.push(vec![]);
            }
        }
        let t = link.txn(&[step as u8], 4, rng.chance(1, 5), &script);
        if let Resp::Panic(m, l) = &t.resp {
            col.violation(&format!("C10|panic|{}|{}", reg.name(), short_loc(l)), "device panicked during a data transaction", json!({"msg": m, "loc": l, "dr": dr}));
            return;
        }
        let after = link.dev.snapshot();
        if refused {
            col.event("refused_rxparamsetup_steps");
            if after.rx1_dr_offset != snap.rx1_dr_offset || after.rx2_frequency != snap.rx2_frequency || after.rx2_data_rate != snap.rx2_data_rate {
                col.violation(
                    &format!("C10|negotiated-values-changed-by-refused-request|{}", if after.rx1_dr_offset != snap.rx1_dr_offset { "rx1-offset" } else { "rx2" }),
                    "an RXParamSetupReq with an RX2 frequency outside every band changed the receive parameters in force",
                    json!({"region": reg.name(), "front": front.name(), "before": {"rx1_dr_offset": snap.rx1_dr_offset, "rx2_frequency": snap.rx2_frequency, "rx2_data_rate": snap.rx2_data_rate}, "after": {"rx1_dr_offset": after.rx1_dr_offset, "rx2_frequency": after.rx2_frequency, "rx2_data_rate": after.rx2_data_rate}}),
                );
            }
        }
        check_windows(reg, front, false, &snap, &after, matches!(t.resp, Resp::DownlinkReceived(_)), &model, &t.evs, txd, if late { lead | 0x8000_0000 } else { lead }, col, if changed { "with-param-change-in-flight" } else { "plain" }, json!({"step": step, "dr": dr}));
        if col.want_sample() && step == 0 {
            col.sample(json!({"region": reg.name(), "front": front.name(), "dr": dr, "offset_requested": want_off, "rx2_override": rx2_override, "events": format!("{:?}", t.evs.iter().filter(|e| !matches!(e, Ev::Tx{..})).collect::<Vec<_>>())}));
        }
    }
}

fn fixed_channel_case(reg: Reg, front: Front, ch: u32, rng: &mut Prng, col: &mut Collector) {
    // reach channel `ch` through the scripted RNG: 125 kHz channels are drawn as v & 63,
    // 500 kHz channels as 64 + (v & 7)
    let opts = DevOpts { rng_seed: None, rng_start: 0, ..Default::default() };
    let Some(mut link): Option<Link> = Link::abp(front, reg, rng, &opts) else { return };
    let dr = if ch >= 64 {
        if reg == Reg::US915 { 4 } else { 6 }
    } else {
        *rng.pick(&[0u8, 1, 2, 3])
    };
    link.dev.set_datarate(dr);
    link.dev.set_rng_next(if ch >= 64 { (ch - 64) + 8 * rng.below(1000) as u32 } else { ch + 64 * rng.below(1000) as u32 });
    let snap = link.dev.snapshot();
    let t = link.txn(&[1, 2], 9, false, &Script::silent());
    let lead = LEAD_MS;
    let model = Model { dl_map: Default::default() };
    if let Some(Ev::Tx { freq, .. }) = t.evs.iter().find(|e| matches!(e, Ev::Tx { .. })) {
        if reg.fixed_channel_of(*freq) != Some(ch) {
            col.event("fixed_channel_not_reached");
        }
    }
    let after = link.dev.snapshot();
    check_windows(reg, front, false, &snap, &after, false, &model, &t.evs, 0, lead, col, "fixed-channel", json!({"channel": ch, "dr": dr}));
}

fn join_case(reg: Reg, front: Front, rng: &mut Prng, col: &mut Collector) {
    let creds = default_creds(rng);
    let bias = if reg.fixed() && rng.chance(1, 2) { Some((rng.range(1, 8) as u8, rng.range(1, 5) as usize)) } else { None };
    let opts = DevOpts { rng_seed: None, rng_start: rng.next_u32(), bias };
    let mut dev: Dev = Dev::new(front, reg, creds.clone(), &opts);
    let lead = *rng.pick(&[0u32, 50, 300]);
    // (the state-machine front-end works on the board's 32-bit millisecond clock: also instants in
    // its upper half and just before it wraps, i.e. after 24.8 and 49.7 days of uptime - among them
    // ends of transmission from which the receive delay leads exactly to, or a few milliseconds past,
    // the wrap, so that the board's lead time reaches back across it)
    let near_wrap = 0u32.wrapping_sub(1000 * rng.range(1, 15) as u32) + rng.below(300) as u32;
    let txd = if front == Front::Nb && rng.chance(1, 4) { *rng.pick(&[0x7FFF_FD00u32, 0x7FFF_FFFF, 0x8000_1000, 0xC000_0000, 0xFFFF_F000, 0xFFFF_FFFF, 0u32.wrapping_sub(1000), 0u32.wrapping_sub(1000) + 7, 0u32.wrapping_sub(5000), 0u32.wrapping_sub(5000) + 31, 0u32.wrapping_sub(2000) + 49, near_wrap]) } else { *rng.pick(&[0u32, 57, 1800]) };
    if txd > 0x7000_0000 {
        col.event("nb_clock_upper_half");
    }
    {
        let mut l = dev.log.borrow_mut();
        l.lead_ms = lead;
        // a board may declare a listening buffer shorter than its lead time: the timers follow the lead time
        l.buffer_ms = if lead > 0 && lead % 100 == 0 { Some(lead / 5) } else { None };
        l.tx_done_ms = txd;
    }
    let model = Model { dl_map: Default::default() };
    let attempts = rng.range(1, 10);
    for a in 0..attempts {
        dev.set_rng_next(rng.next_u32());
        let snap = dev.snapshot();
        let ev0 = dev.ev_len();
        // the last attempt gets an accept so that a data uplink with accept-defined settings follows
        let mut script = Script::silent();
        let last = a + 1 == attempts;
        // (the accept names an RX2 rate of its own two times out of three: any rate every device of the plan
        // implements for downlinks; it names no RX2 frequency, which stays the regional default)
        let ja_rx2_dr = if rng.chance(2, 3) { if reg.fixed() { rng.range(8, 14) as u8 } else { rng.below(6) as u8 } } else { reg.rx2_default().1 };
        let ja = JoinAcceptDesc { join_nonce: rng.below(1 << 24) as u32, net_id: 1, dev_addr: rng.next_u32(), dl_settings: (rng.below(reg.max_rx1_offset() as u64 + 1) as u8) << 4 | ja_rx2_dr, rx_delay: rng.below(16) as u8, cf_list: None };
        if last {
            let w = encode_join_accept(&creds.app_key, &ja);
            if rng.bool() {
                script.rx1.push(w);
            } else {
                script.rx2.push(w);
            }
        }
        let resp = dev.transact(Action::Join, &script);
        if let Resp::Panic(m, l) = &resp {
            col.violation(&format!("C10|panic|join|{}|{}", reg.name(), short_loc(l)), "device panicked during a join attempt", json!({"msg": m, "loc": l}));
            return;
        }
        let evs = dev.evs_since(ev0);
        let after = dev.snapshot();
        check_windows(reg, front, true, &snap, &after, matches!(resp, Resp::JoinSuccess), &model, &evs, txd, lead, col, "join", json!({"attempt": a, "bias": bias}));
        if last && matches!(resp, Resp::JoinSuccess) {
            join_delay_check(reg, front, &ja, &after, "first-join", col);
            // first data uplinks: windows follow the accept's settings (already in the snapshot)
            // and the data rate the frame is really sent at, which a still-active join bias may
            // force away from the one the application configured
            let drs = uplink_drs(reg);
            let app_dr = if rng.chance(2, 3) { Some(*rng.pick(&drs)) } else { None };
            if let Some(d) = app_dr {
                dev.set_datarate(d);
            }
            for n in 0..2 {
                dev.set_rng_next(rng.next_u32());
                let snap = dev.snapshot();
                let ev1 = dev.ev_len();
                let r = dev.transact(Action::Send { data: &[7], port: 1, confirmed: false }, &Script::silent());
                if let Resp::Panic(m, l) = &r {
                    col.violation(&format!("C10|panic|after-join|{}|{}", reg.name(), short_loc(l)), "device panicked in the first uplink after join", json!({"msg": m, "loc": l}));
                    return;
                }
                let evs = dev.evs_since(ev1);
                let after = dev.snapshot();
                check_windows(reg, front, false, &snap, &after, false, &model, &evs, txd, lead, col, "first-after-join", json!({"dl_settings": ja.dl_settings, "rx_delay": ja.rx_delay, "bias": bias, "app_dr": app_dr, "n": n}));
            }
            // the network changes the delay, then the device joins again: the new accept's delay
            // (0 and 1 both mean one second) replaces whatever the old session had
            if rng.bool() {
                if let Some((nk, ak, addr)) = dev.session_keys() {
                    let net = Net { nwk: nk, app: ak, addr };
                    let del = rng.range(2, 16) as u8;
                    let mut fc = 1u32;
                    let f = net.mac_downlink(fc, &rx_timing_setup_req(del), rng.bool());
                    fc += 1;
                    let _ = dev.transact(Action::Send { data: &[9], port: 1, confirmed: false }, &Script::rx1(f));
                    // dynamic plans, now and then: the old session also paired its default channels with other
                    // downlink frequencies (DlChannelReq). The network the device joins now knows nothing of
                    // that: the join request's RX1 and the RX1 of the new session are on the uplink frequency
                    // again (the expectation below is computed with an empty DlChannel model)
                    let mut remapped = false;
                    if !reg.fixed() && rng.bool() {
                        let (lo, hi) = reg.inner_band();
                        let mut cmds = vec![];
                        for idx in 0..reg.default_channels().len() as u8 {
                            let fdl = lo + rng.below(((hi - lo) / 100) as u64) as u32 * 100;
                            cmds.extend(dl_channel_req(idx, fdl / 100));
                        }
                        let f = net.mac_downlink(fc, &cmds, rng.bool());
                        fc += 1;
                        let t_ev = dev.ev_len();
                        let _ = dev.transact(Action::Send { data: &[9], port: 1, confirmed: false }, &Script::rx1(f));
                        let _ = t_ev;
                        let s = dev.snapshot();
                        remapped = s.region.channels.iter().flatten().any(|c| c.rx1_frequency != c.ul_frequency);
                        if remapped {
                            col.event("old_session_remapped_rx1");
                        }
                    }
                    // now and then the old session also moved RX2 and the RX1 offset (RXParamSetupReq). A join leaves
                    // that session behind: nothing was negotiated with the network the device joins now, so the
                    // join request's own windows and the RX2 frequency of the new session are the regional defaults
                    // (the accept carries an RX1 offset and an RX2 rate, but no frequency)
                    let mut moved = false;
                    if rng.bool() {
                        let (lo, hi) = reg.inner_band();
                        let f2 = lo + rng.below(((hi - lo) / 100) as u64) as u32 * 100;
                        let o2 = rng.below(reg.max_rx1_offset() as u64 + 1) as u8;
                        let c = rx_param_setup_req((o2 << 4) | reg.rx2_default().1, f2 / 100);
                        let f = net.mac_downlink(fc, &c, rng.bool());
                        let _ = dev.transact(Action::Send { data: &[9], port: 1, confirmed: false }, &Script::rx1(f));
                        let s = dev.snapshot();
                        moved = s.rx2_frequency == Some(f2) && f2 != reg.rx2_default().0;
                        if moved {
                            col.event("old_session_moved_rx2");
                        }
                    }
                    if (moved || remapped) && rng.bool() {
                        // an unanswered re-join attempt first: its windows are judged against the defaults
                        dev.set_rng_next(rng.next_u32());
                        let mut snap = dev.snapshot();
                        snap.rx2_frequency = None;
                        snap.rx2_data_rate = None;
                        snap.rx1_dr_offset = 0;
                        let ev1 = dev.ev_len();
                        let r = dev.transact(Action::Join, &Script::silent());
                        if let Resp::Panic(m, l) = &r {
                            col.violation(&format!("C10|panic|rejoin|{}|{}", reg.name(), short_loc(l)), "device panicked during a re-join", json!({"msg": m, "loc": l}));
                            return;
                        }
                        let evs = dev.evs_since(ev1);
                        let after = dev.snapshot();
                        col.event("rejoin_windows_after_moved_rx2");
                        check_windows(reg, front, true, &snap, &after, false, &model, &evs, txd, lead, col, if moved { "re-join-after-moved-rx2" } else { "re-join-after-remapped" }, json!({"old_session_moved_rx2": moved, "old_session_remapped_rx1": remapped}));
                    }
                    // one time in four the device is not joined again but activated by personalisation: a new
                    // session with a network nothing was negotiated with - the regional default windows, the
                    // default delay of one second and the plan's own RX1 pairing
                    if rng.chance(1, 4) {
                        dev.join_abp(rng.arr(), rng.arr(), rng.next_u32());
                        col.event("personalised_after_a_negotiated_session");
                        dev.set_rng_next(rng.next_u32());
                        let mut snap = dev.snapshot();
                        snap.rx2_frequency = None;
                        snap.rx2_data_rate = None;
                        snap.rx1_dr_offset = 0;
                        snap.rx1_delay = 1000;
                        let ev1 = dev.ev_len();
                        let r = dev.transact(Action::Send { data: &[7], port: 1, confirmed: false }, &Script::silent());
                        if !matches!(r, Resp::Panic(..)) {
                            let evs = dev.evs_since(ev1);
                            let mut after = dev.snapshot();
                            after.rx2_frequency = None;
                            after.rx2_data_rate = None;
                            check_windows(reg, front, false, &snap, &after, false, &model, &evs, txd, lead, col, "first-after-personalisation-moved-rx2", json!({"old_session_del": del, "old_session_moved_rx2": moved, "old_session_remapped_rx1": remapped}));
                        }
                        return;
                    }
                    let ja2 = JoinAcceptDesc { join_nonce: rng.below(1 << 24) as u32, net_id: 1, dev_addr: rng.next_u32(), dl_settings: reg.rx2_default().1, rx_delay: *rng.pick(&[0u8, 0, 1, 3, 15]), cf_list: None };
                    let w = encode_join_accept(&creds.app_key, &ja2);
                    let r2 = dev.transact(Action::Join, &Script::rx1(w));
                    if let Resp::Panic(m, l) = &r2 {
                        col.violation(&format!("C10|panic|rejoin|{}|{}", reg.name(), short_loc(l)), "device panicked during a re-join", json!({"msg": m, "loc": l}));
                        return;
                    }
                    if matches!(r2, Resp::JoinSuccess) {
                        col.event("rejoin_after_rxtiming");
                        let after2 = dev.snapshot();
                        join_delay_check(reg, front, &ja2, &after2, "re-join", col);
                        dev.set_rng_next(rng.next_u32());
                        let mut snap = dev.snapshot();
                        // no RXParamSetupReq in the new session: RX2 is on the regional default frequency
                        snap.rx2_frequency = None;
                        let ev1 = dev.ev_len();
                        let r = dev.transact(Action::Send { data: &[7], port: 1, confirmed: false }, &Script::silent());
                        if !matches!(r, Resp::Panic(..)) {
                            let evs = dev.evs_since(ev1);
                            let mut after = dev.snapshot();
                            after.rx2_frequency = None;
                            check_windows(reg, front, false, &snap, &after, false, &model, &evs, txd, lead, col, if moved { "first-after-rejoin-moved-rx2" } else if remapped { "first-after-rejoin-remapped" } else { "first-after-rejoin" }, json!({"rx_delay": ja2.rx_delay, "old_session_del": del, "old_session_moved_rx2": moved}));
                        }
                    }
                }
            }
        }
    }
}


/// The delay in force after a successful join is the one the accept carries.
fn join_delay_check(reg: Reg, front: Front, ja: &JoinAcceptDesc, after: &lorawan_device::verif::Snapshot, what: &str, col: &mut Collector) {
    let want = if ja.rx_delay < 2 { 1000 } else { ja.rx_delay as u32 * 1000 };
    col.event("join_delay_checked");
    if after.rx1_delay != want {
        col.violation(
            &format!("C10|rx-delay-not-as-commanded|{}|del={}", what, if ja.rx_delay == 15 { "15".to_string() } else if ja.rx_delay < 2 { "0-1".to_string() } else { "2-14".to_string() }),
            "the RX1 delay in force after a join differs from the JoinAccept's RxDelay",
            json!({"region": reg.name(), "front": front.name(), "accept_rx_delay": ja.rx_delay, "in_force_ms": after.rx1_delay}),
        );
    }
}
