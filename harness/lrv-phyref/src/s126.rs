//! SX126x half of C13: one operation of lora-phy's `RadioKind` for `Sx126x` against the
//! corresponding SWL2001 call(s), compared on wire-canonical transcripts.

use crate::exec::{block_on, Delayer, Iv};
use crate::fix126::{canonical, Chip126, Spi126};
use crate::params::*;
use lora_modulation::{Bandwidth, CodingRate, SpreadingFactor};
use lora_phy::mod_params::{DutyCycleParams, ModulationParams, RadioError, RadioMode, RxMode};
use lora_phy::mod_traits::RadioKind;
use lora_phy::sx126x::{Config, Stm32wl, Sx1261, Sx1262, Sx126x, Sx126xVariant};
use lrv_core::{hex, json, trap, Collector, Prng, Trapped};
use smtc_modem_cores::sx126x as c;
use std::cell::RefCell;

#[derive(Clone, Copy, PartialEq, Eq, Debug)]
pub enum Chip {
    Sx1261,
    Sx1262,
    WlHp,
    WlLp,
}

pub const CHIPS: [Chip; 4] = [Chip::Sx1261, Chip::Sx1262, Chip::WlHp, Chip::WlLp];

impl Chip {
    pub fn name(self) -> &'static str {
        match self {
            Chip::Sx1261 => "Sx1261",
            Chip::Sx1262 => "Sx1262",
            Chip::WlHp => "Stm32wlHP",
            Chip::WlLp => "Stm32wlLP",
        }
    }
    /// High-power PA (datasheet: SX1262; STM32WL RFO_HP).
    pub fn high_power(self) -> bool {
        matches!(self, Chip::Sx1262 | Chip::WlHp)
    }
}

#[derive(Clone, Copy, PartialEq, Eq, Debug)]
pub enum IrqMode {
    NoMode,
    Sleep,
    Standby,
    Fs,
    Tx,
    RxSingle,
    RxCont,
    RxDuty,
    Listen,
    Cad,
}

pub const IRQ_MODES: [IrqMode; 10] = [
    IrqMode::NoMode,
    IrqMode::Sleep,
    IrqMode::Standby,
    IrqMode::Fs,
    IrqMode::Tx,
    IrqMode::RxSingle,
    IrqMode::RxCont,
    IrqMode::RxDuty,
    IrqMode::Listen,
    IrqMode::Cad,
];

impl IrqMode {
    pub fn name(self) -> &'static str {
        match self {
            IrqMode::NoMode => "none",
            IrqMode::Sleep => "sleep",
            IrqMode::Standby => "standby",
            IrqMode::Fs => "fs",
            IrqMode::Tx => "tx",
            IrqMode::RxSingle => "rx-single",
            IrqMode::RxCont => "rx-cont",
            IrqMode::RxDuty => "rx-duty",
            IrqMode::Listen => "listen",
            IrqMode::Cad => "cad",
        }
    }
    pub fn radio_mode(self) -> Option<RadioMode> {
        match self {
            IrqMode::NoMode => None,
            IrqMode::Sleep => Some(RadioMode::Sleep),
            IrqMode::Standby => Some(RadioMode::Standby),
            IrqMode::Fs => Some(RadioMode::FrequencySynthesis),
            IrqMode::Tx => Some(RadioMode::Transmit),
            IrqMode::RxSingle => Some(RadioMode::Receive(RxMode::Single(8))),
            IrqMode::RxCont => Some(RadioMode::Receive(RxMode::Continuous)),
            IrqMode::RxDuty => Some(RadioMode::Receive(RxMode::DutyCycle(DutyCycleParams { rx_time: 640, sleep_time: 6400 }))),
            IrqMode::Listen => Some(RadioMode::Listen),
            IrqMode::Cad => Some(RadioMode::ChannelActivityDetection),
        }
    }
}

#[derive(Clone, Copy, Debug)]
pub enum RxKind {
    Single(u16),
    Continuous,
    Duty(u32, u32),
}

#[derive(Clone, Debug)]
pub enum Op {
    Sleep { warm: bool },
    Standby,
    Freq(u32),
    Mod { sf: SpreadingFactor, bw: Bandwidth, cr: CodingRate, ldro: u8 },
    Pkt { pre: u16, implicit: bool, len: u8, crc: bool, iq: bool },
    Sync(u16),
    Base(usize, usize),
    Fifo(Vec<u8>),
    Power { dbm: i32, freq: Option<u32>, prep: bool },
    Irq(IrqMode),
    ClearIrq,
    Rx(RxKind),
    Tx,
    Cad(SpreadingFactor),
    CalImg(u32),
}

impl Op {
    pub fn name(&self) -> &'static str {
        match self {
            Op::Sleep { .. } => "SetSleep",
            Op::Standby => "SetStandby",
            Op::Freq(_) => "SetRfFrequency",
            Op::Mod { .. } => "SetModulationParams",
            Op::Pkt { .. } => "SetPacketParams",
            Op::Sync(_) => "SetLoRaSyncWord",
            Op::Base(..) => "SetBufferBaseAddress",
            Op::Fifo(_) => "WriteBuffer",
            Op::Power { .. } => "SetPaConfig+SetTxParams",
            Op::Irq(_) => "SetDioIrqParams",
            Op::ClearIrq => "ClearIrqStatus",
            Op::Rx(_) => "RxStart",
            Op::Tx => "TxStart",
            Op::Cad(_) => "CadStart",
            Op::CalImg(_) => "CalibrateImage",
        }
    }

    /// Class tuple D (without the chip): operation-specific parameter class.
    pub fn class(&self, chip: Chip, boost: bool) -> String {
        match self {
            Op::Sleep { warm } => if *warm { "warm".into() } else { "cold".into() },
            Op::Standby | Op::Tx | Op::ClearIrq => "-".into(),
            Op::Freq(f) => format!("{}/{}MHz/{}", band_of(*f), f / 1_000_000, pll_round_class(*f, 25)),
            Op::Mod { sf, bw, cr, ldro } => format!("SF{}/BW{}/CR4{}/LDRO{}", sf_n(*sf), bw_name(*bw), 4 + cr_n(*cr), ldro),
            Op::Pkt { pre, implicit, len, crc, iq } => format!("pre{}/h{}c{}i{}/len{}", pre, *implicit as u8, *crc as u8, *iq as u8, len / 32),
            Op::Sync(w) => format!("sync{:x}x", w >> 12),
            Op::Base(t, r) => format!("tx{}/rx{}", t / 64, r / 64),
            Op::Fifo(p) => format!("len{}", p.len() / 16),
            Op::Power { dbm, freq, prep } => format!(
                "{}/{}/{}",
                power_class(chip, *dbm),
                match freq {
                    None => "nofreq",
                    Some(f) if *f < 400_000_000 => "lt400",
                    Some(_) => "ge400",
                },
                if *prep { "ramp40" } else { "ramp200" }
            ),
            Op::Irq(m) => m.name().into(),
            Op::Rx(RxKind::Single(n)) => format!("single/{}/boost{}", symb_class(*n), boost as u8),
            Op::Rx(RxKind::Continuous) => format!("cont/boost{}", boost as u8),
            Op::Rx(RxKind::Duty(..)) => "duty".into(),
            Op::Cad(sf) => format!("SF{}/boost{}", sf_n(*sf), boost as u8),
            Op::CalImg(f) => format!("{}/{}MHz", calimg_band(*f).map(|b| b.0).unwrap_or("outside"), f / 10_000_000 * 10),
        }
    }

    /// Minimal input class for a signature, given where the transcripts first differ, and
    /// whether the differing byte values are a function of that class alone.
    fn sig_class(&self, chip: Chip, t: usize, j: usize) -> (String, bool) {
        match self {
            Op::Sleep { warm } => ((if *warm { "warm" } else { "cold" }).into(), true),
            Op::Standby | Op::Tx | Op::ClearIrq => ("-".into(), true),
            Op::Freq(f) => (pll_round_class(*f, 25).to_string(), false),
            Op::Mod { sf, bw, cr, ldro } => {
                if t == 0 {
                    match j {
                        1 => (format!("SF{}", sf_n(*sf)), true),
                        2 => (format!("BW{}", bw_name(*bw)), true),
                        3 => (format!("CR4{}", 4 + cr_n(*cr)), true),
                        4 => (format!("LDRO{}", ldro), true),
                        _ => ("opcode".into(), true),
                    }
                } else {
                    (format!("BW{}/workaround15.1", bw_name(*bw)), false)
                }
            }
            Op::Pkt { pre, implicit, crc, iq, .. } => {
                if t == 0 {
                    match j {
                        1 | 2 => ((if *pre < 256 { "preamble<256" } else { "preamble>=256" }).into(), false),
                        3 => (format!("header={}", if *implicit { "implicit" } else { "explicit" }), true),
                        4 => ("payload-length".into(), false),
                        5 => (format!("crc={}", *crc as u8), true),
                        6 => (format!("iq={}", *iq as u8), true),
                        _ => ("opcode".into(), true),
                    }
                } else {
                    (format!("iq={}/workaround15.4", *iq as u8), false)
                }
            }
            Op::Sync(_) => ("legacy-form".into(), false),
            Op::Base(..) => ("-".into(), false),
            Op::Fifo(_) => ("-".into(), false),
            Op::Power { dbm, prep, .. } => {
                // high-power PA: t0/t1 = TxClamp read/write, then SetPaConfig, SetTxParams
                let stage = if chip.high_power() { t as isize - 2 } else { t as isize };
                if stage < 0 {
                    ("tx-clamp/workaround15.2".into(), false)
                } else if stage == 1 && j == 2 {
                    ((if *prep { "ramp40" } else { "ramp200" }).into(), true)
                } else {
                    (power_class(chip, *dbm).to_string(), false)
                }
            }
            Op::Irq(m) => (m.name().into(), true),
            Op::Rx(RxKind::Single(n)) => (format!("single/{}", symb_class(*n)), false),
            Op::Rx(RxKind::Continuous) => ("cont".into(), true),
            Op::Rx(RxKind::Duty(..)) => ("duty".into(), false),
            Op::Cad(sf) => (format!("SF{}", sf_n(*sf)), true),
            Op::CalImg(f) => (calimg_band(*f).map(|b| b.0).unwrap_or("outside").into(), true),
        }
    }

    pub fn to_json(&self) -> lrv_core::Value {
        match self {
            Op::Fifo(p) => json!({"op": "WriteBuffer", "payload": hex(p)}),
            other => json!(format!("{:?}", other)),
        }
    }
}

/// Class of a frequency with respect to PLL-step rounding: position of the exact quotient
/// f*2^shift/32e6 between two steps.
pub fn pll_round_class(f: u32, shift: u32) -> &'static str {
    let rem = ((f as u64) << shift) % 32_000_000;
    if rem == 0 {
        "exact"
    } else if rem * 2 < 32_000_000 {
        "frac<.5"
    } else {
        "frac>=.5"
    }
}

fn symb_class(n: u16) -> &'static str {
    match n {
        0 => "symb=0",
        1..=62 => "symb=1..62",
        63..=248 => "symb=63..248",
        249..=255 => "symb=249..255",
        _ => "symb>255",
    }
}

// ---- independent transcriptions (datasheet DS.SX1261-2, RM0453/STM32CubeWL) ------------------

/// Table 9-2 "Image calibration over the ISM bands": (name, lo MHz, hi MHz, Freq1, Freq2).
const CALIMG: [(&str, u32, u32, u8, u8); 5] = [
    ("430-440", 430, 440, 0x6B, 0x6F),
    ("470-510", 470, 510, 0x75, 0x81),
    ("779-787", 779, 787, 0xC1, 0xC5),
    ("863-870", 863, 870, 0xD7, 0xDB),
    ("902-928", 902, 928, 0xE1, 0xE9),
];

pub fn calimg_band(f: u32) -> Option<(&'static str, u8, u8)> {
    CALIMG.iter().find(|b| f >= b.1 * 1_000_000 && f <= b.2 * 1_000_000).map(|b| (b.0, b.3, b.4))
}

/// One candidate reference setting: (paDutyCycle, hpMax, deviceSel, SetTxParams power).
pub type PaSetting = (u8, u8, u8, i8);

/// Table 13-21 "PA operating modes with optimal settings" (anchors) plus the datasheet's
/// guidance that powers below an anchor are reached by lowering SetTxParams one dB per dB
/// under the PA configuration of the next anchor above. Requests outside the PA's range are
/// taken at the nearest value of the range (the Rust API documents clamping).
/// STM32WL: ST's characterisation (RM0453 / STM32CubeWL SUBGRF_SetTxParams): high-power PA as
/// the SX1262 except that the 14 dBm row commands the target power directly; low-power PA as the
/// SX1261 except that ST lists paDutyCycle 0x07 for +15 dBm (both 0x06 and 0x07 accepted).
pub fn pa_oracle(chip: Chip, dbm: i32) -> Vec<PaSetting> {
    if chip.high_power() {
        let p = dbm.clamp(-9, 22);
        let (duty, hp, anchor, at_anchor): (u8, u8, i32, i32) = if p > 20 {
            (0x04, 0x07, 22, 22)
        } else if p > 17 {
            (0x03, 0x05, 20, 22)
        } else if p > 14 {
            (0x02, 0x03, 17, 22)
        } else if chip == Chip::WlHp {
            (0x02, 0x02, 14, 14)
        } else {
            (0x02, 0x02, 14, 22)
        };
        vec![(duty, hp, 0, (at_anchor - (anchor - p)) as i8)]
    } else {
        let p = dbm.clamp(-17, 15);
        if p > 14 {
            let mut v = vec![(0x06, 0x00, 1, 14i8)];
            if chip == Chip::WlLp {
                v.push((0x07, 0x00, 1, 14));
            }
            v
        } else if p > 10 {
            vec![(0x04, 0x00, 1, (14 - (14 - p)) as i8)]
        } else {
            vec![(0x01, 0x00, 1, (13 - (10 - p)) as i8)]
        }
    }
}

pub fn power_class(chip: Chip, dbm: i32) -> &'static str {
    if chip.high_power() {
        match dbm {
            i32::MIN..=-10 => "p<-9(clamped)",
            -9..=14 => "row14",
            15..=17 => "row17",
            18..=20 => "row20",
            21..=22 => "row22",
            _ => "p>22(clamped)",
        }
    } else {
        match dbm {
            i32::MIN..=-18 => "p<-17(clamped)",
            -17..=10 => "row10",
            11..=14 => "row14",
            15 => "row15",
            _ => "p>15(clamped)",
        }
    }
}

/// IRQ sources enabled (and routed to DIO1) per radio mode: lora-phy's policy as documented by
/// its tests and comments, expressed with the datasheet's bit positions (table 13-29):
/// TxDone 0, RxDone 1, ..., CadDone 7, CadDetected 8, Timeout 9.
fn irq_policy(m: IrqMode) -> u16 {
    match m {
        IrqMode::Standby | IrqMode::RxSingle | IrqMode::RxCont | IrqMode::RxDuty => 0xFFFF,
        IrqMode::Tx => (1 << 0) | (1 << 9),
        IrqMode::Cad => (1 << 7) | (1 << 8),
        IrqMode::NoMode | IrqMode::Sleep | IrqMode::Fs | IrqMode::Listen => 0,
    }
}

// ---- execution of lora-phy -----------------------------------------------------------------

fn mod_params(sf: SpreadingFactor, bw: Bandwidth, cr: CodingRate, ldro: u8, f: u32) -> ModulationParams {
    ModulationParams { spreading_factor: sf, bandwidth: bw, coding_rate: cr, low_data_rate_optimize: ldro, frequency_in_hz: f }
}

async fn exec<C: Sx126xVariant>(r: &mut Sx126x<Spi126<'_>, Iv, C>, op: &Op) -> Result<(), RadioError> {
    match op {
        Op::Sleep { warm } => r.set_sleep(*warm, &mut Delayer).await,
        Op::Standby => r.set_standby().await,
        Op::Freq(f) => r.set_channel(*f).await,
        Op::Mod { sf, bw, cr, ldro } => r.set_modulation_params(&mod_params(*sf, *bw, *cr, *ldro, 868_100_000)).await,
        Op::Pkt { pre, implicit, len, crc, iq } => {
            let m = mod_params(SpreadingFactor::_7, Bandwidth::_125KHz, CodingRate::_4_5, 0, 868_100_000);
            let p = r.create_packet_params(*pre, *implicit, *len, *crc, *iq, &m)?;
            r.set_packet_params(&p).await
        }
        Op::Sync(w) => r.set_lora_sync_word(*w).await,
        Op::Base(t, x) => r.set_tx_rx_buffer_base_address(*t, *x).await,
        Op::Fifo(p) => r.set_payload(p).await,
        Op::Power { dbm, freq, prep } => {
            let m = freq.map(|f| mod_params(SpreadingFactor::_7, Bandwidth::_125KHz, CodingRate::_4_5, 0, f));
            r.set_tx_power_and_ramp_time(*dbm, m.as_ref(), *prep).await
        }
        Op::Irq(m) => r.set_irq_params(m.radio_mode()).await,
        Op::ClearIrq => r.clear_irq_status().await,
        Op::Rx(k) => {
            let mode = match k {
                RxKind::Single(n) => RxMode::Single(*n),
                RxKind::Continuous => RxMode::Continuous,
                RxKind::Duty(a, b) => RxMode::DutyCycle(DutyCycleParams { rx_time: *a, sleep_time: *b }),
            };
            r.do_rx(mode).await
        }
        Op::Tx => r.do_tx().await,
        Op::Cad(sf) => r.do_cad(&mod_params(*sf, Bandwidth::_125KHz, CodingRate::_4_5, 0, 868_100_000)).await,
        Op::CalImg(f) => r.calibrate_image(*f).await,
    }
}

fn ours(chip: Chip, boost: bool, cell: &RefCell<Chip126>, op: &Op) -> Result<Result<(), RadioError>, Trapped> {
    macro_rules! go {
        ($variant:expr) => {{
            let mut r = Sx126x::new(Spi126(cell), Iv, Config { chip: $variant, tcxo_ctrl: None, use_dcdc: false, rx_boost: boost });
            trap(|| block_on(exec(&mut r, op)))
        }};
    }
    match chip {
        Chip::Sx1261 => go!(Sx1261),
        Chip::Sx1262 => go!(Sx1262),
        Chip::WlHp => go!(Stm32wl { use_high_power_pa: true }),
        Chip::WlLp => go!(Stm32wl { use_high_power_pa: false }),
    }
}

// ---- execution of the reference ------------------------------------------------------------

fn c_sf(sf: SpreadingFactor) -> c::sx126x_lora_sf_e {
    use c::sx126x_lora_sf_e::*;
    match sf {
        SpreadingFactor::_5 => SX126X_LORA_SF5,
        SpreadingFactor::_6 => SX126X_LORA_SF6,
        SpreadingFactor::_7 => SX126X_LORA_SF7,
        SpreadingFactor::_8 => SX126X_LORA_SF8,
        SpreadingFactor::_9 => SX126X_LORA_SF9,
        SpreadingFactor::_10 => SX126X_LORA_SF10,
        SpreadingFactor::_11 => SX126X_LORA_SF11,
        SpreadingFactor::_12 => SX126X_LORA_SF12,
    }
}

fn c_bw(bw: Bandwidth) -> c::sx126x_lora_bw_e {
    use c::sx126x_lora_bw_e::*;
    match bw {
        Bandwidth::_7KHz => SX126X_LORA_BW_007,
        Bandwidth::_10KHz => SX126X_LORA_BW_010,
        Bandwidth::_15KHz => SX126X_LORA_BW_015,
        Bandwidth::_20KHz => SX126X_LORA_BW_020,
        Bandwidth::_31KHz => SX126X_LORA_BW_031,
        Bandwidth::_41KHz => SX126X_LORA_BW_041,
        Bandwidth::_62KHz => SX126X_LORA_BW_062,
        Bandwidth::_125KHz => SX126X_LORA_BW_125,
        Bandwidth::_250KHz => SX126X_LORA_BW_250,
        Bandwidth::_500KHz => SX126X_LORA_BW_500,
    }
}

fn c_cr(cr: CodingRate) -> c::sx126x_lora_cr_e {
    use c::sx126x_lora_cr_e::*;
    match cr {
        CodingRate::_4_5 => SX126X_LORA_CR_4_5,
        CodingRate::_4_6 => SX126X_LORA_CR_4_6,
        CodingRate::_4_7 => SX126X_LORA_CR_4_7,
        CodingRate::_4_8 => SX126X_LORA_CR_4_8,
    }
}

pub enum RefRes {
    Done,
    Skip(&'static str),
}

fn ok(s: c::Status) -> bool {
    matches!(s, c::Status::Ok)
}

/// Runs the reference driver for `op`. `pa` selects one candidate PA setting for `Op::Power`.
fn reference(chip: Chip, boost: bool, cell: &RefCell<Chip126>, op: &Op, pa: Option<PaSetting>) -> RefRes {
    let mut ctx = c::Context::new(Spi126(cell));
    let mut all_ok = true;
    let mut chk = |s: c::Status| {
        if !ok(s) {
            all_ok = false;
        }
    };
    match op {
        Op::Sleep { warm } => chk(ctx.set_sleep(if *warm { c::SleepCfg::WarmStart } else { c::SleepCfg::ColdStart })),
        Op::Standby => chk(ctx.set_standby(c::sx126x_standby_cfgs_e::SX126X_STANDBY_CFG_RC)),
        Op::Freq(f) => chk(ctx.set_rf_freq(*f)),
        Op::Mod { sf, bw, cr, ldro } => chk(ctx.set_lora_mod_params(&c::sx126x_mod_params_lora_t { sf: c_sf(*sf), bw: c_bw(*bw), cr: c_cr(*cr), ldro: *ldro })),
        Op::Pkt { pre, implicit, len, crc, iq } => chk(ctx.set_lora_pkt_params(&c::sx126x_pkt_params_lora_t {
            preamble_len_in_symb: *pre,
            header_type: if *implicit { c::sx126x_lora_pkt_len_modes_e::SX126X_LORA_PKT_IMPLICIT } else { c::sx126x_lora_pkt_len_modes_e::SX126X_LORA_PKT_EXPLICIT },
            pld_len_in_bytes: *len,
            crc_is_on: *crc,
            invert_iq_is_on: *iq,
        })),
        Op::Sync(w) => {
            // The reference takes the legacy one-byte form 0xYZ <-> 0xY4Z4.
            let [hi, lo] = w.to_be_bytes();
            if hi & 0x0F != 0x04 || lo & 0x0F != 0x04 {
                return RefRes::Skip("ref_inexpressible:sync_word_not_legacy_form");
            }
            chk(ctx.set_lora_sync_word((hi & 0xF0) | (lo >> 4)));
        }
        Op::Base(t, r) => {
            if *t > 255 || *r > 255 {
                return RefRes::Skip("ref_inexpressible:base_address>255");
            }
            chk(ctx.set_buffer_base_address(*t as u8, *r as u8));
        }
        Op::Fifo(p) => {
            if p.len() > 255 {
                return RefRes::Skip("ref_inexpressible:payload>255");
            }
            chk(ctx.write_buffer(0, p));
        }
        Op::Power { prep, .. } => {
            let Some((duty, hp, dev, txp)) = pa else { return RefRes::Skip("harness:no_pa_setting") };
            if chip.high_power() {
                chk(ctx.cfg_tx_clamp());
            }
            chk(ctx.set_pa_cfg(&c::sx126x_pa_cfg_params_t { pa_duty_cycle: duty, hp_max: hp, device_sel: dev, pa_lut: 0x01 }));
            chk(ctx.set_tx_params(txp, if *prep { c::sx126x_ramp_time_e::SX126X_RAMP_40_US } else { c::sx126x_ramp_time_e::SX126X_RAMP_200_US }));
        }
        Op::Irq(m) => {
            let mask = irq_policy(*m);
            chk(ctx.set_dio_irq_params(mask, mask, 0, 0));
        }
        Op::ClearIrq => chk(ctx.clear_irq_status(0xFFFF)),
        Op::Rx(k) => {
            let (symb, rtc) = match k {
                RxKind::Single(n) => ((*n).min(255) as u8, 0u32),
                RxKind::Continuous => (0u8, 0x00FF_FFFF),
                RxKind::Duty(..) => (0u8, 0u32),
            };
            chk(ctx.stop_timer_on_preamble(true));
            chk(ctx.set_lora_symb_nb_timeout(symb));
            chk(ctx.cfg_rx_boosted(boost));
            if let RxKind::Duty(a, b) = k {
                // the bindings leave out sx126x_set_rx_duty_cycle: the command itself is mirrored from
                // the data sheet (13.1.5 SetRxDutyCycle: opcode 0x94, rxPeriod and sleepPeriod as
                // 24-bit big-endian numbers of 15.625 us steps), as the reference driver encodes it
                cell.borrow_mut().log.push(vec![0x94, (a >> 16) as u8, (a >> 8) as u8, *a as u8, (b >> 16) as u8, (b >> 8) as u8, *b as u8]);
            } else {
                chk(ctx.set_rx_with_timeout_in_rtc_step(rtc));
            }
        }
        Op::Tx => chk(ctx.set_tx(0)),
        Op::Cad(sf) => {
            chk(ctx.cfg_rx_boosted(boost));
            chk(ctx.set_cad_params(&c::sx126x_cad_params_t {
                cad_symb_nb: c::sx126x_cad_symbs_e::SX126X_CAD_08_SYMB,
                cad_detect_peak: sf_n(*sf) + 13,
                cad_detect_min: 10,
                cad_exit_mode: c::sx126x_cad_exit_modes_e::SX126X_CAD_ONLY,
                cad_timeout: 0,
            }));
            chk(ctx.set_cad());
        }
        Op::CalImg(f) => match calimg_band(*f) {
            Some((_, f1, f2)) => chk(ctx.cal_img(f1, f2)),
            None => return RefRes::Skip("skip:calimg_outside_datasheet_bands"),
        },
    }
    if all_ok {
        RefRes::Done
    } else {
        RefRes::Skip("ref_rejected")
    }
}

// ---- comparison ----------------------------------------------------------------------------

enum Diff {
    Byte(usize, usize, u8, u8),
    TrimLen(usize, usize, usize),
    Total(usize, usize, usize),
    Count(usize, usize),
}

fn first_diff(a: &[(&[u8], usize)], b: &[(&[u8], usize)]) -> Option<Diff> {
    for (t, (x, y)) in a.iter().zip(b.iter()).enumerate() {
        if let Some(j) = x.0.iter().zip(y.0.iter()).position(|(p, q)| p != q) {
            return Some(Diff::Byte(t, j, x.0[j], y.0[j]));
        }
        if x.0.len() != y.0.len() {
            return Some(Diff::TrimLen(t, x.0.len(), y.0.len()));
        }
        if x.1 != y.1 {
            return Some(Diff::Total(t, x.1, y.1));
        }
    }
    if a.len() != b.len() {
        return Some(Diff::Count(a.len(), b.len()));
    }
    None
}

/// Variant name of a RadioError without its payload.
pub fn err_name(e: &RadioError) -> String {
    let s = format!("{:?}", e);
    s.split(|c: char| !c.is_ascii_alphanumeric()).next().unwrap_or("").to_string()
}

fn log_json(log: &[Vec<u8>]) -> lrv_core::Value {
    json!(log.iter().map(|t| hex(t)).collect::<Vec<_>>())
}

/// Documented refusals of the Rust API (value is not expressible / not legal there).
fn documented_refusal(chip: Chip, op: &Op, e: &RadioError) -> Option<&'static str> {
    match (op, e) {
        (Op::Base(t, r), RadioError::InvalidBaseAddress(..)) if *t > 255 || *r > 255 => Some("rust_rejects:base_address>255"),
        (Op::Power { dbm, freq: Some(f), .. }, RadioError::InvalidOutputPowerForFrequency) if !chip.high_power() && *dbm >= 15 && *f < 400_000_000 => {
            Some("rust_rejects:lp_pa_15dBm_below_400MHz")
        }
        _ => None,
    }
}

/// One comparison. `prior` carries the register contents both devices start from.
pub fn compare(col: &mut Collector, chip: Chip, boost: bool, op: &Op, prior: &Chip126) {
    let chipname = match op {
        Op::Power { .. } => chip.name(),
        _ => "any",
    };
    let opname = op.name();
    let detail_base = |extra: lrv_core::Value| json!({"chip": chip.name(), "rx_boost": boost, "op": op.to_json(), "info": extra});

    // lora-phy
    let cell_o = RefCell::new(prior.clone_state());
    let r = ours(chip, boost, &cell_o, op);
    let ours_log = std::mem::take(&mut cell_o.borrow_mut().log);
    let ours_res = match r {
        Err(t) => {
            col.eval(&format!("sx126x/{}|{}|{}", chip.name(), opname, op.class(chip, boost)));
            col.violation(
                &format!("C13|sx126x/{}|{}|panic|{}", chipname, opname, t.file()),
                "lora-phy panicked instead of issuing the reference driver's SPI transactions",
                detail_base(json!({"panic": t.msg, "loc": t.loc})),
            );
            return;
        }
        Ok(x) => x,
    };
    if let Err(e) = &ours_res {
        if let Some(why) = documented_refusal(chip, op, e) {
            col.event(&format!("skip:{}", why));
            return;
        }
    }

    // reference (set-valued for the PA table)
    let candidates: Vec<Option<PaSetting>> = match op {
        Op::Power { dbm, .. } => pa_oracle(chip, *dbm).into_iter().map(Some).collect(),
        _ => vec![None],
    };
    let mut ref_logs: Vec<Vec<Vec<u8>>> = Vec::new();
    for cand in candidates {
        let cell_r = RefCell::new(prior.clone_state());
        match reference(chip, boost, &cell_r, op, cand) {
            RefRes::Skip(why) => {
                col.event(&format!("skip:{}", why.trim_start_matches("skip:")));
                return;
            }
            RefRes::Done => {}
        }
        ref_logs.push(std::mem::take(&mut cell_r.borrow_mut().log));
    }

    col.eval(&format!("sx126x/{}|{}|{}", chip.name(), opname, op.class(chip, boost)));
    col.event("compared_sx126x");
    if let Op::Rx(RxKind::Single(n)) = op {
        if *n > 255 {
            col.event("note:symb>255_compared_at_reference_saturation(255)");
        }
    }
    if let Op::Power { dbm, .. } = op {
        if power_class(chip, *dbm).ends_with("(clamped)") {
            col.event("note:power_out_of_range_compared_at_nearest_legal_value");
        }
    }
    if col.want_sample() {
        col.sample(json!({"chip": chip.name(), "rx_boost": boost, "op": op.to_json(), "ours": log_json(&ours_log), "reference": log_json(&ref_logs[0])}));
    }

    if let Err(e) = &ours_res {
        col.violation(
            &format!("C13|sx126x/{}|{}|rejected|{}", chipname, opname, err_name(e)),
            "lora-phy refused a value that is legal for the chip and accepted by the reference driver",
            detail_base(json!({"error": format!("{:?}", e), "reference": log_json(&ref_logs[0])})),
        );
        return;
    }

    // The sync-word setter is compared on writes only: the reference read-modify-writes the
    // two registers, lora-phy writes the reset-derived low nibbles directly (documented in the
    // repository's tests); both devices are primed with the reset values.
    let writes_only = matches!(op, Op::Sync(_));
    let filt = |log: &[Vec<u8>]| -> Vec<Vec<u8>> {
        if writes_only {
            log.iter().filter(|t| t.first() != Some(&0x1D)).cloned().collect()
        } else {
            log.to_vec()
        }
    };
    let o = filt(&ours_log);
    let oc = canonical(&o);
    let mut first: Option<(Diff, usize)> = None;
    for (k, rl) in ref_logs.iter().enumerate() {
        let rf = filt(rl);
        let rc = canonical(&rf);
        match first_diff(&oc, &rc) {
            None => return,
            Some(d) => {
                if first.is_none() {
                    first = Some((d, k));
                }
            }
        }
    }
    let (d, k) = first.expect("at least one candidate");
    let (t, j, what) = match d {
        Diff::Byte(t, j, a, b) => (t, j, format!("t{}b{} ours={:02x} ref={:02x}", t, j, a, b)),
        Diff::TrimLen(t, a, b) => (t, usize::MAX, format!("t{} written-length ours={} ref={}", t, a, b)),
        Diff::Total(t, a, b) => (t, usize::MAX, format!("t{} clocked-length ours={} ref={}", t, a, b)),
        Diff::Count(a, b) => (usize::MAX, usize::MAX, format!("transactions ours={} ref={}", a, b)),
    };
    let (cls, with_bytes) = op.sig_class(chip, t, j);
    let where_ = match op {
        // multi-byte words whose first differing byte depends on the value
        Op::Freq(_) => "pll-word".to_string(),
        Op::Pkt { .. } if t == 0 && (j == 1 || j == 2) => "preamble-bytes".to_string(),
        _ if with_bytes => what.clone(),
        _ => what.split(" ours=").next().unwrap_or("").to_string(),
    };
    col.violation(
        &format!("C13|sx126x/{}|{}|{}:{}", chipname, opname, cls, where_),
        "SPI transcript of lora-phy differs from the reference driver's",
        detail_base(json!({
            "first_difference": what,
            "ours": log_json(&ours_log),
            "reference": log_json(&ref_logs[k]),
            "prior_registers": {"0x0736": prior.reg(0x0736), "0x0889": prior.reg(0x0889), "0x08D8": prior.reg(0x08D8), "0x0740": prior.reg(0x0740), "0x0741": prior.reg(0x0741)},
        })),
    );
}

/// Random prior register contents (whole 4 KiB file), optionally with the LoRa sync-word
/// registers at their reset values (needed by the writes-only sync word comparison).
pub fn random_prior(rng: &mut Prng, sync_reset: bool) -> Chip126 {
    let mut chip = Chip126::new(rng.next_u64());
    rng.fill(&mut chip.regs[..]);
    if sync_reset {
        chip.set_reg(0x0740, 0x14);
        chip.set_reg(0x0741, 0x24);
    }
    chip
}

/// Prior for operations that never read the chip: registers all zero (cheap).
pub fn blank_prior(rng: &mut Prng) -> Chip126 {
    Chip126::new(rng.next_u64())
}
