//! Case runner shared by all monitor binaries.
//!
//! Every monitor is a set of *generators*; a case is identified by (generator, index, seed)
//! and is fully deterministic, so a replay file only has to carry that triple. Cases are
//! distributed over worker threads; each worker owns a `Collector`, merged at the end. A
//! watchdog thread reports a *stall* (not a violation) when one case does not return for a
//! long time; the driver then re-runs that single case to classify it (DESIGN section 5).

use crate::prng::{fnv64, Prng};
use serde_json::{json, Map, Value};
use std::cell::RefCell;
use std::collections::{BTreeMap, HashSet};
use std::panic::{catch_unwind, AssertUnwindSafe};
use std::sync::atomic::{AtomicU64, Ordering};
use std::sync::{Arc, Mutex};
use std::time::{Duration, Instant};

#[derive(Clone, Copy, Debug, PartialEq, Eq)]
pub enum Tier {
    Quick,
    Thorough,
    /// Tiny workload for the UB interpreter / valgrind legs.
    Sanitizer,
}

impl Tier {
    pub fn name(self) -> &'static str {
        match self {
            Tier::Quick => "quick",
            Tier::Thorough => "thorough",
            Tier::Sanitizer => "sanitizer",
        }
    }
    /// Picks a workload size.
    pub fn pick(self, quick: u64, thorough: u64, sanitizer: u64) -> u64 {
        match self {
            Tier::Quick => quick,
            Tier::Thorough => thorough,
            Tier::Sanitizer => sanitizer,
        }
    }
}

pub struct Gen {
    pub name: &'static str,
    pub count: u64,
}

pub fn gen(name: &'static str, count: u64) -> Gen {
    Gen { name, count }
}

#[derive(Clone, Debug)]
pub struct Violation {
    pub sig: String,
    pub what: String,
    pub gen: String,
    pub idx: u64,
    pub detail: Value,
    pub count: u64,
}

pub struct Collector {
    pub evaluations: u64,
    pub classes: HashSet<u64>,
    pub states: HashSet<u64>,
    pub events: BTreeMap<String, u64>,
    pub samples: Vec<Value>,
    pub violations: BTreeMap<String, Violation>,
    pub notes: BTreeMap<String, Value>,
    // context of the running case
    pub cur_gen: String,
    pub cur_idx: u64,
    pub seed: u64,
    pub tier: Tier,
    samples_in_gen: BTreeMap<String, u32>,
}

impl Collector {
    pub fn new(seed: u64, tier: Tier) -> Self {
        Collector {
            evaluations: 0,
            classes: HashSet::new(),
            states: HashSet::new(),
            events: BTreeMap::new(),
            samples: vec![],
            violations: BTreeMap::new(),
            notes: BTreeMap::new(),
            cur_gen: String::new(),
            cur_idx: 0,
            seed,
            tier,
            samples_in_gen: BTreeMap::new(),
        }
    }
    /// One evaluation (an execution of the code under test judged by an oracle) of a class.
    pub fn eval(&mut self, class: &str) {
        self.evaluations += 1;
        self.classes.insert(fnv64(class.as_bytes()));
    }
    pub fn eval_n(&mut self, n: u64) {
        self.evaluations += n;
    }
    pub fn class(&mut self, class: &str) {
        self.classes.insert(fnv64(class.as_bytes()));
    }
    pub fn class_hash(&mut self, h: u64) {
        self.classes.insert(h);
    }
    pub fn state(&mut self, h: u64) {
        self.states.insert(h);
    }
    pub fn event(&mut self, name: &str) {
        *self.events.entry(name.to_string()).or_insert(0) += 1;
    }
    pub fn event_n(&mut self, name: &str, n: u64) {
        *self.events.entry(name.to_string()).or_insert(0) += n;
    }
    /// True for the first two cases of each generator (so evidence shows what cases look like).
    pub fn want_sample(&self) -> bool {
        *self.samples_in_gen.get(&self.cur_gen).unwrap_or(&0) < 2 && self.cur_idx < 64
    }
    pub fn sample(&mut self, v: Value) {
        let n = self.samples_in_gen.entry(self.cur_gen.clone()).or_insert(0);
        if *n < 2 {
            *n += 1;
            self.samples.push(json!({"gen": self.cur_gen, "idx": self.cur_idx, "case": v}));
        }
    }
    pub fn violation(&mut self, sig: &str, what: &str, detail: Value) {
        let v = Violation {
            sig: sig.to_string(),
            what: what.to_string(),
            gen: self.cur_gen.clone(),
            idx: self.cur_idx,
            detail,
            count: 1,
        };
        match self.violations.get_mut(sig) {
            Some(old) => {
                old.count += 1;
                if (v.gen.as_str(), v.idx) < (old.gen.as_str(), old.idx) {
                    let c = old.count;
                    *old = v;
                    old.count = c;
                }
            }
            None => {
                self.violations.insert(sig.to_string(), v);
            }
        }
    }
    pub fn merge(&mut self, o: Collector) {
        self.evaluations += o.evaluations;
        self.classes.extend(o.classes);
        self.states.extend(o.states);
        for (k, v) in o.events {
            *self.events.entry(k).or_insert(0) += v;
        }
        self.samples.extend(o.samples);
        for (k, v) in o.violations {
            match self.violations.get_mut(&k) {
                Some(old) => {
                    let c = old.count + v.count;
                    if (v.gen.as_str(), v.idx) < (old.gen.as_str(), old.idx) {
                        *old = v;
                    }
                    old.count = c;
                }
                None => {
                    self.violations.insert(k, v);
                }
            }
        }
        for (k, v) in o.notes {
            self.notes.entry(k).or_insert(v);
        }
    }
}

pub trait Monitor: Sync {
    fn prop(&self) -> &'static str;
    fn gens(&self, tier: Tier) -> Vec<Gen>;
    /// Run one case. `rng` is the case's private deterministic stream.
    fn run_case(&self, gen: &str, idx: u64, rng: &mut Prng, col: &mut Collector);
    /// How cases are generated and what makes them distinct (goes to the evidence).
    fn rule(&self) -> String;
    fn assumptions(&self) -> Vec<String> {
        vec![]
    }
    /// Event classes without which a run is inconclusive.
    fn required_events(&self, _tier: Tier) -> Vec<&'static str> {
        vec![]
    }
    /// Called once after all cases, on the merged collector.
    fn finish(&self, _col: &mut Collector) {}
    /// Generators whose case count may be multiplied by `--scale` > 1: their index only selects
    /// configuration classes by modulo and seeds the random parts, so indices beyond the base count
    /// are fresh cases. Enumerated generators (index = position in a finite table) stay as they are.
    fn scalable(&self, _gen: &str) -> bool {
        false
    }
    /// True if the whole finite input space is enumerated in this tier.
    fn exhaustive(&self, _tier: Tier) -> bool {
        false
    }
}

// ---- panic trap ---------------------------------------------------------------------------

thread_local! {
    static LAST_PANIC: RefCell<Option<(String, String)>> = const { RefCell::new(None) };
    static TRAP_DEPTH: RefCell<u32> = const { RefCell::new(0) };
}

pub fn install_quiet_panic_hook() {
    let prev = std::panic::take_hook();
    std::panic::set_hook(Box::new(move |info| {
        let inside = TRAP_DEPTH.with(|d| *d.borrow() > 0);
        let msg = if let Some(s) = info.payload().downcast_ref::<&str>() {
            s.to_string()
        } else if let Some(s) = info.payload().downcast_ref::<String>() {
            s.clone()
        } else {
            "<non-string panic>".to_string()
        };
        let loc = info.location().map(|l| format!("{}:{}", l.file(), l.line())).unwrap_or_default();
        if inside {
            LAST_PANIC.with(|p| *p.borrow_mut() = Some((msg, loc)));
        } else {
            prev(info);
        }
    }));
}

#[derive(Debug, Clone)]
pub struct Trapped {
    pub msg: String,
    pub loc: String,
}

impl Trapped {
    /// True if the panic originated in the harness (=> harness error, inconclusive).
    pub fn in_harness(&self) -> bool {
        // harness sources are reported relative to the workspace root ("lrv-codec/src/..");
        // anything else (also a scratch copy of the repository under any name) is code under test
        self.loc.starts_with("lrv-") || self.loc.contains("/harness/lrv-") || self.loc.starts_with("/verif/")
    }
    /// Location with the line number stripped (stable signatures).
    pub fn file(&self) -> String {
        let f = self.loc.rsplit_once(':').map(|x| x.0).unwrap_or(&self.loc);
        // strip the absolute prefix of the repository (wherever a copy of it lives)
        // (a dependency's source: crate directory onwards)
        if let Some(i) = f.find("/registry/src/") {
            if let Some(j) = f[i + 14..].find('/') {
                return f[i + 14 + j + 1..].to_string();
            }
        }
        for c in ["lorawan-encoding/", "lorawan-device/", "lorawan-macros/", "lora-modulation/", "lora-phy/"] {
            if let Some(i) = f.find(c) {
                return f[i..].to_string();
            }
        }
        f.trim_start_matches("/repo/").to_string()
    }
    pub fn kind(&self) -> String {
        // coarse classification of the message without numbers
        let m: String = self.msg.chars().map(|c| if c.is_ascii_digit() { '#' } else { c }).collect();
        let mut out = String::new();
        let mut last_hash = false;
        for c in m.chars() {
            if c == '#' {
                if !last_hash {
                    out.push('#');
                }
                last_hash = true;
            } else {
                out.push(c);
                last_hash = false;
            }
        }
        out.chars().take(80).collect()
    }
}

/// Runs `f`, trapping any unwind out of it.
pub fn trap<R>(f: impl FnOnce() -> R) -> Result<R, Trapped> {
    TRAP_DEPTH.with(|d| *d.borrow_mut() += 1);
    let r = catch_unwind(AssertUnwindSafe(f));
    TRAP_DEPTH.with(|d| *d.borrow_mut() -= 1);
    match r {
        Ok(v) => Ok(v),
        Err(_) => {
            let (msg, loc) = LAST_PANIC.with(|p| p.borrow_mut().take()).unwrap_or_default();
            Err(Trapped { msg, loc })
        }
    }
}

// ---- main ---------------------------------------------------------------------------------

pub struct Args {
    pub prop: String,
    pub tier: Tier,
    pub seed: u64,
    pub threads: usize,
    pub shard: (u64, u64),
    pub replay: Option<String>,
    pub only_gen: Option<String>,
    pub scale: f64,
    pub stall_s: u64,
    /// File in which every worker keeps the case it is running (one 96-byte slot per worker),
    /// so that the driver can name the case when the process is killed by a signal.
    pub crashfile: Option<String>,
}

fn parse_args() -> Args {
    let a: Vec<String> = std::env::args().collect();
    let mut args = Args {
        prop: String::new(),
        tier: Tier::Quick,
        seed: 1,
        threads: std::thread::available_parallelism().map(|n| n.get()).unwrap_or(1),
        shard: (0, 1),
        replay: None,
        only_gen: None,
        scale: 1.0,
        stall_s: 120,
        crashfile: None,
    };
    let mut i = 1;
    while i < a.len() {
        match a[i].as_str() {
            "--tier" => {
                i += 1;
                args.tier = match a[i].as_str() {
                    "quick" => Tier::Quick,
                    "thorough" => Tier::Thorough,
                    "sanitizer" => Tier::Sanitizer,
                    t => panic!("unknown tier {}", t),
                };
            }
            "--seed" => {
                i += 1;
                args.seed = a[i].parse().expect("seed");
            }
            "--threads" => {
                i += 1;
                args.threads = a[i].parse().expect("threads");
            }
            "--shard" => {
                i += 1;
                let (x, y) = a[i].split_once('/').expect("i/n");
                args.shard = (x.parse().unwrap(), y.parse().unwrap());
            }
            "--replay" => {
                i += 1;
                args.replay = Some(a[i].clone());
            }
            "--gen" => {
                i += 1;
                args.only_gen = Some(a[i].clone());
            }
            "--scale" => {
                i += 1;
                args.scale = a[i].parse().expect("scale");
            }
            "--stall" => {
                i += 1;
                args.stall_s = a[i].parse().expect("stall");
            }
            "--crashfile" => {
                i += 1;
                args.crashfile = Some(a[i].clone());
            }
            p if !p.starts_with("--") && args.prop.is_empty() => args.prop = p.to_string(),
            other => panic!("unknown argument {}", other),
        }
        i += 1;
    }
    args
}

fn run_one(m: &dyn Monitor, gen: &str, idx: u64, seed: u64, col: &mut Collector) {
    col.cur_gen = gen.to_string();
    col.cur_idx = idx;
    let mut rng = Prng::stream(seed, fnv64(gen.as_bytes()), idx);
    // A panic escaping a monitor (i.e. not trapped around the code under test) is a harness
    // error: inconclusive, never a violation.
    let r = trap(|| m.run_case(gen, idx, &mut rng, col));
    if let Err(t) = r {
        col.event("harness_panic");
        let n = col.notes.entry("harness_panics".into()).or_insert(json!([]));
        if let Some(a) = n.as_array_mut() {
            if a.len() < 5 {
                a.push(json!({"gen": gen, "idx": idx, "msg": t.msg, "loc": t.loc}));
            }
        }
    }
}

pub fn main(monitors: &[&dyn Monitor]) {
    let args = parse_args();
    install_quiet_panic_hook();
    if let Err(e) = crate::refcodec::self_test() {
        println!("LRV-RESULT {}", json!({"kind":"inconclusive","why": format!("oracle self-test failed: {}", e)}));
        std::process::exit(2);
    }
    let Some(m) = monitors.iter().find(|m| m.prop() == args.prop) else {
        eprintln!("unknown property {}", args.prop);
        std::process::exit(2);
    };
    let m: &dyn Monitor = *m;
    let start = Instant::now();

    // ---- replay of a single case --------------------------------------------------------
    if let Some(path) = &args.replay {
        let txt = std::fs::read_to_string(path).expect("replay file");
        let v: Value = serde_json::from_str(&txt).expect("replay json");
        let gen = v["gen"].as_str().expect("gen").to_string();
        let idx = v["idx"].as_u64().expect("idx");
        let seed = v["seed"].as_u64().unwrap_or(args.seed);
        let tier = match v["tier"].as_str() {
            Some("thorough") => Tier::Thorough,
            Some("sanitizer") => Tier::Sanitizer,
            _ => Tier::Quick,
        };
        let mut col = Collector::new(seed, tier);
        run_one(m, &gen, idx, seed, &mut col);
        emit(m, &args, tier, col, start, vec![], None);
        return;
    }

    let mut gens = m.gens(args.tier);
    if let Some(g) = &args.only_gen {
        gens.retain(|x| x.name == g);
    }
    for g in gens.iter_mut() {
        if args.scale < 1.0 || (args.scale > 1.0 && m.scalable(g.name)) {
            g.count = ((g.count as f64 * args.scale).ceil() as u64).max(1);
        }
    }
    // flatten: work items are (gen index, idx) in chunks
    let total: u64 = gens.iter().map(|g| g.count).sum();
    let next = AtomicU64::new(0);
    let nthreads = args.threads.max(1);
    let progress: Vec<Arc<(AtomicU64, AtomicU64)>> =
        (0..nthreads).map(|_| Arc::new((AtomicU64::new(u64::MAX), AtomicU64::new(0)))).collect();
    let done = AtomicU64::new(0);
    let merged = Mutex::new(Collector::new(args.seed, args.tier));
    let stalls: Mutex<Vec<Value>> = Mutex::new(vec![]);
    let chunk: u64 = (total / (nthreads as u64 * 64)).clamp(1, 4096);
    let (shard_i, shard_n) = args.shard;
    let crashfile: Option<std::fs::File> = args.crashfile.as_ref().and_then(|p| {
        let f = std::fs::OpenOptions::new().create(true).write(true).truncate(true).open(p).ok()?;
        f.set_len(96 * nthreads as u64).ok()?;
        Some(f)
    });
    let crashfile = &crashfile;

    std::thread::scope(|s| {
        for t in 0..nthreads {
            let gens = &gens;
            let next = &next;
            let merged = &merged;
            let prog = progress[t].clone();
            let done = &done;
            let seed = args.seed;
            let tier = args.tier;
            s.spawn(move || {
                let mut col = Collector::new(seed, tier);
                loop {
                    let startpos = next.fetch_add(chunk, Ordering::Relaxed);
                    if startpos >= total {
                        break;
                    }
                    let end = (startpos + chunk).min(total);
                    for pos in startpos..end {
                        if pos % shard_n != shard_i {
                            continue;
                        }
                        // locate generator
                        let mut off = pos;
                        let mut gi = 0;
                        while off >= gens[gi].count {
                            off -= gens[gi].count;
                            gi += 1;
                        }
                        prog.0.store(pos, Ordering::Relaxed);
                        prog.1.fetch_add(1, Ordering::Relaxed);
                        if let Some(f) = crashfile {
                            use std::os::unix::fs::FileExt;
                            let mut slot = [b' '; 96];
                            let txt = format!("{} {}\n", gens[gi].name, off);
                            let n = txt.len().min(95);
                            slot[..n].copy_from_slice(&txt.as_bytes()[..n]);
                            slot[95] = b'\n';
                            let _ = f.write_at(&slot, 96 * t as u64);
                        }
                        run_one(m, gens[gi].name, off, seed, &mut col);
                    }
                }
                prog.0.store(u64::MAX, Ordering::Relaxed);
                if let Some(f) = crashfile {
                    use std::os::unix::fs::FileExt;
                    let _ = f.write_at(&[b' '; 95], 96 * t as u64);
                }
                merged.lock().unwrap().merge(col);
                done.fetch_add(1, Ordering::Relaxed);
            });
        }
        // watchdog
        let gens = &gens;
        let progress = &progress;
        let done = &done;
        let stalls = &stalls;
        let stall_s = args.stall_s;
        s.spawn(move || {
            let mut last: Vec<(u64, Instant)> = progress.iter().map(|p| (p.1.load(Ordering::Relaxed), Instant::now())).collect();
            loop {
                std::thread::sleep(Duration::from_millis(200));
                if done.load(Ordering::Relaxed) as usize == progress.len() {
                    return;
                }
                for (t, p) in progress.iter().enumerate() {
                    let c = p.1.load(Ordering::Relaxed);
                    let pos = p.0.load(Ordering::Relaxed);
                    if pos == u64::MAX {
                        continue;
                    }
                    if c != last[t].0 {
                        last[t] = (c, Instant::now());
                    } else if last[t].1.elapsed() > Duration::from_secs(stall_s) {
                        let mut off = pos;
                        let mut gi = 0;
                        while off >= gens[gi].count {
                            off -= gens[gi].count;
                            gi += 1;
                        }
                        stalls.lock().unwrap().push(json!({"gen": gens[gi].name, "idx": off}));
                        // A stalled case can not be interrupted: report what we have and leave.
                        let st = stalls.lock().unwrap().clone();
                        println!("LRV-RESULT {}", json!({"kind":"stall","stalls": st}));
                        std::process::exit(3);
                    }
                }
            }
        });
    });
    let col = merged.into_inner().unwrap();
    let st = stalls.into_inner().unwrap();
    let run_gens: Vec<Value> = gens.iter().map(|g| json!({"name": g.name, "count": g.count})).collect();
    emit(m, &args, args.tier, col, start, st, Some(run_gens));
}

fn emit(m: &dyn Monitor, args: &Args, tier: Tier, mut col: Collector, start: Instant, stalls: Vec<Value>, run_gens: Option<Vec<Value>>) {
    if args.replay.is_none() {
        m.finish(&mut col);
    }
    let mut viol = vec![];
    for (_, v) in col.violations.iter() {
        viol.push(json!({
            "sig": v.sig, "what": v.what, "gen": v.gen, "idx": v.idx, "seed": col.seed,
            "tier": tier.name(), "count": v.count, "detail": v.detail,
        }));
    }
    let required = m.required_events(tier);
    let missing: Vec<&str> = if args.replay.is_some() || args.only_gen.is_some() || args.shard.1 != 1 {
        vec![]
    } else {
        required.iter().copied().filter(|e| col.events.get(*e).copied().unwrap_or(0) == 0).collect()
    };
    let mut samples = col.samples.clone();
    samples.sort_by(|a, b| {
        (a["gen"].as_str().unwrap_or(""), a["idx"].as_u64().unwrap_or(0))
            .cmp(&(b["gen"].as_str().unwrap_or(""), b["idx"].as_u64().unwrap_or(0)))
    });
    // keep at most 2 per generator
    let mut kept: Vec<Value> = vec![];
    let mut per: BTreeMap<String, u32> = BTreeMap::new();
    for s in samples {
        let g = s["gen"].as_str().unwrap_or("").to_string();
        let n = per.entry(g).or_insert(0);
        if *n < 2 {
            *n += 1;
            kept.push(s);
        }
    }
    let mut o = Map::new();
    o.insert("kind".into(), json!("result"));
    o.insert("property".into(), json!(m.prop()));
    o.insert("tier".into(), json!(tier.name()));
    o.insert("seed".into(), json!(col.seed));
    o.insert("evaluations".into(), json!(col.evaluations));
    o.insert("distinct_nontrivial".into(), json!(col.classes.len()));
    o.insert("distinct_states".into(), json!(col.states.len()));
    o.insert("events".into(), json!(col.events));
    o.insert("classes_required".into(), json!(required));
    o.insert("classes_missing".into(), json!(missing));
    o.insert("samples".into(), json!(kept));
    o.insert("violations".into(), json!(viol));
    o.insert("stalls".into(), json!(stalls));
    o.insert("notes".into(), json!(col.notes));
    o.insert("rule".into(), json!(m.rule()));
    o.insert("assumptions".into(), json!(m.assumptions()));
    o.insert("exhaustive".into(), json!(m.exhaustive(tier)));
    o.insert("wall_s".into(), json!(start.elapsed().as_secs_f64()));
    // the generator sizes of this very run (after --gen / --scale), not the tier's base sizes
    let base_gens: Vec<Value> = m.gens(tier).iter().map(|g| json!({"name": g.name, "count": g.count})).collect();
    o.insert("gens".into(), json!(run_gens.unwrap_or(base_gens)));
    o.insert("scale".into(), json!(args.scale));
    println!("LRV-RESULT {}", Value::Object(o));
}
