//! C15 — low-data-rate optimisation is decided identically everywhere.
//!
//! One case per (SF, BW) cell; inside, every implementation (airtime calculator + six chip
//! variants) is asked for its decision through the public API, and the bit the drivers actually
//! put on the bus is decoded by the chip model (own data-sheet constants).

use crate::bus::*;
use crate::exec::block_on;
use crate::viol;
use lora_modulation::BaseBandModulationParams;
use lora_phy::mod_params::RadioError;
use lora_phy::mod_traits::RadioKind;
use lrv_core::*;

pub struct C15;

const IMPLS: [&str; 7] = ["calc", "sx1261", "sx1262", "stm32wl", "sx1272", "sx1276", "lr1110"];
/// Code families: variants of one family share `create_modulation_params`.
const FAMILY: [&str; 7] = ["calc", "sx126x", "sx126x", "sx126x", "sx127x", "sx127x", "lr1110"];
const FREQS: [u32; 2] = [868_100_000, 433_175_000];
/// LR11xx also has a 2.4 GHz front end: the decision is a matter of spreading factor and bandwidth there too
const FREQS_LR11XX: [u32; 4] = [868_100_000, 433_175_000, 2_403_000_000, 2_479_000_000];

/// Reference decision, exact rational arithmetic. Returns (with true bandwidth, with the data
/// sheets' rounded nominal bandwidth). on <=> 2^SF / BW >= 16.38 ms.
pub fn reference(sfi: usize, bwi: usize) -> (bool, bool) {
    let two_sf = 1u64 << sf_num(sfi);
    // true BW = 500 kHz / d: 2^SF d / 500000 s >= 0.01638 s <=> 2^SF d >= 8190
    let on_true = two_sf * BW_DIV[bwi] >= 8190;
    // nominal: 2^SF / hz >= 0.01638 <=> 2^SF 100000 >= 1638 hz
    let on_nom = two_sf * 100_000 >= 1638 * BW_NOMINAL_HZ[bwi];
    (on_true, on_nom)
}

pub fn cell_class(sfi: usize, bwi: usize) -> &'static str {
    let sf = sf_num(sfi);
    let (t, n) = reference(sfi, bwi);
    if t != n {
        return "setvalued";
    }
    if (bwi == 7 && (sf == 11 || sf == 12)) || (bwi == 8 && sf == 12) {
        return "lorawan";
    }
    let v = (1u64 << sf) * BW_DIV[bwi];
    if v == 8192 {
        "tsym=16.384ms"
    } else if v > 8192 {
        "tsym>16.384ms"
    } else {
        "tsym<16.38ms"
    }
}

fn onoff(b: bool) -> &'static str {
    if b {
        "on"
    } else {
        "off"
    }
}

#[derive(Debug)]
enum Outcome {
    Panic(Trapped),
    Refused(String),
    /// decided, written (None = nothing decodable was written), error from the set call,
    /// state left on the chip after the rest of the prepare flow (packet parameters, channel)
    Decided(u8, Option<bool>, Option<String>, Option<bool>, Option<(u8, u8)>),
}

/// Drive one driver: decide, program, decode.
fn drive<RK: RadioKind>(rk: &mut RK, bus: &Bus, sfi: usize, bwi: usize, cri: usize, freq: u32, decode: fn(&Chip) -> Option<bool>, pkt: (u16, bool, u8, bool, bool), prior: Option<(usize, usize)>) -> Outcome {
    // an earlier life of the same driver: another rate was programmed, then the chip was reset and
    // the driver re-initialised (what LoRa::init() does); nothing of it may survive in the driver
    if let Some((psf, pbw)) = prior {
        let _ = trap(|| {
            if let Ok(mp) = rk.create_modulation_params(SFS[psf], BWS[pbw], CRS[0], freq) {
                let _ = block_on(rk.set_modulation_params(&mp));
            }
            {
                // power-on register values as far as this check looks at them: LDRO bits clear
                let mut c = bus.chip();
                if c.family == Family::Sx127x {
                    let ver = c.regs[SX127X_REG_VERSION as usize];
                    c.regs = [0u8; 128];
                    c.regs[SX127X_REG_VERSION as usize] = ver;
                }
                c.clear_decoded();
            }
            // LoRa::init(): reset, ensure_ready(Sleep), set_standby, then the cold start
            let _ = block_on(rk.reset(&mut NoDelay));
            let _ = block_on(rk.ensure_ready(lora_phy::mod_params::RadioMode::Sleep));
            let _ = block_on(rk.set_standby());
            let _ = block_on(rk.init_lora(0x3444));
            let _ = block_on(rk.set_tx_power_and_ramp_time(0, None, false));
            let _ = block_on(rk.set_irq_params(Some(lora_phy::mod_params::RadioMode::Standby)));
        });
    }
    let r = trap(|| rk.create_modulation_params(SFS[sfi], BWS[bwi], CRS[cri], freq));
    let mp = match r {
        Err(t) => return Outcome::Panic(t),
        Ok(Err(e)) => return Outcome::Refused(format!("{:?}", e)),
        Ok(Ok(mp)) => mp,
    };
    bus.chip().clear_decoded();
    let decided = mp.low_data_rate_optimize;
    let r: Result<Result<(), RadioError>, Trapped> = trap(|| block_on(rk.set_modulation_params(&mp)));
    match r {
        Err(t) => Outcome::Panic(t),
        Ok(res) => {
            let w = decode(&bus.chip());
            // the decision was taken for the requested (SF, BW): the chip must be given that very pair
            // (SX126x / LR11xx SetModulationParams: SF as a number, BW by the data sheets' code)
            let wrong_pair = {
                let c = bus.chip();
                match (c.family, c.mod_params) {
                    (Family::Sx126x | Family::Lr11xx, Some((_, p))) => {
                        let want_bw = [0x00u8, 0x08, 0x01, 0x09, 0x02, 0x0A, 0x03, 0x04, 0x05, 0x06][bwi];
                        if p[0] != sf_num(sfi) as u8 || p[1] != want_bw {
                            Some((p[0], p[1]))
                        } else {
                            None
                        }
                    }
                    _ => None,
                }
            };
            // the rest of what LoRa::prepare_for_tx / prepare_for_rx do after the modulation
            // parameters: the bit must still be there when the chip transmits or listens
            let after = if res.is_ok() {
                let r = trap(|| {
                    let pp = rk.create_packet_params(pkt.0, pkt.1, pkt.2, pkt.3, pkt.4, &mp)?;
                    block_on(rk.set_packet_params(&pp))?;
                    block_on(rk.set_channel(freq))?;
                    // ... and the operation itself is started (start_rx / tx): the chip then runs with
                    // whatever is in its registers at that moment
                    if pkt.4 {
                        let mode = if pkt.1 { lora_phy::RxMode::Continuous } else { lora_phy::RxMode::Single(pkt.0.max(1)) };
                        block_on(rk.do_rx(mode))?;
                        // every other time the receiver hops: standby, new channel, reception started
                        // again (what LoRa::rx_switch_channel does) - still the same modulation
                        if pkt.0 % 2 == 0 {
                            block_on(rk.set_standby())?;
                            block_on(rk.set_channel(freq))?;
                            block_on(rk.do_rx(mode))?;
                        }
                        Ok(())
                    } else {
                        block_on(rk.do_tx())
                    }
                });
                match r {
                    Ok(Ok(())) => decode(&bus.chip()),
                    _ => None,
                }
            } else {
                None
            };
            Outcome::Decided(decided, w, res.err().map(|e| format!("{:?}", e)), after, wrong_pair)
        }
    }
}

// SX126x SetModulationParams (LoRa): SF, BW, CR, LowDataRateOptimize (0x00 off / 0x01 on)
fn dec_sx126x(c: &Chip) -> Option<bool> {
    c.mod_params.map(|(_, p)| p[3] & 1 != 0)
}
// SX1276 RegModemConfig3 (0x26) bit 3 LowDataRateOptimize
fn dec_sx1276(c: &Chip) -> Option<bool> {
    if c.was_written(SX1276_REG_MODEM_CONFIG3) {
        Some(c.regs[SX1276_REG_MODEM_CONFIG3 as usize] & 0x08 != 0)
    } else {
        None
    }
}
// SX1272 RegModemConfig1 (0x1D) bit 0 LowDataRateOptimize
fn dec_sx1272(c: &Chip) -> Option<bool> {
    if c.was_written(SX127X_REG_MODEM_CONFIG1) {
        Some(c.regs[SX127X_REG_MODEM_CONFIG1 as usize] & 0x01 != 0)
    } else {
        None
    }
}
// LR11xx SetModulationParam (LoRa): SF, BWL, CR, LowDataRateOptimize
fn dec_lr11xx(c: &Chip) -> Option<bool> {
    c.mod_params.map(|(_, p)| p[3] & 1 != 0)
}

fn randomise_regs(bus: &Bus, rng: &mut Prng) {
    let mut c = bus.chip();
    match c.family {
        Family::Sx127x => {
            let ver = c.regs[SX127X_REG_VERSION as usize];
            let mut r = [0u8; 128];
            rng.fill(&mut r);
            c.regs = r;
            c.regs[SX127X_REG_VERSION as usize] = ver;
        }
        Family::Sx126x => {
            // registers the driver reads-modifies-writes around SetModulationParams
            let v = rng.u8();
            c.regs16[0x0889] = v;
        }
        Family::Lr11xx => {}
    }
}

impl Monitor for C15 {
    fn prop(&self) -> &'static str {
        "C15"
    }
    fn gens(&self, tier: Tier) -> Vec<Gen> {
        vec![gen("cell", tier.pick(80, 80, 80)), gen("listen", tier.pick(60 * 4, 60 * 40, 12))]
    }
    fn exhaustive(&self, _tier: Tier) -> bool {
        true
    }
    fn rule(&self) -> String {
        "cell: case i = (SF, BW) = (5 + i/10, i%10), all 80 cells; in each cell the airtime calculator and SX1261, SX1262, STM32WL, SX1272, SX1276, LR1110 are each asked (all 4 coding rates x {868.1, 433.175 MHz}) for their decision via BaseBandModulationParams::new / RadioKind::create_modulation_params, then set_modulation_params is run on a recording bus (random prior register file) and the written LDRO bit decoded. Class = (SF, BW, implementation). listen: LoRa::listen(frequency, bandwidth) on a LoRa built over each of the six chip variants, for each of the ten bandwidths, fresh or after a reception was prepared with another (SF, BW); the LDRO setting left on the chip when the RSSI reception starts is decoded and compared with the rule for the spreading factor the driver programmed.".into()
    }
    fn assumptions(&self) -> Vec<String> {
        vec![
            "true LoRa bandwidths are 500 kHz / {64,48,32,24,16,12,8,4,2,1}; the reference is on <=> 2^SF/BW >= 16.38 ms in exact rational arithmetic (no cell lies between 16.38 and 16.384 ms)".into(),
            "SF8/15.6 kHz is set-valued for the reference (16.384 ms with the true 15.625 kHz, 16.379 ms with the nominal 15.63 kHz) but all implementations must still agree with each other there".into(),
            "a pair a driver refuses (SX127x SF5, SX1272 below 125 kHz, LR1110 7.8 kHz, 250/500 kHz below 400 MHz) counts as 'chip does not support the pair' and is not judged".into(),
            "SX126x / LR11xx SetModulationParams carry the spreading factor as a number and the bandwidth by code (7.81 kHz 0x00, 10.42 0x08, 15.63 0x01, 20.83 0x09, 31.25 0x02, 41.67 0x0A, 62.5 0x03, 125 0x04, 250 0x05, 500 0x06); both must be those of the pair the decision was taken for".into(),
            "written bit: SX126x SetModulationParams (0x8B) 4th parameter bit 0; SX1276 RegModemConfig3 (0x26) bit 3; SX1272 RegModemConfig1 (0x1D) bit 0; LR11xx SetModulationParam (0x020F) 4th parameter bit 0".into(),
            "a panic inside create_modulation_params/set_modulation_params is recorded as an event (the statement does not speak about panics); a run where an implementation never decides is inconclusive".into(),
        ]
    }
    fn required_events(&self, _tier: Tier) -> Vec<&'static str> {
        vec![
            "decided:calc", "decided:sx1261", "decided:sx1262", "decided:stm32wl", "decided:sx1272", "decided:sx1276", "decided:lr1110",
            "written:sx1261", "written:sx1262", "written:stm32wl", "written:sx1272", "written:sx1276", "written:lr1110",
            "listen_judged", "listen_ref_on", "listen_ref_off", "prepared_again_after_listen",
            "cell:lorawan", "cell:tsym=16.384ms", "cell:tsym>16.384ms", "cell:tsym<16.38ms", "cell:setvalued", "ref_on", "ref_off",
        ]
    }

    fn run_case(&self, g: &str, idx: u64, rng: &mut Prng, col: &mut Collector) {
        if g == "listen" {
            listen_case(idx, rng, col);
            return;
        }
        let sfi = (idx / 10) as usize % 8;
        let bwi = (idx % 10) as usize;
        let sf = sf_num(sfi);
        let (ref_true, ref_nom) = reference(sfi, bwi);
        let setvalued = ref_true != ref_nom;
        let cc = cell_class(sfi, bwi);
        let cell = format!("SF{}/BW{}", sf, BW_NAME[bwi]);
        col.event(&format!("cell:{}", cc));
        if !setvalued {
            col.event(if ref_true { "ref_on" } else { "ref_off" });
        }

        // decisions[impl] = Some(bool) when every judged call of that implementation agreed
        let mut decisions: [Option<bool>; 7] = [None; 7];
        let mut table = serde_json::Map::new();

        for imp in 0..7usize {
            let name = IMPLS[imp];
            let fam = FAMILY[imp];
            let mut seen: Vec<bool> = vec![];
            let (ncr, nfreq) = if col.tier == Tier::Sanitizer { (1, 1) } else { (4, 2) };
            for cri in 0..ncr {
                let freqs: &[u32] = if imp == 6 && col.tier != Tier::Sanitizer { &FREQS_LR11XX } else { &FREQS[..nfreq] };
                for &freq in freqs.iter() {
                    let pkt = (rng.range(6, 20) as u16, rng.bool(), rng.range(1, 256) as u8, rng.bool(), rng.bool());
                    // half of the runs: the driver had an earlier life with another cell programmed
                    let prior = if rng.bool() { Some((rng.below(8) as usize, rng.below(10) as usize)) } else { None };
                    if prior.is_some() {
                        col.event("after_reinit_runs");
                    }
                    let out = if imp == 0 {
                        // (every other coding rate: the calculator's parameters as an application gets them back
                        // from where it stored them - the crate's serde form - which are the same parameters)
                        let stored = cri % 2 == 1;
                        if stored {
                            col.event("calculator_parameters_reloaded");
                        }
                        match trap(|| {
                            let p = BaseBandModulationParams::new(SFS[sfi], BWS[bwi], CRS[cri]);
                            if stored {
                                let t = serde_json::to_string(&p).expect("modulation parameters serialise");
                                serde_json::from_str::<BaseBandModulationParams>(&t).expect("serialised modulation parameters deserialise").ldro
                            } else {
                                p.ldro
                            }
                        }) {
                            Ok(l) => Outcome::Decided(l as u8, None, None, None, None),
                            Err(t) => Outcome::Panic(t),
                        }
                    } else {
                        match imp {
                            1 => {
                                let (mut rk, bus) = new_sx1261();
                                randomise_regs(&bus, rng);
                                drive(&mut rk, &bus, sfi, bwi, cri, freq, dec_sx126x, pkt, prior)
                            }
                            2 => {
                                let (mut rk, bus) = new_sx1262();
                                randomise_regs(&bus, rng);
                                drive(&mut rk, &bus, sfi, bwi, cri, freq, dec_sx126x, pkt, prior)
                            }
                            3 => {
                                let (mut rk, bus) = new_stm32wl(true);
                                randomise_regs(&bus, rng);
                                drive(&mut rk, &bus, sfi, bwi, cri, freq, dec_sx126x, pkt, prior)
                            }
                            4 => {
                                let (mut rk, bus) = new_sx1272_rx(rng.bool(), rng.bool());
                                randomise_regs(&bus, rng);
                                drive(&mut rk, &bus, sfi, bwi, cri, freq, dec_sx1272, pkt, prior)
                            }
                            5 => {
                                let (mut rk, bus) = new_sx1276_rx(rng.bool(), rng.bool());
                                randomise_regs(&bus, rng);
                                drive(&mut rk, &bus, sfi, bwi, cri, freq, dec_sx1276, pkt, prior)
                            }
                            _ => {
                                let (mut rk, bus) = new_lr1110(lora_phy::lr1110::PaSelection::Lp);
                                drive(&mut rk, &bus, sfi, bwi, cri, freq, dec_lr11xx, pkt, None)
                            }
                        }
                    };
                    let input = json!({"cell": cell, "impl": name, "cr": format!("4/{}", cri + 5), "freq": freq});
                    match out {
                        Outcome::Panic(t) => {
                            col.event(&format!("panic:{}", name));
                            let n = col.notes.entry("panics".into()).or_insert(json!([]));
                            if let Some(a) = n.as_array_mut() {
                                if a.len() < 5 {
                                    a.push(json!({"input": input, "panic": t.msg, "loc": t.loc}));
                                }
                            }
                        }
                        Outcome::Refused(e) => {
                            col.event(&format!("refused:{}", name));
                            col.event(&format!("refused:{}:{}", name, e));
                        }
                        Outcome::Decided(d, written, set_err, after, wrong_pair) => {
                            if let Some((sf_code, bw_code)) = wrong_pair {
                                viol(col, &format!("C15|written-modulation|{}|{}", name, cc), "the LDRO decision was taken for the requested (SF, BW), but the chip was given another spreading factor or bandwidth code", || {
                                    json!({"input": input, "sf_written": sf_code, "bw_code_written": bw_code, "decided_raw": d})
                                });
                            }
                            let decided = d != 0;
                            seen.push(decided);
                            col.eval(&format!("{}|{}", cell, name));
                            col.event(&format!("decided:{}", name));
                            if !setvalued && decided != ref_true {
                                viol(col, &format!("C15|decision|{}|impl={} ref={}|{}", fam, onoff(decided), onoff(ref_true), cc), "LDRO decision differs from the 16.38 ms rule", || {
                                    json!({"input": input, "decided_raw": d, "reference": ref_true, "tsym_ms": ((1u64 << sf) * BW_DIV[bwi]) as f64 / 500.0})
                                });
                            }
                            if let Some(a) = after {
                                col.eval_n(1);
                                col.event(&format!("after_packet_params:{}", name));
                                if a != decided {
                                    viol(col, &format!("C15|after-packet-params|{}|decided={} left={}|{}", name, onoff(decided), onoff(a), cc), "the LDRO setting no longer matches the decision after the packet parameters and channel were programmed and the reception or transmission was started (the rest of the prepare / start flow)", || {
                                        json!({"input": input, "decided_raw": d, "left_on_chip": a, "packet_params": {"preamble": pkt.0, "implicit": pkt.1, "len": pkt.2, "crc": pkt.3, "iq_inverted": pkt.4}})
                                    });
                                }
                            }
                            if imp != 0 {
                                col.eval_n(1);
                                match written {
                                    Some(w) => {
                                        col.event(&format!("written:{}", name));
                                        if w != decided {
                                            viol(col, &format!("C15|written|{}|decided={} written={}|{}", name, onoff(decided), onoff(w), cc), "LDRO bit on the bus differs from the driver's own decision", || {
                                                json!({"input": input, "decided_raw": d, "written": w, "set_result": set_err})
                                            });
                                        }
                                        if !setvalued && w != ref_true && w == decided {
                                            col.event("written_differs_from_reference");
                                        }
                                    }
                                    None => {
                                        viol(col, &format!("C15|written|{}|not-written|{}", name, cc), "set_modulation_params wrote no decodable LDRO bit", || json!({"input": input, "decided_raw": d, "set_result": set_err}));
                                    }
                                }
                            }
                        }
                    }
                }
            }
            if !seen.is_empty() {
                let first = seen[0];
                if seen.iter().all(|x| *x == first) {
                    decisions[imp] = Some(first);
                    table.insert(name.into(), json!(onoff(first)));
                } else {
                    table.insert(name.into(), json!("varies"));
                    viol(col, &format!("C15|decision|{}|varies-with-cr-or-frequency|{}", fam, cc), "LDRO decision for one (SF, BW) depends on coding rate or frequency", || json!({"cell": cell, "impl": name, "decisions": seen}));
                }
            } else {
                table.insert(name.into(), json!("unsupported"));
            }
        }

        // pairwise agreement with the calculator; reported on its own only where the
        // reference is set-valued (elsewhere it follows from the per-implementation check)
        if let Some(c) = decisions[0] {
            for imp in 1..7usize {
                if let Some(d) = decisions[imp] {
                    col.eval_n(1);
                    col.event("pairs_compared");
                    if d != c {
                        col.event("pairwise_disagreement");
                        if setvalued {
                            viol(col, &format!("C15|agree|{}!=calc|{}", FAMILY[imp], cc), "implementations disagree on a cell where the reference admits both answers", || json!({"cell": cell, "decisions": Value::Object(table.clone())}));
                        }
                    }
                }
            }
        }
        if col.want_sample() {
            col.sample(json!({"cell": cell, "class": cc, "reference_true_bw": ref_true, "reference_nominal_bw": ref_nom, "decisions": Value::Object(table)}));
        }
    }
}


/// LoRa::listen programs a modulation of its own (only the bandwidth is the caller's): the LDRO
/// setting the chip runs with must follow the same rule for whatever spreading factor was programmed.
fn listen_drive<RK: RadioKind>(rk: RK, bus: &Bus, decode: fn(&Chip) -> Option<bool>, sf_of: fn(&Chip) -> Option<u8>, bwi: usize, prior: Option<(usize, usize)>, freq: u32) -> Result<(Option<bool>, Option<u8>, Option<(Option<bool>, Option<u8>)>), String> {
    let mut lora = match trap(|| block_on(lora_phy::LoRa::new(rk, true, NoDelay))) {
        Ok(Ok(l)) => l,
        Ok(Err(e)) => return Err(format!("init: {:?}", e)),
        Err(t) => return Err(format!("init panic: {}", t.msg)),
    };
    if let Some((psf, pbw)) = prior {
        let _ = trap(|| {
            if let Ok(mp) = lora.create_modulation_params(SFS[psf], BWS[pbw], CRS[0], freq) {
                if let Ok(pp) = lora.create_rx_packet_params(8, false, 255, true, true, &mp) {
                    let _ = block_on(lora.prepare_for_rx(lora_phy::RxMode::Continuous, &mp, &pp));
                }
            }
        });
    }
    bus.chip().clear_decoded();
    match trap(|| block_on(lora.listen(freq, BWS[bwi]))) {
        Ok(Ok(())) => {
            let l = decode(&bus.chip());
            let f = sf_of(&bus.chip());
            // ... and the reception that was prepared before is prepared again with the very same
            // parameters: the chip must run with them again, not with what listen() left
            let mut again = None;
            if let Some((psf, pbw)) = prior {
                let r = trap(|| {
                    let mp = lora.create_modulation_params(SFS[psf], BWS[pbw], CRS[0], freq)?;
                    let pp = lora.create_rx_packet_params(8, false, 255, true, true, &mp)?;
                    block_on(lora.prepare_for_rx(lora_phy::RxMode::Continuous, &mp, &pp))?;
                    block_on(lora.start_rx())
                });
                if let Ok(Ok(())) = r {
                    let l2 = decode(&bus.chip());
                    let f2 = sf_of(&bus.chip());
                    again = Some((l2, f2));
                }
            }
            Ok((l, f, again))
        }
        Ok(Err(e)) => Err(format!("{:?}", e)),
        Err(t) => Err(format!("panic: {}", t.msg)),
    }
}

fn sf_sx126x(c: &Chip) -> Option<u8> {
    c.mod_params.map(|(_, p)| p[0])
}
fn sf_sx127x(c: &Chip) -> Option<u8> {
    Some(c.regs[0x1E] >> 4)
}
fn sf_lr11xx(c: &Chip) -> Option<u8> {
    c.mod_params.map(|(_, p)| p[0])
}

fn listen_case(idx: u64, rng: &mut Prng, col: &mut Collector) {
    let bwi = (idx % 10) as usize;
    let imp = 1 + ((idx / 10) % 6) as usize;
    let name = IMPLS[imp];
    let freq = FREQS[((idx / 60) % 2) as usize];
    let prior = if (idx / 120) % 2 == 1 { Some((rng.below(8) as usize, rng.below(10) as usize)) } else { None };
    let out = match imp {
        1 => {
            let (rk, bus) = new_sx1261();
            listen_drive(rk, &bus, dec_sx126x, sf_sx126x, bwi, prior, freq)
        }
        2 => {
            let (rk, bus) = new_sx1262();
            listen_drive(rk, &bus, dec_sx126x, sf_sx126x, bwi, prior, freq)
        }
        3 => {
            let (rk, bus) = new_stm32wl(true);
            listen_drive(rk, &bus, dec_sx126x, sf_sx126x, bwi, prior, freq)
        }
        4 => {
            let (rk, bus) = new_sx1272_rx(rng.bool(), rng.bool());
            listen_drive(rk, &bus, dec_sx1272, sf_sx127x, bwi, prior, freq)
        }
        5 => {
            let (rk, bus) = new_sx1276_rx(rng.bool(), rng.bool());
            listen_drive(rk, &bus, dec_sx1276, sf_sx127x, bwi, prior, freq)
        }
        _ => {
            let (rk, bus) = new_lr1110(lora_phy::lr1110::PaSelection::Lp);
            listen_drive(rk, &bus, dec_lr11xx, sf_lr11xx, bwi, prior, freq)
        }
    };
    col.eval(&format!("listen|{}|BW{}|{}", name, BW_NAME[bwi], if prior.is_some() { "after-rx" } else { "fresh" }));
    match out {
        Err(e) => {
            col.event(&format!("listen_refused:{}", name));
            let n = col.notes.entry("listen_refusals".into()).or_insert(json!({}));
            if let Some(m) = n.as_object_mut() {
                m.entry(format!("{}|BW{}", name, BW_NAME[bwi])).or_insert(json!(e));
            }
        }
        Ok((left, sf, again)) => {
            if let (Some((l2, f2)), Some((psf, pbw))) = (again, prior) {
                let (rt, rn) = reference(psf, pbw);
                if let (Some(l2), Some(f2)) = (l2, f2) {
                    col.event("prepared_again_after_listen");
                    if f2 as usize != psf + 5 || (rt == rn && l2 != rt) {
                        viol(col, &format!("C15|after-listen|{}|sf_ok={}|left={} ref={}|{}", name, f2 as usize == psf + 5, onoff(l2), onoff(rt), cell_class(psf, pbw)), "a reception prepared again after LoRa::listen does not run with its own spreading factor / LDRO setting", || {
                            json!({"impl": name, "listen_bandwidth": BW_NAME[bwi], "prepared": format!("SF{}/BW{}", psf + 5, BW_NAME[pbw]), "spreading_factor_on_chip": f2, "ldro_on_chip": l2, "reference": rt})
                        });
                    }
                }
            }
            let Some(sf) = sf.filter(|s| (5..=12).contains(s)) else {
                col.event("listen_sf_not_decodable");
                return;
            };
            let sfi = sf as usize - 5;
            let (ref_true, ref_nom) = reference(sfi, bwi);
            if ref_true != ref_nom {
                col.event("listen_setvalued_cell");
                return;
            }
            col.event("listen_judged");
            col.event(if ref_true { "listen_ref_on" } else { "listen_ref_off" });
            match left {
                Some(l) if l == ref_true => {}
                Some(l) => viol(col, &format!("C15|listen|{}|left={} ref={}|{}", name, onoff(l), onoff(ref_true), cell_class(sfi, bwi)), "LoRa::listen starts its reception with an LDRO setting that differs from the 16.38 ms rule for the modulation it programmed", || {
                    json!({"impl": name, "bandwidth": BW_NAME[bwi], "spreading_factor_programmed": sf, "left_on_chip": l, "reference": ref_true, "prior_reception": prior.map(|(a, b)| format!("SF{}/BW{}", a + 5, BW_NAME[b])), "freq": freq})
                }),
                None => col.event("listen_ldro_not_decodable"),
            }
        }
    }
}
