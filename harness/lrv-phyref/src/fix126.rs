//! Recording SPI device for the command-based SX126x, shared (by value of its initial state)
//! between lora-phy and the SWL2001 reference driver.
//!
//! The device is modelled at wire level: for every chip-select assertion it records the bytes
//! clocked out on MOSI (a read clocks NOPs = 0x00) and answers MISO *by wire position*, so the
//! two drivers may split a transaction into operations differently (`[op,NOP]`+read N versus
//! `[op]`+read status+read N) and still see the same chip. ReadRegister (0x1D) is answered from
//! a 4 KiB register file, WriteRegister (0x0D) updates it; every other MISO byte is a
//! deterministic pseudo-random function of (seed, opcode, position).
//!
//! Opcodes 0x0D/0x1D are written here from the SX1261/2 datasheet (table 11-2), not taken from
//! either driver.

use crate::exec::SpiErr;
use embedded_hal::spi::Operation;
use std::cell::RefCell;

const OP_WRITE_REGISTER: u8 = 0x0D;
const OP_READ_REGISTER: u8 = 0x1D;

pub struct Chip126 {
    pub regs: Box<[u8; 4096]>,
    pub miso_seed: u64,
    /// MOSI bytes of every transaction, in order.
    pub log: Vec<Vec<u8>>,
}

impl Chip126 {
    pub fn new(miso_seed: u64) -> Self {
        Chip126 { regs: Box::new([0u8; 4096]), miso_seed, log: Vec::new() }
    }
    pub fn clone_state(&self) -> Self {
        Chip126 { regs: self.regs.clone(), miso_seed: self.miso_seed, log: Vec::new() }
    }
    pub fn set_reg(&mut self, addr: u16, v: u8) {
        self.regs[(addr & 0x0FFF) as usize] = v;
    }
    pub fn reg(&self, addr: u16) -> u8 {
        self.regs[(addr & 0x0FFF) as usize]
    }

    fn miso(&self, mosi: &[u8], pos: usize) -> u8 {
        if !mosi.is_empty() && mosi[0] == OP_READ_REGISTER && pos >= 4 && mosi.len() >= 3 {
            let addr = ((mosi[1] as usize) << 8 | mosi[2] as usize) + (pos - 4);
            return self.regs[addr & 0x0FFF];
        }
        let op = mosi.first().copied().unwrap_or(0) as u64;
        let mut x = self.miso_seed ^ (op << 32) ^ (pos as u64).wrapping_mul(0x9E37_79B9_7F4A_7C15);
        x ^= x >> 29;
        x = x.wrapping_mul(0xBF58_476D_1CE4_E5B9);
        x ^= x >> 32;
        x as u8
    }

    fn transact(&mut self, operations: &mut [Operation<'_, u8>]) {
        let mut mosi: Vec<u8> = Vec::with_capacity(16);
        for op in operations.iter_mut() {
            match op {
                Operation::Write(buf) => mosi.extend_from_slice(buf),
                Operation::Read(buf) => {
                    for b in buf.iter_mut() {
                        let pos = mosi.len();
                        *b = self.miso(&mosi, pos);
                        mosi.push(0x00);
                    }
                }
                Operation::Transfer(rd, wr) => {
                    let n = rd.len().max(wr.len());
                    for i in 0..n {
                        let pos = mosi.len();
                        let m = self.miso(&mosi, pos);
                        if i < rd.len() {
                            rd[i] = m;
                        }
                        mosi.push(if i < wr.len() { wr[i] } else { 0x00 });
                    }
                }
                Operation::TransferInPlace(buf) => {
                    for b in buf.iter_mut() {
                        let pos = mosi.len();
                        let m = self.miso(&mosi, pos);
                        mosi.push(*b);
                        *b = m;
                    }
                }
                Operation::DelayNs(_) => {}
            }
        }
        if mosi.len() > 3 && mosi[0] == OP_WRITE_REGISTER {
            let addr = (mosi[1] as usize) << 8 | mosi[2] as usize;
            for (i, b) in mosi[3..].iter().enumerate() {
                self.regs[(addr + i) & 0x0FFF] = *b;
            }
        }
        self.log.push(mosi);
    }
}

/// Wire-canonical form of a transcript: (MOSI bytes with trailing NOPs trimmed, bytes clocked).
pub fn canonical(log: &[Vec<u8>]) -> Vec<(&[u8], usize)> {
    log.iter()
        .map(|t| {
            let trimmed = t.len() - t.iter().rev().take_while(|b| **b == 0).count();
            (&t[..trimmed], t.len())
        })
        .collect()
}

/// Handle implementing both the blocking (reference driver) and the async (lora-phy) traits.
pub struct Spi126<'a>(pub &'a RefCell<Chip126>);

impl embedded_hal::spi::ErrorType for Spi126<'_> {
    type Error = SpiErr;
}

impl embedded_hal::spi::SpiDevice for Spi126<'_> {
    fn transaction(&mut self, operations: &mut [Operation<'_, u8>]) -> Result<(), SpiErr> {
        self.0.borrow_mut().transact(operations);
        Ok(())
    }
}

impl embedded_hal_async::spi::SpiDevice<u8> for Spi126<'_> {
    async fn transaction(&mut self, operations: &mut [Operation<'_, u8>]) -> Result<(), SpiErr> {
        self.0.borrow_mut().transact(operations);
        Ok(())
    }
}
