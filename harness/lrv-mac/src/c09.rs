//! C09 — every transmission uses an enabled in-band channel, a legal data rate and power;
//! channel selection always terminates (bounded RNG draws).

use crate::c12::uplink_drs;
use crate::net::*;
use crate::regions::{self, Reg};
use crate::sim::*;
use lrv_core::refcodec::*;
use lrv_core::*;

pub struct C09;

impl Monitor for C09 {
    fn prop(&self) -> &'static str {
        "C09"
    }
    fn scalable(&self, g: &str) -> bool {
        let _ = g;
        true
    }
    fn gens(&self, tier: Tier) -> Vec<Gen> {
        vec![gen("states", tier.pick(3_000, 400_000, 3)), gen("joins", tier.pick(1_500, 150_000, 2)), gen("single-channel", 9 * 3 * 16 * tier.pick(1, 10, 0)), gen("rejoin-500k", tier.pick(270, 5_000, 0))]
    }
    fn rule(&self) -> String {
        "states: a channel-plan state is reached by a history over {LinkADRReq (DR x power x ChMaskCntl x mask patterns, blocks), NewChannelReq create/delete, DlChannelReq, CFList via OTAA, re-joins from the joined state (accept without or with CFList), set_datarate, bursts of silent uplinks for ADR back-off, join bias}; the history is re-run from scratch for 16 scripted RNG start values and in the reached state one uplink is made for every scripted RNG start value 0..127, so every possible channel choice is observed. rejoin-500k: a device on the 500 kHz uplink rate joins again and the accept's mask leaves no 500 kHz channel; joins: join attempts (incl. biases, re-joins after CFList/LinkADR) for every RNG start value. Every TxConfig handed to the radio is judged against the snapshot taken immediately before the call and the regional tables. Class = (region, plan-state hash, frame kind, chosen channel).".into()
    }
    fn assumptions(&self) -> Vec<String> {
        vec![
            "power bound = min(radio maximum, regional MaxEIRP - antenna gain, level last commanded by an acknowledged LinkADRReq of the current session; join requests: the first two only); MaxEIRP per RP002 (EU868/AS923 16, EU433 12.15, IN865/US915/AU915 30 dBm)".into(),
            "fixed-plan joins may use any of the 72 plan channels; AU915 125 kHz join rate DR0 (1.0.2/1.0.3) or DR2 (RP002) accepted, 500 kHz join channels mandate SF8/500 kHz".into(),
            "dynamic plans: only 'LoRa rate the region defines' is required of the data rate (per-channel DR ranges are not part of the statement)".into(),
            "board max power <= 30 dBm, |antenna gain| <= 10 dB; set_datarate only with LoRa uplink rates of the region".into(),
        ]
    }
    fn required_events(&self, tier: Tier) -> Vec<&'static str> {
        if tier == Tier::Sanitizer {
            vec!["tx_judged"]
        } else {
            vec!["tx_judged", "join_tx_judged", "linkadr_acked", "newchannel_created", "channel_deleted", "cflist_applied", "power_commanded", "backoff_burst", "bias_join", "tx_on_500k", "rejoined"]
        }
    }

    fn run_case(&self, g: &str, idx: u64, rng: &mut Prng, col: &mut Collector) {
        let reg = regions::ALL[(idx % 9) as usize];
        let front = FRONTS[((idx / 9) % 3) as usize];
        match (idx / 27) % 5 {
            0 => case::<20, 0>(g, reg, front, rng, col),
            1 => case::<10, 0>(g, reg, front, rng, col),
            2 => case::<14, 2>(g, reg, front, rng, col),
            3 => case::<22, -3>(g, reg, front, rng, col),
            _ => case::<30, 6>(g, reg, front, rng, col),
        }
    }
}

/// One step of a state-building history.
#[derive(Clone, Debug)]
enum Step {
    Mac(Vec<u8>, bool),     // commands, in FOpts
    SetDr(u8),
    Silent(u32),
    Send,
    /// OTAA join from the joined state; the accept carries no CFList (or the given one)
    Rejoin(Option<[u8; 16]>),
    /// an OTAA join attempt nobody answers, after which the application activates the device by
    /// personalisation (a new session; whatever mask the channel plan holds is the one in force)
    FailedJoinThenAbp,
}

fn gen_linkadr(reg: Reg, rng: &mut Prng) -> Vec<u8> {
    let n = if rng.chance(1, 4) { rng.range(2, 4) } else { 1 };
    let mut out = vec![];
    for _ in 0..n {
        let dr = if rng.chance(1, 5) { 15 } else { *rng.pick(&uplink_drs(reg)) };
        let dr = if rng.chance(1, 12) { rng.below(16) as u8 } else { dr };
        let p = if rng.chance(1, 3) { 15 } else { rng.below(16) as u8 };
        let ctl = if reg.fixed() { rng.below(8) as u8 } else { *rng.pick(&[0u8, 0, 0, 6, 1, 5, 7]) };
        let mask: u16 = match rng.below(8) {
            0 => 0,
            1 => 0xFFFF,
            2 => 1 << rng.below(16),
            3 => 0x0007,
            4 => 0x00FF,
            5 => 0xFF00,
            _ => rng.next_u32() as u16,
        };
        out.extend(link_adr_req(dr, p, mask, ctl, rng.below(4) as u8));
    }
    out
}

fn gen_history(reg: Reg, rng: &mut Prng) -> Vec<Step> {
    let n = rng.range(1, 7);
    let (lo, hi) = reg.inner_band();
    let mut v = vec![];
    if !reg.fixed() && rng.chance(1, 8) {
        // structured: an added channel becomes the only enabled one, then the network tries to
        // delete it or to re-define it with values the device has to refuse
        let idx = (reg.default_channels().len() as u8 + rng.below(4) as u8).min(15);
        let f = (lo + rng.below(((hi - lo) / 100) as u64) as u32 * 100) / 100;
        v.push(Step::Mac(new_channel_req(idx, f, 0x50), rng.bool()));
        v.push(Step::Mac(link_adr_req(15, 15, 1 << idx, 0, 1), rng.bool()));
        let req = match rng.below(4) {
            0 => new_channel_req(idx, 0, 0x50),
            1 => new_channel_req(idx, 1_000_000, 0x50),
            2 => new_channel_req(idx, f, 0x05),
            _ => new_channel_req(idx, (hi + 300_000) / 100, 0x50),
        };
        v.push(Step::Mac(req, rng.bool()));
        v.push(Step::Send);
        v.push(Step::Send);
        return v;
    }
    if !reg.fixed() && rng.chance(1, 8) {
        // structured: a channel the first accept's list defines is withdrawn by the list of a second accept
        // (entry 0); then the network's mask names that slot alone (to be refused), or it deletes / re-defines
        // what is left. Uplinks must go on, on channels that are defined and enabled
        let j = reg.default_channels().len();
        let mut f5 = [0u32; 5];
        for f in f5.iter_mut() {
            *f = (lo + rng.below(((hi - lo) / 100) as u64) as u32 * 100) / 100;
        }
        let list = |f5: &[u32; 5]| {
            let mut b = [0u8; 16];
            for i in 0..5 {
                b[3 * i..3 * i + 3].copy_from_slice(&f5[i].to_le_bytes()[..3]);
            }
            b
        };
        v.push(Step::Rejoin(Some(list(&f5))));
        v.push(Step::Send);
        let k = rng.below(5) as usize;
        let mut g5 = f5;
        g5[k] = 0;
        if rng.bool() {
            g5[(k + 1 + rng.below(4) as usize) % 5] = 0;
        }
        v.push(Step::Rejoin(Some(list(&g5))));
        v.push(Step::Mac(link_adr_req(15, 15, 1 << (j + k), 0, 1), rng.bool()));
        v.push(Step::Send);
        if rng.bool() {
            v.push(Step::Mac(new_channel_req((j + k) as u8, 0, 0x50), rng.bool()));
            v.push(Step::Mac(link_adr_req(15, 15, 1 << (j + k), 0, 1), rng.bool()));
        }
        v.push(Step::Send);
        v.push(Step::Send);
        return v;
    }
    for _ in 0..n {
        if rng.chance(1, 14) {
            v.push(Step::FailedJoinThenAbp);
            continue;
        }
        let s = match rng.below(11) {
            10 => {
                let cf = if rng.chance(1, 2) {
                    let mut b = [0u8; 16];
                    if reg.fixed() {
                        let mut m: [u8; 9] = rng.arr();
                        match rng.below(4) {
                            // no 500 kHz channel left (a carried-over 500 kHz rate has nowhere to go)
                            0 => m[8] = 0,
                            // one sub-band only
                            1 => {
                                let sb = rng.below(8) as usize;
                                m = [0; 9];
                                m[sb] = 0xFF;
                                m[8] = 1 << sb;
                            }
                            _ => {}
                        }
                        b[..9].copy_from_slice(&m);
                        b[15] = 1;
                    } else {
                        for i in 0..5 {
                            let f = if rng.chance(1, 5) { 0 } else { (lo + rng.below(((hi - lo) / 100) as u64) as u32 * 100) / 100 };
                            b[3 * i..3 * i + 3].copy_from_slice(&f.to_le_bytes()[..3]);
                        }
                    }
                    Some(b)
                } else {
                    None
                };
                Step::Rejoin(cf)
            }
            0 | 1 | 2 => Step::Mac(gen_linkadr(reg, rng), rng.bool()),
            3 | 4 => {
                // NewChannelReq: create / delete / hostile
                let idx = if rng.chance(1, 8) { rng.u8() } else { rng.below(16) as u8 };
                let f = match rng.below(5) {
                    0 => 0,
                    1 => *rng.pick(&[1_000_000u32, 0xFF_FFFF, (hi + 200_000) / 100, (lo - 200_000) / 100]),
                    _ => (lo + rng.below(((hi - lo) / 100) as u64) as u32 * 100) / 100,
                };
                let drr = if rng.chance(1, 4) { rng.u8() } else { 0x50 };
                Step::Mac(new_channel_req(idx, f, drr), rng.bool())
            }
            5 => {
                let idx = rng.below(16) as u8;
                let f = (lo + rng.below(((hi - lo) / 100) as u64) as u32 * 100) / 100;
                Step::Mac(dl_channel_req(idx, f), rng.bool())
            }
            6 => Step::SetDr(*rng.pick(&uplink_drs(reg))),
            7 => Step::Silent(*rng.pick(&[1u32, 3, 97, 130, 200])),
            _ => Step::Send,
        };
        v.push(s);
    }
    v
}

struct TxJudge {
    reg: Reg,
    cmd_eirp: Option<f32>,
}

fn plan_hash(s: &lorawan_device::verif::Snapshot) -> u64 {
    let mut b: Vec<u8> = s.region.channel_mask.to_vec();
    for c in s.region.channels.iter() {
        match c {
            Some(c) => b.extend_from_slice(&c.ul_frequency.to_le_bytes()),
            None => b.push(0),
        }
    }
    b.push(s.data_rate);
    fnv64(&b)
}

#[allow(clippy::too_many_arguments)]
fn judge_tx<const PW: u8, const G: i8>(j: &TxJudge, snap: &lorawan_device::verif::Snapshot, ev: &Ev, join: bool, front: Front, hist: &str, col: &mut Collector) {
    let Ev::Tx { pw, freq, sf, bw, .. } = ev else { return };
    let reg = j.reg;
    col.event(if join { "join_tx_judged" } else { "tx_judged" });
    let ctx = |k: &str| json!({"kind": k, "region": reg.name(), "front": front.name(), "join": join, "tx": {"pw": pw, "freq": freq, "sf": sf, "bw": bw}, "board_max": PW, "antenna_gain": G, "commanded_eirp": j.cmd_eirp, "mask": hex(&snap.region.channel_mask), "channels": format!("{:?}", snap.region.channels.iter().map(|c| c.map(|c| c.ul_frequency)).collect::<Vec<_>>()), "dr": snap.data_rate, "history": hist});
    let kind = if join { "join" } else { "data" };
    // ---- frequency / channel ------------------------------------------------------------------------
    let mut chan: i32 = -1;
    if !reg.in_band(*freq) {
        col.violation(&format!("C09|out-of-band|{}|{}", reg.name(), kind), "transmission outside the region's band", ctx("band"));
    }
    if reg.fixed() {
        match reg.fixed_channel_of(*freq) {
            None => col.violation(&format!("C09|not-a-plan-channel|{}|{}", reg.name(), kind), "transmission on a frequency that is not a channel of the fixed plan", ctx("channel")),
            Some(k) => {
                chan = k as i32;
                if k >= 64 {
                    col.event("tx_on_500k");
                }
                let enabled = snap.region.channel_mask[(k / 8) as usize] & (1 << (k % 8)) != 0;
                if !join && !enabled {
                    col.violation(&format!("C09|disabled-channel|{}|{}|{}", reg.name(), if k >= 64 { "500k" } else { "125k" }, if snap.region.join_bias.preferred_subband.is_some() { "bias" } else { "nobias" }), "data frame transmitted on a channel the mask disables", json!({"ctx": ctx("mask"), "channel": k}));
                }
                let want_bw = if k >= 64 { 500_000 } else { 125_000 };
                if *bw != want_bw {
                    col.violation(&format!("C09|bandwidth-mismatch|{}|{}|ch={}|bw={}", reg.name(), kind, if k >= 64 { "500k" } else { "125k" }, bw / 1000), "data rate bandwidth does not match the fixed-plan channel", json!({"ctx": ctx("bw"), "channel": k}));
                } else if join && !reg.fixed_join_rates(k).contains(&(*sf, *bw)) {
                    col.violation(&format!("C09|join-rate|{}|ch={}|sf{}", reg.name(), if k >= 64 { "500k" } else { "125k" }, sf), "join request does not use the data rate its channel mandates", json!({"ctx": ctx("joinrate"), "channel": k}));
                }
            }
        }
    } else if join {
        if !reg.default_channels().contains(freq) {
            col.violation(&format!("C09|join-not-on-join-channel|{}", reg.name()), "join request transmitted on a frequency that is not a join channel", ctx("joinch"));
        }
    } else {
        let mut ok = false;
        for (i, c) in snap.region.channels.iter().enumerate() {
            if let Some(c) = c {
                if c.ul_frequency == *freq && snap.region.channel_mask[i / 8] & (1 << (i % 8)) != 0 {
                    ok = true;
                    chan = i as i32;
                }
            }
        }
        if !ok {
            let defined = snap.region.channels.iter().any(|c| c.map(|c| c.ul_frequency) == Some(*freq));
            col.violation(&format!("C09|{}|{}", if defined { "disabled-channel" } else { "undefined-channel" }, reg.name()), "data frame transmitted on a channel that is not defined and enabled", ctx("channel"));
        }
    }
    // ---- data rate ---------------------------------------------------------------------------------
    if !reg.is_lora_rate(*sf, *bw) {
        col.violation(&format!("C09|undefined-rate|{}|sf{}bw{}", reg.name(), sf, bw / 1000), "transmission at a rate the region does not define", ctx("rate"));
    }
    // ---- power -------------------------------------------------------------------------------------
    let mut bound = (PW as f32).min(reg.max_eirp() - G as f32);
    let mut which = if (PW as f32) <= reg.max_eirp() - G as f32 { "radio-max" } else { "max-eirp" };
    // (a join request opens a new session: a level commanded in the session it leaves does not bind it)
    if let Some(c) = j.cmd_eirp.filter(|_| !join) {
        if c < bound {
            bound = c;
            which = "commanded";
        }
    }
    if (*pw as f32) > bound + 0.001 {
        col.violation(&format!("C09|power|{}|above-{}|{}", reg.name(), which, kind), "conducted power above the bound (radio maximum / MaxEIRP - gain / commanded level)", json!({"ctx": ctx("power"), "bound": bound}));
    }
    col.eval(&format!("{}|{:x}|{}|ch{}", reg.name(), plan_hash(snap) & 0xFFFF_FFFF, kind, chan));
    col.state(plan_hash(snap));
}

fn case<const PW: u8, const G: i8>(g: &str, reg: Reg, front: Front, rng: &mut Prng, col: &mut Collector) {
    if g == "joins" {
        join_case::<PW, G>(reg, front, rng, col);
        return;
    }
    let hist = if g == "rejoin-500k" {
        // fixed plans: the device sits on the 500 kHz uplink rate, then joins again and the accept's
        // channel mask leaves no 500 kHz channel (dynamic plans: a plain re-join with CFList)
        let mut b = [0u8; 16];
        if reg.fixed() {
            let mut m: [u8; 9] = rng.arr();
            m[8] = 0;
            m[rng.below(8) as usize] |= 0x81;
            b[..9].copy_from_slice(&m);
            b[15] = 1;
            let dr500 = if reg == Reg::US915 { 4 } else { 6 };
            let how = if rng.bool() { Step::SetDr(dr500) } else { Step::Mac(link_adr_req(dr500, 15, 0x00FF, 6, 1), rng.bool()) };
            vec![how, Step::Send, Step::Rejoin(Some(b)), Step::Send, Step::Send]
        } else {
            let (lo, hi) = reg.inner_band();
            for i in 0..5 {
                let f = (lo + rng.below(((hi - lo) / 100) as u64) as u32 * 100) / 100;
                b[3 * i..3 * i + 3].copy_from_slice(&f.to_le_bytes()[..3]);
            }
            vec![Step::SetDr(*rng.pick(&uplink_drs(reg))), Step::Send, Step::Rejoin(Some(b)), Step::Send, Step::Send]
        }
    } else if g == "single-channel" {
        // exactly one channel enabled, at every index of the plan in turn
        let ch = rng.below(16) as u8;
        let (lo, hi) = reg.inner_band();
        let f = (lo + rng.below(((hi - lo) / 100) as u64) as u32 * 100) / 100;
        let mut c = vec![];
        if reg.fixed() {
            c.extend(link_adr_req(15, 15, 0, 7, 1));
            c.extend(link_adr_req(0, 15, 0b11 << (ch % 15), rng.below(4) as u8, 1));
        } else {
            if (ch as usize) >= reg.default_channels().len() {
                c.extend(new_channel_req(ch, f, 0x50));
            }
            c.extend(link_adr_req(15, 15, 1 << ch, 0, 1));
        }
        if !reg.fixed() && (ch as usize) >= reg.default_channels().len() {
            // ... and then the network tries to delete that last channel
            vec![Step::Mac(c, false), Step::Send, Step::Mac(new_channel_req(ch, 0, 0x50), rng.bool()), Step::Send]
        } else {
            vec![Step::Mac(c, false), Step::Send]
        }
    } else {
        gen_history(reg, rng)
    };
    let hist_s = format!("{:?}", hist).chars().take(600).collect::<String>();
    let seed = rng.next_u64();
    let otaa_cflist = rng.chance(1, 4);
    let bias = if reg.fixed() && rng.chance(1, 3) { Some((rng.range(1, 8) as u8, rng.range(1, 3) as usize)) } else { None };
    let starts: Vec<u32> = if col.tier == Tier::Sanitizer { vec![0] } else { (0..16).map(|i| i * 9 + (seed as u32 & 7)).collect() };
    for (ri, start) in starts.iter().enumerate() {
        let mut r2 = Prng::new(seed);
        let opts = DevOpts { rng_seed: None, rng_start: *start, bias };
        // ---- bring a device up -----------------------------------------------------------------
        let creds = default_creds(&mut r2);
        let mut j = TxJudge { reg, cmd_eirp: None };
        let mut link: Link<PW, G>;
        if otaa_cflist {
            let mut dev: Dev<PW, G> = Dev::new(front, reg, creds.clone(), &opts);
            let (lo, hi) = reg.inner_band();
            let cf: Option<[u8; 16]> = if reg.fixed() {
                let mut b = [0u8; 16];
                let m: [u8; 9] = r2.arr();
                b[..9].copy_from_slice(&m);
                b[15] = 1;
                Some(b)
            } else {
                let mut b = [0u8; 16];
                for i in 0..5 {
                    let f = if r2.chance(1, 5) { 0 } else { (lo + r2.below(((hi - lo) / 100) as u64) as u32 * 100) / 100 };
                    b[3 * i..3 * i + 3].copy_from_slice(&f.to_le_bytes()[..3]);
                }
                Some(b)
            };
            let ja = JoinAcceptDesc { join_nonce: 5, net_id: 1, dev_addr: r2.next_u32(), dl_settings: 0, rx_delay: 1, cf_list: cf };
            let snap = dev.snapshot();
            let ev0 = dev.ev_len();
            let resp = dev.transact(Action::Join, &Script::rx1(encode_join_accept(&creds.app_key, &ja)));
            for e in dev.evs_since(ev0) {
                judge_tx::<PW, G>(&j, &snap, &e, true, front, &hist_s, col);
            }
            if !matches!(resp, Resp::JoinSuccess) {
                if let Resp::Panic(m, l) = &resp {
                    report_panic(reg, front, "join", m, l, &hist_s, col);
                }
                return;
            }
            col.event("cflist_applied");
            if bias.is_some() {
                col.event("bias_join");
            }
            let (nk, ak, addr) = dev.session_keys().unwrap();
            link = Link { dev, net: Net { nwk: nk, app: ak, addr }, fdown: 0, up_min: 0 };
        } else {
            match Link::<PW, G>::abp(front, reg, &mut r2, &opts) {
                Some(l) => link = l,
                None => return,
            }
        }
        // ---- the history --------------------------------------------------------------------------
        let mut pending_linkadr: Option<u8> = None; // power index awaiting its answer
        for st in hist.iter() {
            let mut txns: Vec<(lorawan_device::verif::Snapshot, Txn)> = vec![];
            let mut new_pending: Option<u8> = None;
            match st {
                Step::SetDr(d) => {
                    // application precondition: only select a rate for which the current mask
                    // leaves a channel (fixed plans: bandwidth class of the rate)
                    let s = link.dev.snapshot();
                    let ok = if reg.fixed() {
                        match reg.lora_dr(*d) {
                            Some((_, 500_000)) => s.region.channel_mask[8] != 0,
                            _ => s.region.channel_mask[..8].iter().map(|b| b.count_ones()).sum::<u32>() >= 2,
                        }
                    } else {
                        true
                    };
                    if ok {
                        link.dev.set_datarate(*d)
                    }
                }
                Step::Send => {
                    let s = link.dev.snapshot();
                    txns.push((s, link.txn(&[1], 1, false, &Script::silent())));
                }
                Step::Rejoin(cf) => {
                    let s = link.dev.snapshot();
                    let ev0 = link.dev.ev_len();
                    let ja = JoinAcceptDesc { join_nonce: 0x31, net_id: 1, dev_addr: 0x2601_1234, dl_settings: 0, rx_delay: 1, cf_list: *cf };
                    let w = encode_join_accept(&link.dev.creds.app_key, &ja);
                    let resp = link.dev.transact(Action::Join, &Script::rx1(w));
                    for e in link.dev.evs_since(ev0) {
                        judge_tx::<PW, G>(&j, &s, &e, true, front, &hist_s, col);
                    }
                    if let Resp::Panic(m, l) = &resp {
                        report_panic(reg, front, "rejoin", m, l, &hist_s, col);
                        return;
                    }
                    if matches!(resp, Resp::JoinSuccess) {
                        col.event("rejoined");
                        let (nk, ak, addr) = link.dev.session_keys().unwrap();
                        link.net = Net { nwk: nk, app: ak, addr };
                        link.fdown = 0;
                        link.up_min = 0;
                        // a new session: no level commanded yet (the wider bound can not alarm falsely)
                        j.cmd_eirp = None;
                        pending_linkadr = None;
                        // the first data frames of the new session
                        for _ in 0..2 {
                            let s = link.dev.snapshot();
                            txns.push((s, link.txn(&[4], 1, false, &Script::silent())));
                        }
                    }
                }
                Step::FailedJoinThenAbp => {
                    let s = link.dev.snapshot();
                    let ev0 = link.dev.ev_len();
                    let resp = link.dev.transact(Action::Join, &Script::silent());
                    for e in link.dev.evs_since(ev0) {
                        judge_tx::<PW, G>(&j, &s, &e, true, front, &hist_s, col);
                    }
                    if let Resp::Panic(m, l) = &resp {
                        report_panic(reg, front, "failed-join", m, l, &hist_s, col);
                        return;
                    }
                    let net = Net { nwk: [0x42; 16], app: [0x24; 16], addr: 0x2601_4321 };
                    link.dev.join_abp(net.nwk, net.app, net.addr);
                    link.net = net;
                    link.fdown = 0;
                    link.up_min = 0;
                    j.cmd_eirp = None;
                    pending_linkadr = None;
                    col.event("personalised_after_failed_join");
                    for _ in 0..3 {
                        let s = link.dev.snapshot();
                        txns.push((s, link.txn(&[5], 1, false, &Script::silent())));
                    }
                }
                Step::Silent(n) => {
                    if *n > 90 {
                        col.event("backoff_burst");
                    }
                    for _ in 0..*n {
                        let s = link.dev.snapshot();
                        let t = link.txn(&[2], 1, false, &Script::silent());
                        let bad = matches!(t.resp, Resp::Panic(..));
                        txns.push((s, t));
                        if bad {
                            break;
                        }
                    }
                }
                Step::Mac(cmds, fo) => {
                    let s = link.dev.snapshot();
                    let t = link.deliver_mac(cmds, *fo, false);
                    txns.push((s, t));
                    if cmds.first() == Some(&0x03) {
                        // power of the last LinkADRReq of the block; its answer arrives with
                        // the *next* uplink, so it becomes pending only after this transaction's
                        // own uplink (which answers the previous downlink) has been looked at
                        let last = &cmds[cmds.len() - 5..];
                        new_pending = Some(last[1] & 0x0f);
                    }
                }
            }
            for (s, t) in txns.iter() {
                if let Some(u) = &t.up {
                    if let Ok(c) = parse_uplink_cmds(&u.mac_bytes()) {
                        if c.iter().any(|(cid, a)| *cid == 0x07 && a.first().map(|b| b & 3 == 3).unwrap_or(false)) {
                            col.event("newchannel_created");
                        }
                    }
                }
                // answers to a pending LinkADRReq
                if let (Some(p), Some(u)) = (pending_linkadr, &t.up) {
                    if let Ok(c) = parse_uplink_cmds(&u.mac_bytes()) {
                        if let Some((_, a)) = c.iter().find(|(cid, _)| *cid == 0x03) {
                            if a.first().map(|b| b & 7 == 7).unwrap_or(false) {
                                col.event("linkadr_acked");
                                if p != 15 && p <= reg.max_txpower_index() {
                                    j.cmd_eirp = Some(reg.txpower_eirp(p));
                                    col.event("power_commanded");
                                }
                            }
                            pending_linkadr = None;
                        }
                    }
                }
                for e in t.evs.iter() {
                    judge_tx::<PW, G>(&j, s, e, false, front, &hist_s, col);
                }
                if let Resp::Panic(m, l) = &t.resp {
                    report_panic(reg, front, "history", m, l, &hist_s, col);
                    return;
                }
            }
            if new_pending.is_some() {
                pending_linkadr = new_pending;
            }
        }
        let s = link.dev.snapshot();
        if !reg.fixed() && s.region.channels.iter().filter(|c| c.is_some()).count() < reg.default_channels().len() + 0 {
            col.event("channel_deleted");
        }
        if !reg.fixed() && s.region.channels.iter().skip(reg.default_channels().len()).any(|c| c.is_none()) && hist_s.contains("Mac([7,") {
            col.event("channel_deleted");
        }
        // the pending LinkADR answer (if any) goes out with the next uplink below
        // ---- in the reached state: one uplink per scripted RNG start value -------------------------
        if ri == 0 {
            let n = col.tier.pick(128, 128, 4) as u32;
            for v in 0..n {
                link.dev.set_rng_next(v);
                // one start value in four opens with a stubborn stretch: the same value 70-300 times over,
                // then counting up (a stream that takes its time still reaches every value: the selection
                // has to wait for it, not settle for a channel the mask disables)
                if v % 4 == 3 {
                    link.dev.set_rng_hold(70 + (v * 13) % 230);
                    col.event("stubborn_rng_stretches");
                } else {
                    link.dev.set_rng_hold(0);
                }
                let s = link.dev.snapshot();
                let t = link.txn(&[3], 1, false, &Script::silent());
                if let (Some(p), Some(u)) = (pending_linkadr, &t.up) {
                    if let Ok(c) = parse_uplink_cmds(&u.mac_bytes()) {
                        if let Some((_, a)) = c.iter().find(|(cid, _)| *cid == 0x03) {
                            if a.first().map(|b| b & 7 == 7).unwrap_or(false) && p != 15 && p <= reg.max_txpower_index() {
                                j.cmd_eirp = Some(reg.txpower_eirp(p));
                                col.event("power_commanded");
                            }
                            pending_linkadr = None;
                        }
                    }
                }
                for e in t.evs.iter() {
                    judge_tx::<PW, G>(&j, &s, e, false, front, &hist_s, col);
                }
                if let Resp::Panic(m, l) = &t.resp {
                    report_panic(reg, front, "state-sweep", m, l, &hist_s, col);
                    return;
                }
            }
            if col.want_sample() {
                col.sample(json!({"region": reg.name(), "front": front.name(), "board_max": PW, "gain": G, "history": hist_s, "otaa_cflist": otaa_cflist, "bias": bias, "mask": hex(&s.region.channel_mask)}));
            }
        }
    }
}

fn report_panic(reg: Reg, front: Front, phase: &str, m: &str, l: &str, hist: &str, col: &mut Collector) {
    if m == "rng-budget" || m == "poll-budget" {
        let cause = if reg.fixed() {
            if hist.contains("Silent(9") || hist.contains("Silent(1") || hist.contains("Silent(2") || phase == "state-sweep" { "adr-backoff-or-mask" } else { "mask" }
        } else if hist.contains("Mac([7,") {
            "after-newchannel"
        } else {
            "other"
        };
        col.violation(&format!("C09|selection-does-not-terminate|{}|{}", if reg.fixed() { "fixed" } else { "dynamic" }, cause), "channel selection did not terminate within 4096 RNG draws", json!({"region": reg.name(), "front": front.name(), "history": hist, "msg": m}));
    } else {
        col.violation(&format!("C09|panic|{}|{}", reg.name(), short_loc(l)), "device panicked while selecting a channel / building a TxConfig", json!({"region": reg.name(), "front": front.name(), "history": hist, "msg": m, "loc": l}));
    }
}

fn join_case<const PW: u8, const G: i8>(reg: Reg, front: Front, rng: &mut Prng, col: &mut Collector) {
    let creds = default_creds(rng);
    let bias = if reg.fixed() && rng.chance(2, 3) { Some((rng.range(1, 9) as u8, *rng.pick(&[1usize, 1, 2, 3, 8, 9, 12, 16]))) } else { None };
    let j = TxJudge { reg, cmd_eirp: None };
    let hist_s = format!("joins bias={:?}", bias);
    let nstart = col.tier.pick(24, 128, 2) as u32;
    for v in 0..nstart {
        // (every other device draws from a seeded generator: the scripted counter, two draws per
        // attempt, only ever reaches half of the residues the channel picks are reduced to)
        let opts = DevOpts { rng_seed: if v % 2 == 1 { Some(rng.next_u64()) } else { None }, rng_start: v.wrapping_mul(0x0101_0101).wrapping_add(v), bias };
        let mut dev: Dev<PW, G> = Dev::new(front, reg, creds.clone(), &opts);
        if bias.is_some() {
            col.event("bias_join");
        }
        // (long runs of unanswered attempts: past the biased retries and once round all sub-bands)
        let attempts = if rng.chance(1, 3) { rng.range(18, 40) } else { rng.range(1, 12) };
        for a in 0..attempts {
            let snap = dev.snapshot();
            let ev0 = dev.ev_len();
            let accept = a + 1 == attempts && rng.bool();
            let mut script = Script::silent();
            if accept {
                let ja = JoinAcceptDesc { join_nonce: 9, net_id: 2, dev_addr: 77, dl_settings: 0, rx_delay: 1, cf_list: None };
                script.rx1.push(encode_join_accept(&creds.app_key, &ja));
            }
            let resp = dev.transact(Action::Join, &script);
            for e in dev.evs_since(ev0) {
                judge_tx::<PW, G>(&j, &snap, &e, true, front, &hist_s, col);
            }
            if let Resp::Panic(m, l) = &resp {
                report_panic(reg, front, "join", m, l, &hist_s, col);
                return;
            }
            if matches!(resp, Resp::JoinSuccess) {
                // data frames right after the join (bias logic for the first data channel)
                for _ in 0..3 {
                    let s = dev.snapshot();
                    let ev1 = dev.ev_len();
                    let r = dev.transact(Action::Send { data: &[1], port: 1, confirmed: false }, &Script::silent());
                    for e in dev.evs_since(ev1) {
                        judge_tx::<PW, G>(&j, &s, &e, false, front, &hist_s, col);
                    }
                    if let Resp::Panic(m, l) = &r {
                        report_panic(reg, front, "after-join", m, l, &hist_s, col);
                        return;
                    }
                }
            }
        }
    }
}
