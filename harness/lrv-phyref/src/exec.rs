//! Minimal plumbing to drive lora-phy's async `RadioKind` methods from synchronous code:
//! a poll-loop `block_on`, a no-op `InterfaceVariant`, a no-op delay and an infallible SPI
//! error type. None of this carries semantics.

use embedded_hal_async::delay::DelayNs;
use lora_phy::mod_params::RadioError;
use lora_phy::mod_traits::InterfaceVariant;
use std::future::Future;
use std::pin::pin;
use std::task::{Context, Poll, Waker};

/// Polls `f` to completion. Every future of the drivers is ready immediately on our fixtures;
/// the budget only guards against a harness bug.
pub fn block_on<F: Future>(f: F) -> F::Output {
    let mut f = pin!(f);
    let mut cx = Context::from_waker(Waker::noop());
    for _ in 0..100_000 {
        if let Poll::Ready(v) = f.as_mut().poll(&mut cx) {
            return v;
        }
    }
    panic!("lrv-phyref: future did not complete within the poll budget");
}

#[derive(Debug)]
pub enum SpiErr {}
impl embedded_hal::spi::Error for SpiErr {
    fn kind(&self) -> embedded_hal::spi::ErrorKind {
        match *self {}
    }
}

pub struct Delayer;
impl DelayNs for Delayer {
    async fn delay_ns(&mut self, _ns: u32) {}
}

/// Control lines that are always ready / never fail.
pub struct Iv;
impl InterfaceVariant for Iv {
    async fn reset(&mut self, _delay: &mut impl DelayNs) -> Result<(), RadioError> {
        Ok(())
    }
    async fn wait_on_busy(&mut self) -> Result<(), RadioError> {
        Ok(())
    }
    async fn await_irq(&mut self) -> Result<(), RadioError> {
        Ok(())
    }
    async fn enable_rf_switch_rx(&mut self) -> Result<(), RadioError> {
        Ok(())
    }
    async fn enable_rf_switch_tx(&mut self) -> Result<(), RadioError> {
        Ok(())
    }
    async fn disable_rf_switch(&mut self) -> Result<(), RadioError> {
        Ok(())
    }
}
