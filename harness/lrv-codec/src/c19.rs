//! C19 — placeholder while C03 is brought up.
use lrv_core::*;
pub struct C19;
impl Monitor for C19 {
    fn prop(&self) -> &'static str { "C19" }
    fn gens(&self, _t: Tier) -> Vec<Gen> { vec![] }
    fn run_case(&self, _g: &str, _i: u64, _r: &mut Prng, _c: &mut Collector) {}
    fn rule(&self) -> String { String::new() }
}
