//! The boundary the driver sees: `SpiDevice` + `InterfaceVariant` + `DelayNs` on top of a
//! behavioural chip model, with fault injection at transaction #k and a full transcript.
//! Everything is single-threaded per case; the model is shared through `Rc<RefCell<..>>`.

use crate::exec::yield_once;
use embedded_hal::spi::{ErrorKind, Operation};
use embedded_hal_async::delay::DelayNs;
use embedded_hal_async::spi::SpiDevice;
use lora_phy::mod_params::RadioError;
use lora_phy::mod_traits::InterfaceVariant;
use std::cell::RefCell;
use std::rc::Rc;

// ---- vocabulary shared by both chip models ------------------------------------------------

#[derive(Clone, Copy, Debug, PartialEq, Eq, Hash)]
pub enum Mode {
    Sleep,
    Stdby,
    StdbyXosc,
    Fs,
    Tx,
    Rx,
    Cad,
}

impl Mode {
    pub fn is_standby(self) -> bool {
        matches!(self, Mode::Stdby | Mode::StdbyXosc)
    }
    pub fn name(self) -> &'static str {
        match self {
            Mode::Sleep => "SLEEP",
            Mode::Stdby => "STDBY",
            Mode::StdbyXosc => "STDBY_XOSC",
            Mode::Fs => "FS",
            Mode::Tx => "TX",
            Mode::Rx => "RX",
            Mode::Cad => "CAD",
        }
    }
}

/// Configuration items with a "programmed since the last loss of configuration" bit.
pub mod item {
    pub const PKT_TYPE: u16 = 1 << 0;
    pub const SYNC: u16 = 1 << 1;
    pub const REGULATOR: u16 = 1 << 2;
    pub const TCXO: u16 = 1 << 3;
    pub const BUF_BASE: u16 = 1 << 4;
    pub const MODULATION: u16 = 1 << 5;
    pub const PKT_PARAMS: u16 = 1 << 6;
    pub const IRQ: u16 = 1 << 7;
    pub const FREQ: u16 = 1 << 8;
    /// tracked for the evidence only, never asserted (not listed by the property statement)
    pub const PA: u16 = 1 << 9;
    pub const ALL: u16 = 0x3FF;
    pub const NAMES: [&str; 10] = ["packet-type", "sync-word", "regulator", "tcxo", "buffer-base", "modulation", "packet-params", "irq-params", "frequency", "pa"];
    pub fn names(bits: u16) -> String {
        let mut v = vec![];
        for (i, n) in NAMES.iter().enumerate() {
            if bits & (1 << i) != 0 {
                v.push(*n);
            }
        }
        v.join("+")
    }
}

#[derive(Clone, Copy, Debug, PartialEq, Eq, Hash)]
pub enum OpKind {
    Tx,
    Rx,
    Cad,
}

/// One TX/RX/CAD start as seen by the chip.
#[derive(Clone, Debug)]
pub struct OpStart {
    pub kind: OpKind,
    pub from: Mode,
    /// items *not* programmed since the last reset / cold sleep
    pub missing: u16,
    /// index into the transcript of the starting transaction
    pub txn: usize,
    /// LoRa sync word registers at that moment (SX126x: MSB<<8 | LSB; SX127x: RegSyncWord)
    pub sync: u16,
}

/// Things the chip model itself flags (clause "never commanded while asleep").
#[derive(Clone, Debug, PartialEq, Eq)]
pub enum Alarm {
    /// a transaction other than the wake-up access reached a sleeping chip (first byte given)
    CommandWhileAsleep(u8),
    /// TX/RX/CAD requested while the chip was asleep
    OpStartFromSleep(OpKind),
    /// SX127x: FIFO access while in sleep mode (the FIFO is not accessible there)
    FifoInSleep,
}

/// What the chip does after an operation has been started. `after` counts ticks; one tick is
/// one SPI transaction or one poll of a BUSY/IRQ wait.
#[derive(Clone, Copy, Debug, PartialEq, Eq)]
pub struct Ev {
    pub kind: EvKind,
    pub after: u32,
}

#[derive(Clone, Copy, Debug, PartialEq, Eq, Hash)]
pub enum EvKind {
    /// TxDone / RxDone / CadDone
    Done,
    /// CadDone with CadDetected
    DoneDetected,
    /// RxTxTimeout (SX126x), RxTimeout (SX127x)
    Timeout,
    /// RxDone together with a payload CRC error
    CrcError,
    /// header error: SX126x raises HeaderErr and keeps receiving; SX127x drops the packet silently
    HeaderError,
    /// preamble / valid header flags only
    Preamble,
    /// the IRQ line pulses although no enabled flag is set
    Spurious,
}

pub fn ev(kind: EvKind, after: u32) -> Ev {
    Ev { kind, after }
}

#[derive(Clone, Debug)]
pub struct Txn {
    pub mosi: Vec<u8>,
    pub miso: Vec<u8>,
    pub before: Mode,
    pub after: Mode,
    pub note: &'static str,
}

pub fn hexs(b: &[u8]) -> String {
    let mut s = String::with_capacity(b.len() * 2);
    for x in b {
        s.push_str(&format!("{:02x}", x));
    }
    s
}

pub fn transcript_json(t: &[Txn], from: usize) -> lrv_core::Value {
    let v: Vec<String> = t
        .iter()
        .enumerate()
        .skip(from)
        .map(|(i, x)| format!("#{} {}->{} w={} r={}{}{}", i, x.before.name(), x.after.name(), hexs(&x.mosi[..x.mosi.len().min(24)]), hexs(&x.miso[..x.miso.len().min(24)]), if x.note.is_empty() { "" } else { " " }, x.note))
        .collect();
    lrv_core::json!(v)
}

/// What a chip model must offer to the bus.
pub trait ChipModel {
    /// One NSS-framed full-duplex transaction; returns MISO (same length as MOSI).
    fn spi(&mut self, mosi: &[u8]) -> Vec<u8>;
    /// One unit of model time.
    fn tick(&mut self);
    /// Level of the BUSY line (always low on chips without one).
    fn busy(&self) -> bool;
    /// Level of the interrupt line(s) the board watches; consumes a spurious pulse.
    fn irq_line(&mut self) -> bool;
    /// NRESET pulse.
    fn hard_reset(&mut self);
    fn mode(&self) -> Mode;
    fn transcript(&self) -> &Vec<Txn>;
    /// Records a transaction that was attempted but never reached the chip.
    fn log_lost(&mut self, mosi: &[u8], note: &'static str);
}

// ---- fault plan ---------------------------------------------------------------------------

#[derive(Clone, Copy, Debug, PartialEq, Eq, Hash)]
pub enum FaultKind {
    /// the k-th SPI transaction fails; the chip never sees it
    Spi,
    /// the k-th wait on the BUSY line fails
    Busy,
    /// the k-th wait on the IRQ line fails
    Irq,
}

#[derive(Clone, Copy, Debug, PartialEq, Eq)]
pub struct Fault {
    pub kind: FaultKind,
    /// 1-based index among the events of that kind since `arm()`
    pub at: u32,
}

pub struct Shared<C: ChipModel> {
    pub chip: C,
    pub fault: Option<Fault>,
    /// the faulted SPI transaction reaches the chip all the same and only the host sees an error (a
    /// transfer that failed on its way back): what the chip did for it - a FIFO pointer that moved on,
    /// say - is done
    pub fault_executes: bool,
    /// the SPI transaction right after the planned fault is lost as well (the recovery's first
    /// bus access fails too)
    pub also_next_spi: bool,
    pub second_hit: Option<usize>,
    pub n_spi: u32,
    pub n_busy: u32,
    pub n_irq: u32,
    /// set when the planned fault has been delivered: (transcript length at that time)
    pub fault_hit: Option<usize>,
    /// first MOSI byte of the last SPI transaction (delivered or lost) — for fault classification
    pub last_cmd: u8,
    /// first bytes of the last SPI transaction, and of the one the fault hit (SPI: the lost
    /// transaction; BUSY: the command that had just been delivered)
    pub last_mosi: Vec<u8>,
    pub fault_mosi: Vec<u8>,
    pub resets: u32,
    pub delays_ns: u64,
}

pub type Bus<C> = Rc<RefCell<Shared<C>>>;

pub fn new_bus<C: ChipModel>(chip: C) -> Bus<C> {
    Rc::new(RefCell::new(Shared { chip, fault: None, fault_executes: false, also_next_spi: false, second_hit: None, n_spi: 0, n_busy: 0, n_irq: 0, fault_hit: None, last_cmd: 0, last_mosi: vec![], fault_mosi: vec![], resets: 0, delays_ns: 0 }))
}

impl<C: ChipModel> Shared<C> {
    /// Starts counting bus events from zero and installs a fault plan.
    pub fn arm(&mut self, fault: Option<Fault>) {
        self.fault = fault;
        self.n_spi = 0;
        self.n_busy = 0;
        self.n_irq = 0;
        self.fault_hit = None;
        self.second_hit = None;
    }
    fn due(&mut self, kind: FaultKind, n: u32) -> bool {
        if self.also_next_spi && kind == FaultKind::Spi && self.fault_hit.is_some() && self.second_hit.is_none() {
            self.second_hit = Some(self.chip.transcript().len());
            return true;
        }
        match self.fault {
            Some(f) if f.kind == kind && f.at == n && self.fault_hit.is_none() => {
                self.fault_hit = Some(self.chip.transcript().len());
                self.fault_mosi = self.last_mosi.clone();
                true
            }
            _ => false,
        }
    }
}

// ---- SPI ----------------------------------------------------------------------------------

#[derive(Debug, Clone, Copy)]
pub struct SpiFault;

impl embedded_hal::spi::Error for SpiFault {
    fn kind(&self) -> ErrorKind {
        ErrorKind::Other
    }
}

pub struct SpiDev<C: ChipModel>(pub Bus<C>);

impl<C: ChipModel> embedded_hal::spi::ErrorType for SpiDev<C> {
    type Error = SpiFault;
}

impl<C: ChipModel> SpiDevice<u8> for SpiDev<C> {
    async fn transaction(&mut self, operations: &mut [Operation<'_, u8>]) -> Result<(), SpiFault> {
        // the await point of this transaction: dropped here = never happened
        yield_once().await;
        let mut mosi: Vec<u8> = Vec::with_capacity(16);
        for op in operations.iter() {
            match op {
                Operation::Write(b) => mosi.extend_from_slice(b),
                Operation::Read(b) => mosi.resize(mosi.len() + b.len(), 0),
                Operation::Transfer(r, w) => {
                    let n = r.len().max(w.len());
                    let start = mosi.len();
                    mosi.extend_from_slice(w);
                    mosi.resize(start + n, 0);
                }
                Operation::TransferInPlace(b) => mosi.extend_from_slice(b),
                Operation::DelayNs(_) => {}
            }
        }
        let mut sh = self.0.borrow_mut();
        sh.n_spi += 1;
        sh.last_cmd = mosi.first().copied().unwrap_or(0);
        sh.last_mosi = mosi[..mosi.len().min(4)].to_vec();
        let n = sh.n_spi;
        if sh.due(FaultKind::Spi, n) {
            if sh.fault_executes {
                sh.chip.tick();
                let _ = sh.chip.spi(&mosi);
                return Err(SpiFault);
            }
            sh.chip.log_lost(&mosi, "SPI-FAULT(lost)");
            sh.chip.tick();
            return Err(SpiFault);
        }
        sh.chip.tick();
        let miso = sh.chip.spi(&mosi);
        drop(sh);
        let mut pos = 0usize;
        for op in operations.iter_mut() {
            match op {
                Operation::Write(b) => pos += b.len(),
                Operation::Read(b) => {
                    let n = b.len();
                    b.copy_from_slice(&miso[pos..pos + n]);
                    pos += n;
                }
                Operation::Transfer(r, w) => {
                    let n = r.len().max(w.len());
                    let k = r.len();
                    r.copy_from_slice(&miso[pos..pos + k]);
                    pos += n;
                }
                Operation::TransferInPlace(b) => {
                    let n = b.len();
                    b.copy_from_slice(&miso[pos..pos + n]);
                    pos += n;
                }
                Operation::DelayNs(_) => {}
            }
        }
        Ok(())
    }
}

// ---- control lines ------------------------------------------------------------------------

pub struct Iv<C: ChipModel> {
    pub bus: Bus<C>,
    /// error returned by a faulted IRQ wait (the stock boards use DIO1 / Irq)
    pub irq_err: fn() -> RadioError,
}

impl<C: ChipModel> InterfaceVariant for Iv<C> {
    async fn reset(&mut self, delay: &mut impl DelayNs) -> Result<(), RadioError> {
        delay.delay_ms(10).await;
        {
            let mut sh = self.bus.borrow_mut();
            sh.resets += 1;
            sh.chip.hard_reset();
        }
        delay.delay_ms(10).await;
        Ok(())
    }
    async fn wait_on_busy(&mut self) -> Result<(), RadioError> {
        {
            let mut sh = self.bus.borrow_mut();
            sh.n_busy += 1;
            let n = sh.n_busy;
            if sh.due(FaultKind::Busy, n) {
                return Err(RadioError::Busy);
            }
        }
        loop {
            {
                let mut sh = self.bus.borrow_mut();
                if !sh.chip.busy() {
                    return Ok(());
                }
                sh.chip.tick();
            }
            yield_once().await;
        }
    }
    async fn await_irq(&mut self) -> Result<(), RadioError> {
        {
            let mut sh = self.bus.borrow_mut();
            sh.n_irq += 1;
            let n = sh.n_irq;
            if sh.due(FaultKind::Irq, n) {
                return Err((self.irq_err)());
            }
        }
        loop {
            {
                let mut sh = self.bus.borrow_mut();
                if sh.chip.irq_line() {
                    return Ok(());
                }
                sh.chip.tick();
            }
            yield_once().await;
        }
    }
    async fn enable_rf_switch_rx(&mut self) -> Result<(), RadioError> {
        Ok(())
    }
    async fn enable_rf_switch_tx(&mut self) -> Result<(), RadioError> {
        Ok(())
    }
    async fn disable_rf_switch(&mut self) -> Result<(), RadioError> {
        Ok(())
    }
}

/// Delay provider: returns at once, adds up the requested time.
pub struct Delay<C: ChipModel>(pub Bus<C>);

impl<C: ChipModel> DelayNs for Delay<C> {
    async fn delay_ns(&mut self, ns: u32) {
        self.0.borrow_mut().delays_ns += ns as u64;
    }
}
