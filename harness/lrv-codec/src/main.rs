//! lrv-codec: monitors for the lorawan-encoding crate (C01, C02, C03, C19).
mod c01;
mod c02;
mod c03;
mod c19;
mod common;

fn main() {
    lrv_core::runner::main(&[&c01::C01, &c02::C02, &c03::C03, &c19::C19]);
}
