#!/bin/bash
# tools/proc9.sh <Cxx> <variant> <demo dest> "<demo cmd>" <harness crate> "<props>"
# Confirms one seeded change (scratch worktree) and runs the monitors against it, with scratch
# directories of its own so that several can run side by side. Seeds in /tmp/${SEED_BASE:-seed9}-Cxx/OUT/<variant>.
p=$1; v=$2; dest=$3; cmd=$4; crate=$5; props=$6
d=/tmp/${SEED_BASE:-seed9}-$p/OUT/$v
cmd=$(echo "$cmd" | sed "s#cd /tmp/[a-zA-Z0-9/-]* && ##")
export SEEDCHECK_BASE=/tmp/sc9-$p$v MUT_BASE=/tmp/mw9-$p$v
/verif/tools/verify_seed.sh $d "$dest" "$cmd" 2>&1 | cut -c1-260
MUT_CHECK=1 MUT_SHOW=4 /verif/tools/mutant.sh s-$p$v $crate "$props" $d/patch.diff 2>&1 | cut -c1-260
rm -rf $SEEDCHECK_BASE $MUT_BASE
