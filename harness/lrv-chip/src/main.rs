//! lrv-chip: behavioural SPI-level chip models (SX126x, SX127x) and the monitors that need them
//! (C18 receive-buffer safety, C14 driver/chip state agreement).
// data-sheet constants and model fields that no monitor reads yet are kept on purpose
#![allow(dead_code)]
mod bus;
mod c14;
mod c18;
mod chip126x;
mod chip127x;
mod exec;
mod rig;

fn main() {
    lrv_core::runner::main(&[&c18::C18, &c14::C14]);
}
