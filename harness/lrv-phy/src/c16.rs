//! C16 — time on air equals the Semtech LoRa airtime formula exactly.
//!
//! Exhaustive: 8 SF x 10 BW x 4 CR x 2 header modes x 256 lengths x (None + 256 preambles)
//! = 42 107 904 judged calls, in every tier except `sanitizer`, and the same again with the public
//! `ldro` field forced to the opposite of the constructor's decision. One *case* is one
//! (SF, BW, CR, header) slab of 256 x 257 calls.

use crate::bus::{BWS, BW_DIV, BW_NAME, BW_NOMINAL_HZ, CRS, SFS};
use lora_modulation::BaseBandModulationParams;
use lrv_core::*;

pub struct C16;

const SLABS: u64 = 8 * 10 * 4 * 2;
const PER_SLAB: u64 = 256 * 257;

/// Semtech formula (SX1276 data sheet 4.1.1.7 / AN1200.13) in exact integer arithmetic.
/// `tsym_us` is the symbol time truncated to the microsecond, as the crate documents.
/// Returns (numerator of the big ratio, payload symbol count, time on air in us).
pub fn reference(sf: i128, tsym_us: i128, cr_denom: i128, de: bool, explicit: bool, len: i128, pre: Option<i128>) -> (i128, i128, i128) {
    let h = if explicit { 0 } else { 1 };
    let de = if de { 1 } else { 0 };
    let num = 8 * len - 4 * sf + 28 + 16 - 20 * h;
    let den = 4 * (sf - 2 * de);
    // mathematically correct ceiling for any sign of the numerator (den > 0)
    let ceil = num.div_euclid(den) + if num.rem_euclid(den) != 0 { 1 } else { 0 };
    let n = 8 + (ceil * cr_denom).max(0);
    let t = match pre {
        None => n * tsym_us,
        Some(p) => (4 * p + 17 + 4 * n) * tsym_us / 4,
    };
    (num, n, t)
}

fn len_bucket(l: usize) -> &'static str {
    match l {
        0 => "0",
        1..=15 => "1-15",
        16..=63 => "16-63",
        _ => "64-255",
    }
}

impl Monitor for C16 {
    fn prop(&self) -> &'static str {
        "C16"
    }
    fn gens(&self, tier: Tier) -> Vec<Gen> {
        vec![gen("toa-slab", tier.pick(SLABS, SLABS, 8)), gen("toa-forced-ldro", tier.pick(SLABS, SLABS, 4)), gen("toa-reloaded", tier.pick(SLABS, SLABS, 4))]
    }
    fn exhaustive(&self, tier: Tier) -> bool {
        tier != Tier::Sanitizer
    }
    fn rule(&self) -> String {
        "toa-slab: case i = (SF, BW, CR, header mode) by index arithmetic; each case sweeps every payload length 0..255 x preamble {None, 0..255} (65 792 calls of time_on_air_us, each compared with the exact-integer formula; consecutive lengths compared for monotonicity). Class = (SF, BW, CR, header, sign class of the formula's numerator, length bucket). toa-forced-ldro: the same slabs with the public `ldro` field set to the opposite of what new() decided (the constructor's documentation allows forcing it); DE in the formula is the field's value. toa-reloaded: the same slabs with parameters that were serialised with the crate's serde support and read back.".into()
    }
    fn assumptions(&self) -> Vec<String> {
        vec![
            "formula: n = 8 + max(ceil((8L - 4SF + 28 + 16 - 20H) / (4(SF - 2DE))) (CR+4), 0), T = floor((4 pre + 17 + 4n) Tsym / 4), or n Tsym without preamble; CRC is always counted (+16) because the API has no CRC switch; the same formula is used for SF5/SF6".into(),
            "Tsym = floor(2^SF 10^6 / Bandwidth::hz()) (the crate's documented microsecond truncation, recomputed by the oracle from the public hz(), which itself must report the data sheet's value of the named bandwidth: 500 kHz / 2^k exactly, rounded to 1 Hz, or rounded to 10 Hz as printed); DE = the crate's own public `ldro` field (its correctness is C15's business)".into(),
        ]
    }
    fn required_events(&self, tier: Tier) -> Vec<&'static str> {
        if tier == Tier::Sanitizer {
            vec!["toa_judged"]
        } else {
            vec!["toa_judged", "numerator_nonpositive", "numerator_positive", "ldro_on", "ldro_off", "ldro_forced_on", "ldro_forced_off", "params_reloaded", "preamble_none", "header_implicit", "header_explicit", "monotonic_pairs"]
        }
    }

    fn run_case(&self, g: &str, idx: u64, _rng: &mut Prng, col: &mut Collector) {
        let forced = g == "toa-forced-ldro";
        let reloaded = g == "toa-reloaded";
        // sanitizer tier: spread the 8 cases over the slab space
        let slab = if col.tier == Tier::Sanitizer { (idx * 83) % SLABS } else { idx };
        let explicit = slab % 2 == 0;
        let cri = ((slab / 2) % 4) as usize;
        let bwi = ((slab / 8) % 10) as usize;
        let sfi = ((slab / 80) % 8) as usize;
        let (sf, bw, cr) = (SFS[sfi], BWS[bwi], CRS[cri]);
        let sfn = sfi as i128 + 5;
        let crd = cri as i128 + 5;
        let mut p = BaseBandModulationParams::new(sf, bw, cr);
        if forced {
            p.ldro = !p.ldro;
            col.event(if p.ldro { "ldro_forced_on" } else { "ldro_forced_off" });
        }
        if reloaded {
            // parameters that went through the crate's own serialised form (serde feature) and back
            // are the same parameters: same airtime for every call
            match serde_json::to_string(&p).ok().and_then(|t| serde_json::from_str::<BaseBandModulationParams>(&t).ok()) {
                Some(q) => {
                    col.event("params_reloaded");
                    if q != p {
                        col.violation(&format!("C16|toa|reloaded-parameters-differ|ldro_same={}", q.ldro == p.ldro), "modulation parameters read back from the crate's serialised form are not the parameters that were stored", json!({"sf": sfn as i64, "bw": BW_NAME[bwi], "stored": format!("{:?}", p), "read_back": format!("{:?}", q)}));
                        return;
                    }
                    p = q;
                }
                None => {
                    col.violation("C16|toa|reload-fails", "modulation parameters serialised by the crate do not deserialise", json!({"sf": sfn as i64, "bw": BW_NAME[bwi]}));
                    return;
                }
            }
        }
        let de = p.ldro;
        let tsym = ((1u64 << sfn) * 1_000_000 / bw.hz() as u64) as i128;
        // the symbol time is 2^SF / BW of the *named* bandwidth: the value hz() reports for it must be
        // the data sheet's figure (500 kHz / 2^k, possibly rounded to 1 Hz or, as printed, to 10 Hz)
        if !forced && !reloaded {
            let exact_num = 500_000u64; // true bandwidth = 500000 / BW_DIV
            let d = BW_DIV[bwi];
            let allowed = [BW_NOMINAL_HZ[bwi], exact_num / d, exact_num.div_ceil(d), (exact_num * 2 + d) / (2 * d)];
            col.eval_n(1);
            if !allowed.contains(&(bw.hz() as u64)) {
                col.violation(
                    &format!("C16|bandwidth-table|BW{}|got={}", BW_NAME[bwi], bw.hz()),
                    "the bandwidth value the symbol time is computed from is not the data sheet's value for that bandwidth",
                    json!({"bandwidth": BW_NAME[bwi], "hz": bw.hz(), "accepted": allowed}),
                );
            }
        }
        let hdr = if explicit { "explicit" } else { "implicit" };
        let cell = format!("SF{}/BW{}/CR4_{}/hdr={}{}", sfn, BW_NAME[bwi], crd, hdr, if forced { "/ldro-forced" } else if reloaded { "/reloaded" } else { "" });
        col.event(if de { "ldro_on" } else { "ldro_off" });
        col.event(if explicit { "header_explicit" } else { "header_implicit" });
        if col.want_sample() {
            let (num, n, t) = reference(sfn, tsym, crd, de, explicit, 0, Some(8));
            col.sample(json!({"slab": cell, "ldro": de, "tsym_us": tsym as u64, "example": {"len": 0, "preamble": 8, "numerator": num as i64, "symbols": n as i64, "expected_us": t as u64}}));
        }
        let lens: Vec<usize> = if col.tier == Tier::Sanitizer { vec![0, 1, 2, 13, 51, 255] } else { (0..256).collect() };
        let mut prev: Option<[u32; 257]> = None;
        let mut prev_len = 0usize;
        let mut seen_class: [[bool; 4]; 2] = [[false; 4]; 2];
        for &len in &lens {
            // one trap per row of 257 calls; on a trapped panic the row is re-run call by call
            let row = trap(|| {
                let mut out = [0u32; 257];
                out[0] = p.time_on_air_us(None, explicit, len as u8);
                for pre in 0..256usize {
                    out[pre + 1] = p.time_on_air_us(Some(pre as u8), explicit, len as u8);
                }
                out
            });
            let (num, _, _) = reference(sfn, tsym, crd, de, explicit, len as i128, None);
            let nonpos = num <= 0;
            let numclass = if nonpos { "numerator<=0" } else { "numerator>0" };
            col.eval_n(257);
            col.event_n("toa_judged", 257);
            col.event_n(if nonpos { "numerator_nonpositive" } else { "numerator_positive" }, 257);
            col.event("preamble_none");
            let lb = match len {
                0 => 0,
                1..=15 => 1,
                16..=63 => 2,
                _ => 3,
            };
            if !seen_class[nonpos as usize][lb] {
                seen_class[nonpos as usize][lb] = true;
                col.class(&format!("{}|{}|{}", cell, numclass, len_bucket(len)));
            }
            let row = match row {
                Ok(r) => r,
                Err(_) => {
                    // localise
                    let mut out = [0u32; 257];
                    for k in 0..257usize {
                        let pre = if k == 0 { None } else { Some((k - 1) as u8) };
                        match trap(|| p.time_on_air_us(pre, explicit, len as u8)) {
                            Ok(v) => out[k] = v,
                            Err(t) => {
                                let (num, n, exp) = reference(sfn, tsym, crd, de, explicit, len as i128, pre.map(|x| x as i128));
                                col.violation(
                                    &format!("C16|toa|panic|{}|hdr={}|{}", numclass, hdr, t.kind()),
                                    "time_on_air_us panicked (overflow/assertion in the verif profile)",
                                    json!({"cell": cell, "len": len, "preamble": pre, "ldro": de, "tsym_us": tsym as u64, "numerator": num as i64, "expected_symbols": n as i64, "expected_us": exp.to_string(), "panic": t.msg, "loc": t.loc}),
                                );
                                out[k] = u32::MAX;
                            }
                        }
                    }
                    prev = None;
                    let _ = out;
                    continue;
                }
            };
            for k in 0..257usize {
                let pre = if k == 0 { None } else { Some((k - 1) as i128) };
                let (_, n, exp) = reference(sfn, tsym, crd, de, explicit, len as i128, pre);
                let got = row[k] as i128;
                if exp > u32::MAX as i128 {
                    col.violation(
                        &format!("C16|toa|exceeds-u32|{}|hdr={}", numclass, hdr),
                        "the exact formula value does not fit the u32 return type",
                        json!({"cell": cell, "len": len, "preamble": pre.map(|x| x as i64), "expected_us": exp.to_string(), "got": got as u64}),
                    );
                } else if got != exp {
                    // error class: exactly one code word block (CR+4 symbols) off, or anything else
                    let unit = crd * tsym;
                    let diff = (got - exp).abs();
                    let dir = match (got > exp, (diff - unit).abs() <= 1) {
                        (true, true) => "over-1cw",
                        (true, false) => "over-other",
                        (false, true) => "under-1cw",
                        (false, false) => "under-other",
                    };
                    // how many symbols off (if a whole number of symbols without preamble)
                    let got_sym = if tsym > 0 && pre.is_none() && got % tsym == 0 { Some((got / tsym) as i64) } else { None };
                    crate::viol(col, &format!("C16|toa|mismatch|{}|hdr={}|{}{}", numclass, hdr, dir, if forced { "|ldro-forced" } else if reloaded { "|reloaded" } else { "" }), "time_on_air_us differs from the Semtech formula", || {
                        json!({"cell": cell, "len": len, "preamble": pre.map(|x| x as i64), "ldro": de, "tsym_us": tsym as u64, "numerator": num as i64, "denominator": (4 * (sfn - 2 * de as i128)) as i64, "expected_symbols": n as i64, "got_symbols_if_whole": got_sym, "expected_us": exp as u64, "got_us": got as u64})
                    });
                }
            }
            // monotone in the payload length (same preamble), for consecutive lengths
            if let Some(pr) = &prev {
                if prev_len + 1 == len {
                    col.event_n("monotonic_pairs", 257);
                    for k in 0..257usize {
                        if row[k] < pr[k] {
                            col.violation(
                                &format!("C16|toa|non-monotonic|{}|hdr={}", numclass, hdr),
                                "time on air decreases when the payload grows by one byte",
                                json!({"cell": cell, "len": prev_len, "len_next": len, "preamble": if k == 0 { None } else { Some(k - 1) }, "t_len": pr[k], "t_len_next": row[k]}),
                            );
                            break;
                        }
                    }
                }
            }
            prev = Some(row);
            prev_len = len;
        }
        let _ = PER_SLAB;
    }
}
