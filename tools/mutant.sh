#!/bin/bash
# Runs monitors against a mutated scratch copy of /repo (never touches /repo itself).
#   tools/mutant.sh <name> <crate> "<props...>" <patch-file | -e 'sed-expr' file>...
# Examples:
#   tools/mutant.sh m1 lrv-mac "C12" -e 's/ADR_ACK_LIMIT: usize = 64/ADR_ACK_LIMIT: usize = 65/' lorawan-device/src/region/constants.rs
#   tools/mutant.sh s3 lrv-mac "C05 C07" /verif/seeded/s3/patch.diff
set -u
name=$1; crate=$2; props=$3; shift 3
base=${MUT_BASE:-/tmp/mutwork}
wt=$base/$name
hz=$base/$name-h
mkdir -p $base
git -C /repo worktree remove --force $wt >/dev/null 2>&1
rm -rf $wt $hz
git -C /repo worktree add --detach $wt ${SEED_REPO_REV:-HEAD} >/dev/null 2>&1 || { echo "worktree failed"; exit 2; }
# include uncommitted state of /repo? no: mutants are relative to HEAD
while [ $# -gt 0 ]; do
  if [ "$1" = "-e" ]; then
    expr=$2; file=$3; shift 3
    before=$(md5sum $wt/$file)
    sed -i "$expr" $wt/$file
    after=$(md5sum $wt/$file)
    [ "$before" = "$after" ] && { echo "MUTANT $name: sed expression did not change $file"; git -C /repo worktree remove --force $wt; exit 2; }
  else
    git -C $wt apply "$1" || { echo "MUTANT $name: patch does not apply"; git -C /repo worktree remove --force $wt; exit 2; }
    shift
  fi
done
mkdir -p $hz
rsync -a --exclude target /verif/harness/ $hz/
sed -i "s#/repo/#$wt/#g" $hz/*/Cargo.toml
export CARGO_NET_OFFLINE=true CARGO_TARGET_DIR=$base/target
( cd $hz && cargo build --profile verif -p $crate 2>&1 | grep -E "^error" -A8 | head -30 )
rc=0
if [ -n "${MUT_CHECK:-}" ]; then
  # run the real driver (sanitizer legs, stall and crash classification) against the scratch copy
  for p in $props; do
    echo "--- check $p (tier ${MUT_TIER:-quick}) on mutant $name"
    LRV_HARNESS=$hz LRV_OUT=$base/out-$name CARGO_TARGET_DIR=$base/target /verif/check $p --tier ${MUT_TIER:-quick} | grep -v "^ \{3,\}" | tail -${MUT_SHOW:-6}
    echo "    exit=${PIPESTATUS[0]}"
    rp=$(ls $base/out-$name/replays/$p/*.json 2>/dev/null | grep -v "/crash-\|/stall-" | head -1)
    if [ -n "$rp" ]; then
      LRV_HARNESS=$hz LRV_OUT=$base/out-$name CARGO_TARGET_DIR=$base/target /verif/check $p --replay $rp | grep "^VIOLATION property\|^replay\|^INCONCLUSIVE" | tail -2
      echo "    replay exit=${PIPESTATUS[0]}"
    fi
  done
  rm -rf $base/out-$name
  props=""
fi
for p in $props; do
  # the quick tier of ./check runs some monitors at a multiple of their base workload (quick_scale)
  scale=1
  if [ "${MUT_TIER:-quick}" = "quick" ]; then
    scale=$(python3 -c "
from importlib.machinery import SourceFileLoader
m = SourceFileLoader('chk', '/verif/check').load_module()
print(m.PROPS['$p'].get('quick_scale', 1))" 2>/dev/null || echo 1)
  fi
  out=$($base/target/verif/$crate $p --tier ${MUT_TIER:-quick} --seed ${VERIF_SEED:-1} --scale $scale 2>/dev/null | grep '^LRV-RESULT ' | tail -1)
  echo "$out" | python3 -c "
import sys,json
l=sys.stdin.read()
if not l.startswith('LRV-RESULT '): print('MUTANT $name $p: no result'); sys.exit()
r=json.loads(l[11:])
if r.get('kind')=='stall': print('MUTANT $name $p: STALL', r['stalls']); sys.exit()
import fnmatch
kf=[e['signature'] for e in json.load(open('/verif/known_findings.json'))['findings'] if str(e.get('status','')).startswith('open')]
def known(sig):
    return any((sig.startswith(k[:-1]) if k.endswith('*') else sig==k) for k in kf)
v=[x for x in r['violations'] if not known(x['sig'])]
print('MUTANT $name $p:', 'CAUGHT' if v else 'missed', len(v), 'signatures;', 'harness_panic' if r['events'].get('harness_panic') else '', r.get('wall_s'))
for x in v[:${MUT_SHOW:-4}]: print('   ', x['sig'], 'x%d' % x['count'])
"
done
git -C /repo worktree remove --force $wt >/dev/null 2>&1
rm -rf $wt $hz
git -C /repo worktree prune
