//! Behavioural SPI-level model of the SX1276/77/78/79 and SX1272 in LoRa mode, written from
//! the data sheets (SX1276-7-8-9 rev 7: chapter 4.1 "LoRa modem", 4.1.2.3 "LoRa mode FIFO data
//! buffer", table 41 "registers of the LoRa mode", table 18 "DIO mapping LoRa mode"; SX1272
//! rev 4: table 34/35). Register addresses and bit masks below are this file's own constants.
//!
//! Facts the model encodes: single-access and burst SPI with address auto-increment (FIFO
//! access at address 0 goes through RegFifoAddrPtr, which auto-increments and wraps at 256);
//! register contents are *retained* in sleep mode (only NRESET loses them) while the FIFO is
//! cleared and inaccessible there; LongRangeMode can only be changed in sleep mode; TX, RXSINGLE
//! and CAD return to STDBY on their own, RXCONTINUOUS does not; a masked interrupt is not
//! latched in RegIrqFlags; flags are cleared by writing 1.

use crate::bus::*;
use std::collections::VecDeque;

// ---- registers (LoRa page) ------------------------------------------------------------------
pub const REG_FIFO: u8 = 0x00;
pub const REG_OP_MODE: u8 = 0x01;
pub const REG_FRF_MSB: u8 = 0x06;
pub const REG_FRF_MID: u8 = 0x07;
pub const REG_FRF_LSB: u8 = 0x08;
pub const REG_PA_CONFIG: u8 = 0x09;
pub const REG_FIFO_ADDR_PTR: u8 = 0x0D;
pub const REG_FIFO_TX_BASE_ADDR: u8 = 0x0E;
pub const REG_FIFO_RX_BASE_ADDR: u8 = 0x0F;
pub const REG_FIFO_RX_CURRENT_ADDR: u8 = 0x10;
pub const REG_IRQ_FLAGS_MASK: u8 = 0x11;
pub const REG_IRQ_FLAGS: u8 = 0x12;
pub const REG_RX_NB_BYTES: u8 = 0x13;
pub const REG_MODEM_STAT: u8 = 0x18;
pub const REG_PKT_SNR_VALUE: u8 = 0x19;
pub const REG_PKT_RSSI_VALUE: u8 = 0x1A;
pub const REG_RSSI_VALUE: u8 = 0x1B;
pub const REG_MODEM_CONFIG1: u8 = 0x1D;
pub const REG_MODEM_CONFIG2: u8 = 0x1E;
pub const REG_SYMB_TIMEOUT_LSB: u8 = 0x1F;
pub const REG_PREAMBLE_MSB: u8 = 0x20;
pub const REG_PREAMBLE_LSB: u8 = 0x21;
pub const REG_PAYLOAD_LENGTH: u8 = 0x22;
pub const REG_MAX_PAYLOAD_LENGTH: u8 = 0x23;
pub const REG_FIFO_RX_BYTE_ADDR: u8 = 0x25;
pub const REG_MODEM_CONFIG3: u8 = 0x26;
pub const REG_SYNC_WORD: u8 = 0x39;
pub const REG_DIO_MAPPING1: u8 = 0x40;
pub const REG_DIO_MAPPING2: u8 = 0x41;
pub const REG_VERSION: u8 = 0x42;
pub const REG_TCXO_SX1276: u8 = 0x4B;
pub const REG_TCXO_SX1272: u8 = 0x58;

// RegOpMode
pub const OPMODE_LONG_RANGE: u8 = 0x80;
pub const OPMODE_MODE_MASK: u8 = 0x07;
pub const MODE_SLEEP: u8 = 0;
pub const MODE_STDBY: u8 = 1;
pub const MODE_FSTX: u8 = 2;
pub const MODE_TX: u8 = 3;
pub const MODE_FSRX: u8 = 4;
pub const MODE_RXCONTINUOUS: u8 = 5;
pub const MODE_RXSINGLE: u8 = 6;
pub const MODE_CAD: u8 = 7;

// RegIrqFlags
pub const IRQ_RX_TIMEOUT: u8 = 0x80;
pub const IRQ_RX_DONE: u8 = 0x40;
pub const IRQ_PAYLOAD_CRC_ERROR: u8 = 0x20;
pub const IRQ_VALID_HEADER: u8 = 0x10;
pub const IRQ_TX_DONE: u8 = 0x08;
pub const IRQ_CAD_DONE: u8 = 0x04;
pub const IRQ_FHSS_CHANGE_CHANNEL: u8 = 0x02;
pub const IRQ_CAD_DETECTED: u8 = 0x01;

#[derive(Clone, Copy, Debug, PartialEq, Eq)]
pub enum Variant {
    Sx1276,
    Sx1272,
}

pub struct Chip127x {
    pub variant: Variant,
    pub mode: Mode,
    pub rx_continuous: bool,
    pub regs: [u8; 128],
    /// registers written since the last reset
    written: [bool; 128],
    pub fifo: [u8; 256],
    pub script: VecDeque<Vec<Ev>>,
    pub default_outcome: Vec<Ev>,
    pending: VecDeque<Ev>,
    pub op: Option<OpKind>,
    pulse: bool,
    /// see Chip126x::irq_safe: no interrupt between a read of RegIrqFlags and the next write
    pub irq_safe: bool,
    hold: bool,
    /// (RegRxNbBytes, RegFifoRxCurrentAddr) forced at the next RxDone
    pub report_override: Option<(u8, u8)>,
    pub next_packet: Option<Vec<u8>>,
    /// board uses a TCXO: RegTcxo must be programmed after a reset
    pub transcript: Vec<Txn>,
    pub alarms: Vec<Alarm>,
    pub op_starts: Vec<OpStart>,
    pub tx_payloads: Vec<Vec<u8>>,
    pub losses: u32,
    pub last_loss: &'static str,
    pub keep_transcript: bool,
}

impl Chip127x {
    pub fn new(variant: Variant) -> Self {
        let mut c = Chip127x {
            variant,
            mode: Mode::Stdby,
            rx_continuous: false,
            regs: [0; 128],
            written: [false; 128],
            fifo: [0; 256],
            script: VecDeque::new(),
            default_outcome: vec![ev(EvKind::Done, 2)],
            pending: VecDeque::new(),
            op: None,
            pulse: false,
            irq_safe: true,
            hold: false,
            report_override: None,
            next_packet: None,
            transcript: Vec::new(),
            alarms: Vec::new(),
            op_starts: Vec::new(),
            tx_payloads: Vec::new(),
            losses: 0,
            last_loss: "reset",
            keep_transcript: true,
        };
        c.power_on_defaults();
        c.losses = 0;
        c
    }

    /// A cold sleep requested through the driver's API: the registers keep their values on this family,
    /// but nothing counts as programmed since then.
    pub fn mark_cold_sleep(&mut self) {
        self.losses += 1;
        self.last_loss = "cold-sleep";
        self.written = [false; 128];
    }

    fn power_on_defaults(&mut self) {
        self.losses += 1;
        self.last_loss = "reset";
        self.regs = [0; 128];
        self.written = [false; 128];
        let r = &mut self.regs;
        // after reset the chip is in FSK/OOK mode, standby
        r[REG_OP_MODE as usize] = if self.variant == Variant::Sx1276 { 0x09 } else { 0x01 };
        r[REG_FRF_MSB as usize] = if self.variant == Variant::Sx1276 { 0x6C } else { 0xE4 };
        r[REG_FRF_MID as usize] = if self.variant == Variant::Sx1276 { 0x80 } else { 0xC0 };
        r[REG_FRF_LSB as usize] = 0x00;
        r[REG_PA_CONFIG as usize] = if self.variant == Variant::Sx1276 { 0x4F } else { 0x0F };
        r[0x0A] = if self.variant == Variant::Sx1276 { 0x09 } else { 0x19 };
        r[0x0B] = 0x2B;
        r[0x0C] = 0x20;
        r[REG_FIFO_TX_BASE_ADDR as usize] = 0x80;
        r[REG_FIFO_RX_BASE_ADDR as usize] = 0x00;
        r[REG_MODEM_CONFIG1 as usize] = if self.variant == Variant::Sx1276 { 0x72 } else { 0x08 };
        r[REG_MODEM_CONFIG2 as usize] = if self.variant == Variant::Sx1276 { 0x70 } else { 0x74 };
        r[REG_SYMB_TIMEOUT_LSB as usize] = 0x64;
        r[REG_PREAMBLE_LSB as usize] = 0x08;
        r[REG_PAYLOAD_LENGTH as usize] = 0x01;
        r[REG_MAX_PAYLOAD_LENGTH as usize] = 0xFF;
        r[REG_MODEM_CONFIG3 as usize] = if self.variant == Variant::Sx1276 { 0x04 } else { 0x00 };
        r[0x2F] = 0x20;
        r[0x31] = 0xC3;
        r[0x33] = 0x27;
        r[0x36] = 0x03;
        r[0x37] = 0x0A;
        r[REG_SYNC_WORD as usize] = 0x12;
        r[0x3B] = 0x1D;
        r[REG_VERSION as usize] = if self.variant == Variant::Sx1276 { 0x12 } else { 0x22 };
        r[REG_TCXO_SX1276 as usize] = 0x09;
        r[0x4D] = 0x84;
        r[REG_TCXO_SX1272 as usize] = 0x09;
        r[0x5A] = 0x84;
        self.mode = Mode::Stdby;
        self.fifo = [0; 256];
    }

    pub fn lora_mode(&self) -> bool {
        self.regs[REG_OP_MODE as usize] & OPMODE_LONG_RANGE != 0
    }

    /// Items programmed since the last reset, in the vocabulary of `bus::item`.
    pub fn prog(&self) -> u16 {
        let w = |a: u8| self.written[a as usize];
        let mut p = 0u16;
        // "packet type" on this family is the LongRangeMode bit: set, by a write, since reset
        if self.lora_mode() && w(REG_OP_MODE) {
            p |= item::PKT_TYPE;
        }
        if w(REG_SYNC_WORD) {
            p |= item::SYNC;
        }
        // no regulator selection on this family: never missing
        p |= item::REGULATOR;
        let tcxo = if self.variant == Variant::Sx1276 { REG_TCXO_SX1276 } else { REG_TCXO_SX1272 };
        if w(tcxo) {
            p |= item::TCXO;
        }
        if w(REG_FIFO_TX_BASE_ADDR) && w(REG_FIFO_RX_BASE_ADDR) {
            p |= item::BUF_BASE;
        }
        if w(REG_MODEM_CONFIG1) && w(REG_MODEM_CONFIG2) {
            p |= item::MODULATION;
        }
        if w(REG_PREAMBLE_LSB) && w(REG_MODEM_CONFIG1) {
            p |= item::PKT_PARAMS;
        }
        if w(REG_IRQ_FLAGS_MASK) {
            p |= item::IRQ;
        }
        if w(REG_FRF_MSB) && w(REG_FRF_MID) && w(REG_FRF_LSB) {
            p |= item::FREQ;
        }
        if w(REG_PA_CONFIG) {
            p |= item::PA;
        }
        p
    }

    fn abort_op(&mut self) {
        self.op = None;
        self.pending.clear();
    }

    fn raise(&mut self, bits: u8) {
        let masked = self.regs[REG_IRQ_FLAGS_MASK as usize];
        self.regs[REG_IRQ_FLAGS as usize] |= bits & !masked;
    }

    fn set_mode_bits(&mut self, m: u8) {
        let r = &mut self.regs[REG_OP_MODE as usize];
        *r = (*r & !OPMODE_MODE_MASK) | m;
    }

    fn start_op(&mut self, kind: OpKind, from: Mode) {
        self.abort_op();
        let missing = item::ALL & !self.prog();
        let sync = self.regs[REG_SYNC_WORD as usize] as u16;
        self.op_starts.push(OpStart { kind, from, missing, txn: self.transcript.len(), sync });
        if from == Mode::Sleep {
            self.alarms.push(Alarm::OpStartFromSleep(kind));
        }
        let outcome = self.script.pop_front().unwrap_or_else(|| self.default_outcome.clone());
        self.pending = outcome.into();
        self.op = Some(kind);
        self.mode = match kind {
            OpKind::Tx => Mode::Tx,
            OpKind::Rx => Mode::Rx,
            OpKind::Cad => Mode::Cad,
        };
        self.fire_due();
    }

    fn fire_due(&mut self) {
        while let Some(f) = self.pending.front().copied() {
            if f.after != 0 || self.op.is_none() {
                break;
            }
            self.pending.pop_front();
            self.fire(f.kind);
        }
    }

    fn to_standby(&mut self) {
        self.mode = Mode::Stdby;
        self.set_mode_bits(MODE_STDBY);
        self.abort_op();
    }

    fn implicit_header(&self) -> bool {
        match self.variant {
            Variant::Sx1276 => self.regs[REG_MODEM_CONFIG1 as usize] & 0x01 != 0,
            Variant::Sx1272 => self.regs[REG_MODEM_CONFIG1 as usize] & 0x04 != 0,
        }
    }

    fn fire(&mut self, kind: EvKind) {
        let Some(op) = self.op else { return };
        match (op, kind) {
            (_, EvKind::Spurious) => self.pulse = true,
            (OpKind::Tx, EvKind::Done) => {
                let n = self.regs[REG_PAYLOAD_LENGTH as usize] as usize;
                let base = self.regs[REG_FIFO_TX_BASE_ADDR as usize] as usize;
                let p: Vec<u8> = (0..n).map(|i| self.fifo[(base + i) & 0xFF]).collect();
                self.tx_payloads.push(p);
                self.raise(IRQ_TX_DONE);
                self.to_standby();
            }
            (OpKind::Tx, _) => {}
            (OpKind::Rx, EvKind::Done) | (OpKind::Rx, EvKind::CrcError) => {
                let base = self.regs[REG_FIFO_RX_BASE_ADDR as usize];
                if let Some(p) = self.next_packet.take() {
                    for (i, b) in p.iter().enumerate() {
                        self.fifo[(base as usize + i) & 0xFF] = *b;
                    }
                    self.regs[REG_FIFO_RX_CURRENT_ADDR as usize] = base;
                    self.regs[REG_RX_NB_BYTES as usize] = p.len().min(255) as u8;
                    self.regs[REG_FIFO_RX_BYTE_ADDR as usize] = base.wrapping_add(p.len() as u8);
                }
                if let Some((l, s)) = self.report_override {
                    self.regs[REG_RX_NB_BYTES as usize] = l;
                    self.regs[REG_FIFO_RX_CURRENT_ADDR as usize] = s;
                }
                let mut bits = IRQ_RX_DONE;
                if !self.implicit_header() {
                    bits |= IRQ_VALID_HEADER;
                }
                if kind == EvKind::CrcError {
                    bits |= IRQ_PAYLOAD_CRC_ERROR;
                }
                self.raise(bits);
                if !self.rx_continuous {
                    self.to_standby();
                }
            }
            // a header that fails its CRC is dropped without any interrupt
            (OpKind::Rx, EvKind::HeaderError) => {}
            (OpKind::Rx, EvKind::Preamble) => self.raise(IRQ_VALID_HEADER),
            (OpKind::Rx, EvKind::Timeout) => {
                if !self.rx_continuous {
                    self.raise(IRQ_RX_TIMEOUT);
                    self.to_standby();
                }
            }
            (OpKind::Rx, EvKind::DoneDetected) => {}
            (OpKind::Cad, EvKind::Done) | (OpKind::Cad, EvKind::DoneDetected) => {
                self.raise(if kind == EvKind::DoneDetected { IRQ_CAD_DONE | IRQ_CAD_DETECTED } else { IRQ_CAD_DONE });
                self.to_standby();
            }
            (OpKind::Cad, _) => {}
        }
    }

    fn read_reg(&mut self, a: u8) -> u8 {
        if a == REG_FIFO {
            if self.mode == Mode::Sleep {
                self.alarms.push(Alarm::FifoInSleep);
                return 0;
            }
            let p = self.regs[REG_FIFO_ADDR_PTR as usize];
            self.regs[REG_FIFO_ADDR_PTR as usize] = p.wrapping_add(1);
            return self.fifo[p as usize];
        }
        self.regs[a as usize]
    }

    fn write_reg(&mut self, a: u8, v: u8) -> &'static str {
        match a {
            REG_FIFO => {
                if self.mode == Mode::Sleep {
                    self.alarms.push(Alarm::FifoInSleep);
                    return "FIFO-IN-SLEEP";
                }
                let p = self.regs[REG_FIFO_ADDR_PTR as usize];
                self.regs[REG_FIFO_ADDR_PTR as usize] = p.wrapping_add(1);
                self.fifo[p as usize] = v;
                ""
            }
            REG_OP_MODE => {
                self.written[a as usize] = true;
                let from = self.mode;
                let req = v & OPMODE_MODE_MASK;
                let mut nv = v;
                // LongRangeMode can be modified only in sleep mode (a write that also requests
                // sleep mode is accepted, as every known driver relies on it)
                let may_change = from == Mode::Sleep || req == MODE_SLEEP;
                if !may_change {
                    nv = (v & !OPMODE_LONG_RANGE) | (self.regs[a as usize] & OPMODE_LONG_RANGE);
                }
                self.regs[a as usize] = nv;
                match req {
                    MODE_SLEEP => {
                        self.abort_op();
                        self.mode = Mode::Sleep;
                        self.fifo = [0; 256];
                        "sleep"
                    }
                    MODE_STDBY => {
                        self.abort_op();
                        self.mode = Mode::Stdby;
                        ""
                    }
                    MODE_FSTX | MODE_FSRX => {
                        self.abort_op();
                        self.mode = Mode::Fs;
                        ""
                    }
                    MODE_TX => {
                        self.start_op(OpKind::Tx, from);
                        "TX-START"
                    }
                    MODE_RXCONTINUOUS => {
                        self.rx_continuous = true;
                        self.start_op(OpKind::Rx, from);
                        "RX-START(continuous)"
                    }
                    MODE_RXSINGLE => {
                        self.rx_continuous = false;
                        self.start_op(OpKind::Rx, from);
                        "RX-START(single)"
                    }
                    _ => {
                        self.start_op(OpKind::Cad, from);
                        "CAD-START"
                    }
                }
            }
            REG_IRQ_FLAGS => {
                self.regs[a as usize] &= !v;
                ""
            }
            // read-only registers
            REG_FIFO_RX_CURRENT_ADDR | REG_RX_NB_BYTES | REG_MODEM_STAT | REG_PKT_SNR_VALUE | REG_PKT_RSSI_VALUE | REG_RSSI_VALUE | REG_FIFO_RX_BYTE_ADDR | REG_VERSION => "",
            _ => {
                self.written[a as usize] = true;
                self.regs[a as usize] = v;
                ""
            }
        }
    }

    fn dio0(&self) -> bool {
        let f = self.regs[REG_IRQ_FLAGS as usize];
        match self.regs[REG_DIO_MAPPING1 as usize] >> 6 {
            0 => f & IRQ_RX_DONE != 0,
            1 => f & IRQ_TX_DONE != 0,
            2 => f & IRQ_CAD_DONE != 0,
            _ => false,
        }
    }

    fn dio1(&self) -> bool {
        let f = self.regs[REG_IRQ_FLAGS as usize];
        match (self.regs[REG_DIO_MAPPING1 as usize] >> 4) & 3 {
            0 => f & IRQ_RX_TIMEOUT != 0,
            1 => f & IRQ_FHSS_CHANGE_CHANNEL != 0,
            2 => f & IRQ_CAD_DETECTED != 0,
            _ => false,
        }
    }
}

impl ChipModel for Chip127x {
    fn spi(&mut self, mosi: &[u8]) -> Vec<u8> {
        let before = self.mode;
        let mut miso = vec![0u8; mosi.len()];
        let mut note = "";
        if let Some(first) = mosi.first().copied() {
            let write = first & 0x80 != 0;
            let addr = first & 0x7F;
            self.hold = self.irq_safe && !write && addr == REG_IRQ_FLAGS;
            for i in 1..mosi.len() {
                let a = if addr == REG_FIFO { REG_FIFO } else { (addr as usize + i - 1) as u8 & 0x7F };
                if write {
                    let n = self.write_reg(a, mosi[i]);
                    if !n.is_empty() {
                        note = n;
                    }
                } else {
                    miso[i] = self.read_reg(a);
                }
            }
        }
        if self.keep_transcript {
            self.transcript.push(Txn { mosi: mosi.to_vec(), miso: miso.clone(), before, after: self.mode, note });
        }
        miso
    }

    fn tick(&mut self) {
        if self.op.is_some() && !self.hold {
            if let Some(f) = self.pending.front_mut() {
                if f.after > 0 {
                    f.after -= 1;
                }
            }
            self.fire_due();
        }
    }

    fn busy(&self) -> bool {
        false
    }

    fn irq_line(&mut self) -> bool {
        self.hold = false;
        if self.pulse {
            self.pulse = false;
            return true;
        }
        // the board watches DIO0 and DIO1 (the wiring LoRaWAN needs)
        self.dio0() || self.dio1()
    }

    fn hard_reset(&mut self) {
        let before = self.mode;
        self.abort_op();
        self.pulse = false;
        self.power_on_defaults();
        if self.keep_transcript {
            self.transcript.push(Txn { mosi: vec![], miso: vec![], before, after: Mode::Stdby, note: "NRESET" });
        }
    }

    fn mode(&self) -> Mode {
        self.mode
    }

    fn transcript(&self) -> &Vec<Txn> {
        &self.transcript
    }

    fn log_lost(&mut self, mosi: &[u8], note: &'static str) {
        if self.keep_transcript {
            self.transcript.push(Txn { mosi: mosi.to_vec(), miso: vec![], before: self.mode, after: self.mode, note });
        }
    }
}
