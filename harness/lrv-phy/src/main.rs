//! lrv-phy: monitors for lora-modulation and the lora-phy drivers' arithmetic (C15, C16, C17).
mod bus;
mod c15;
mod c16;
mod c17;
mod exec;

use lrv_core::{Collector, Value};

/// `col.violation` with a lazily built detail: when the signature is already recorded by an
/// earlier-or-equal case only the count is bumped (mutants can produce millions of alarms).
pub fn viol(col: &mut Collector, sig: &str, what: &str, detail: impl FnOnce() -> Value) {
    if let Some(old) = col.violations.get_mut(sig) {
        if (old.gen.as_str(), old.idx) <= (col.cur_gen.as_str(), col.cur_idx) {
            old.count += 1;
            return;
        }
    }
    col.violation(sig, what, detail());
}

fn main() {
    lrv_core::runner::main(&[&c15::C15, &c16::C16, &c17::C17]);
}
