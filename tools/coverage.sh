#!/bin/bash
# Line coverage of /repo sources under the quick (or given) tier of every monitor: which lines of the
# code under test do the workloads never execute?  Output: /tmp/covwork/uncovered.txt (scratch only).
#   tools/coverage.sh [tier] [props...]
set -u
tier=${1:-quick}; shift
props=${@:-C01 C02 C03 C04 C05 C06 C07 C08 C09 C10 C11 C12 C13 C14 C15 C16 C17 C18 C19 C20}
W=/tmp/covwork
TB=/root/.rustup/toolchains/1.97-x86_64-unknown-linux-gnu/lib/rustlib/x86_64-unknown-linux-gnu/bin
mkdir -p $W/prof; rm -f $W/prof/*.profraw
cd /verif/harness
export CARGO_NET_OFFLINE=true CARGO_TARGET_DIR=$W/target RUSTFLAGS="-Cinstrument-coverage"
LLVM_PROFILE_FILE=$W/prof-build/%p-%m.profraw cargo build --profile verif --workspace 2>&1 | tail -1
crate_of() { case $1 in C01|C02|C03|C19) echo lrv-codec;; C13) echo lrv-phyref;; C14|C18) echo lrv-chip;; C15|C16|C17) echo lrv-phy;; *) echo lrv-mac;; esac; }
for p in $props; do
  LLVM_PROFILE_FILE=$W/prof/$p-%p.profraw timeout 1500 $W/target/verif/$(crate_of $p) $p --tier $tier --seed ${VERIF_SEED:-1} --threads ${COV_THREADS:-2} --scale ${COV_SCALE:-0.25} --stall 100000 >/dev/null 2>&1
  echo "ran $p rc=$?"
done
$TB/llvm-profdata merge -sparse $W/prof/*.profraw -o $W/all.profdata
objs=""; for c in lrv-codec lrv-phyref lrv-chip lrv-phy lrv-mac; do objs="$objs -object $W/target/verif/$c"; done
$TB/llvm-cov export -format=lcov -instr-profile=$W/all.profdata $objs --ignore-filename-regex='(/root/|/rustc/|/verif/|smtc-modem)' > $W/all.lcov 2>/dev/null
python3 - <<'PY'
import re,collections
cov=collections.defaultdict(dict)
f=None
for l in open('/tmp/covwork/all.lcov'):
    l=l.strip()
    if l.startswith('SF:'): f=l[3:]
    elif l.startswith('DA:'):
        a,b=l[3:].split(',')[:2]
        n=int(a); c=int(b)
        cov[f][n]=max(cov[f].get(n,0),c)
out=open('/tmp/covwork/uncovered.txt','w')
summ=[]
for f in sorted(cov):
    if not f.startswith('/repo/'): continue
    lines=cov[f]; tot=len(lines); unc=sorted(n for n,c in lines.items() if c==0)
    summ.append((f,tot,len(unc)))
    if not unc: continue
    src=open(f).read().splitlines()
    out.write(f"=== {f}  {len(unc)}/{tot} instrumented lines never executed\n")
    for n in unc:
        out.write(f"{n:5}: {src[n-1] if n-1 < len(src) else ''}\n")
for f,t,u in summ:
    print(f"{u:5}/{t:5} uncovered  {f}")
PY
