#!/bin/bash
# tools/proc_wave.sh <tsv> <parallel>  - proc9.sh over the rows of a TSV (prop, variant, demo dest, demo cmd, crate, props),
# <parallel> at a time; logs in /tmp/p10log/<prop><variant>.log   (SEED_BASE selects /tmp/<base>-Cxx/OUT)
tsv=$1; par=${2:-6}
mkdir -p /tmp/p10log
while IFS=$'\t' read p v dest cmd crate props; do
  while [ $(jobs -r | wc -l) -ge $par ]; do sleep 5; done
  /verif/tools/proc9.sh $p $v "$dest" "$cmd" $crate "$props" > /tmp/p10log/$p$v.log 2>&1 &
done < $tsv
wait
