//! C05 — a downlink is accepted iff it is authentic and fresh (replay protection).

use crate::net::*;
use crate::regions;
use crate::sim::*;
use lrv_core::*;

pub struct C05;

const BOUNDARIES: [u32; 6] = [0, 0xFFFF, 0x1_0000, 0x7FFF_FFFF, 0xFFFF_0000, 0xFFFF_FFFF];
const SPAN: i64 = 70_000;

/// The statement's rule, in 64-bit arithmetic.
pub fn ref_next(last: Option<u32>, wire: u16) -> Option<u32> {
    let Some(last) = last else { return Some(wire as u32) };
    let last = last as u64;
    // the unique N = wire (mod 2^16) with last < N <= last + 16384
    let base = (last & !0xFFFF) | wire as u64;
    for n in [base, base + 0x1_0000] {
        if n > last && n <= last + 16384 && n <= 0xFFFF_FFFF {
            return Some(n as u32);
        }
    }
    None
}

fn quick_lasts() -> &'static Vec<Option<u32>> {
    static L: std::sync::OnceLock<Vec<Option<u32>>> = std::sync::OnceLock::new();
    L.get_or_init(quick_lasts_build)
}

fn quick_lasts_build() -> Vec<Option<u32>> {
    let mut v: Vec<Option<u32>> = vec![None];
    for b in BOUNDARIES {
        let mut d = -SPAN;
        while d <= SPAN {
            let x = b as i64 + d;
            if (0..=0xFFFF_FFFFi64).contains(&x) {
                v.push(Some(x as u32));
            }
            d += 97;
        }
        for d in -64i64..=64 {
            let x = b as i64 + d;
            if (0..=0xFFFF_FFFFi64).contains(&x) {
                v.push(Some(x as u32));
            }
        }
    }
    v
}

fn thorough_last(idx: u64) -> Option<Option<u32>> {
    if idx == 0 {
        return Some(None);
    }
    let i = idx - 1;
    let b = BOUNDARIES[(i / (2 * SPAN as u64 + 1)) as usize];
    let d = (i % (2 * SPAN as u64 + 1)) as i64 - SPAN;
    let x = b as i64 + d;
    if (0..=0xFFFF_FFFFi64).contains(&x) {
        Some(Some(x as u32))
    } else {
        None
    }
}

impl Monitor for C05 {
    fn prop(&self) -> &'static str {
        "C05"
    }
    fn scalable(&self, g: &str) -> bool {
        g != "arith"
    }
    fn gens(&self, tier: Tier) -> Vec<Gen> {
        let arith = match tier {
            Tier::Quick => quick_lasts().len() as u64,
            Tier::Thorough => 1 + 6 * (2 * SPAN as u64 + 1),
            Tier::Sanitizer => 2,
        };
        vec![gen("arith", arith), gen("sessions", tier.pick(20_000, 2_000_000, 6)), gen("rx1-offset", 9 * 3 * 8 * 8 * tier.pick(1, 6, 0)), gen("rx2-override", tier.pick(540, 20_000, 2)), gen("up-counter-exhausted", tier.pick(540, 20_000, 2)), gen("size-boundary", 3 * 9 * 8 * 2 * tier.pick(1, 20, 0)), gen("buffer-255", tier.pick(90, 2_000, 0))]
    }
    fn rule(&self) -> String {
        "arith: verif_next_fcnt_down(last, wire) for all 2^16 wire values per `last` (quick: stride 97 within +-70000 of each of 6 boundaries plus the 129 values around each and None; thorough: every value within +-70000), compared with the statement's rule in 64-bit arithmetic. sessions: devices (nb/async/async+ClassC, 9 regions) with sessions created at chosen counters receive 40-120 frames (fresh gaps 1/2/16383/16384, 16385+, replay, stale, other-epoch, bit-flip, foreign key, oversized, MAC in FOpts/port 0, confirmed) in RX1/RX2/Class C; after every transaction the accepted counter, response, delivered payloads and MAC answers are compared with a reference acceptance model. Class = (start class, frame class, verdict, window kind, front-end).".into()
    }
    fn assumptions(&self) -> Vec<String> {
        vec![
            "frames are generated clearly within or clearly beyond the size limit of the window's data rate (lengths inside an edition-dependent band are not generated)".into(),
            "frames with a foreign DevAddr but the device's own NwkSKey are not generated (statement silent / C07 overlap)".into(),
            "MAC execution is judged only for frames accepted in Class A windows (DevStatusReq -> DevStatusAns in the next uplink)".into(),
        ]
    }
    fn required_events(&self, tier: Tier) -> Vec<&'static str> {
        if tier == Tier::Sanitizer {
            vec!["arith_accept", "accepted"]
        } else {
            vec!["arith_accept", "arith_reject", "accepted", "rejected_replay", "rejected_far_future", "rejected_bad_mic", "rejected_oversize", "accepted_classc", "mac_answered", "epoch_crossed", "exact_max_delivered", "downlink_left_in_queue", "rx1_offset_small_frame_accepted"]
        }
    }
    fn exhaustive(&self, _tier: Tier) -> bool {
        false
    }

    fn run_case(&self, g: &str, idx: u64, rng: &mut Prng, col: &mut Collector) {
        match g {
            "arith" => {
                let last = match col.tier {
                    Tier::Quick => quick_lasts().get(idx as usize).copied(),
                    Tier::Thorough => thorough_last(idx),
                    Tier::Sanitizer => Some(if idx == 0 { None } else { Some(0xFFFF) }),
                };
                let Some(last) = last else { return };
                arith(last, col);
            }
            "sessions" => session_case(idx, rng, col),
            "rx1-offset" => rx1_offset_case(idx, rng, col),
            "rx2-override" => rx2_override_case(idx, rng, col),
            "up-counter-exhausted" => exhausted_case(idx, rng, col),
            "size-boundary" => size_boundary_case(idx, rng, col),
            "buffer-255" => buffer_255_case(idx, rng, col),
            _ => unreachable!(),
        }
    }
}

fn last_class(last: Option<u32>) -> &'static str {
    match last {
        None => "none",
        Some(0) => "0",
        Some(x) if x < 0xFFFF - 16384 => "low",
        Some(x) if x <= 0xFFFF => "near-16bit",
        Some(x) if x < 0x2_0000 => "epoch1",
        Some(x) if x >= 0xFFFF_FFFF - 16384 => "near-max",
        Some(x) if x & 0xFFFF >= 0xFFFF - 16384 => "near-epoch",
        Some(_) => "mid",
    }
}

fn arith(last: Option<u32>, col: &mut Collector) {
    let stride = if col.tier == Tier::Sanitizer { 4099 } else { 1 };
    let mut acc = 0u64;
    let mut rej = 0u64;
    let mut wire: u32 = 0;
    let mut first_bad: Option<(u16, Option<u32>, Option<u32>)> = None;
    let mut bad = 0u64;
    let mut n = 0u64;
    while wire <= 0xFFFF {
        let w = wire as u16;
        let exp = ref_next(last, w);
        let got = lorawan_device::verif::next_fcnt_down(last, w);
        if exp.is_some() {
            acc += 1;
        } else {
            rej += 1;
        }
        if got != exp {
            bad += 1;
            if first_bad.is_none() {
                first_bad = Some((w, got, exp));
            }
        }
        n += 1;
        wire += stride;
    }
    col.eval_n(n);
    col.class(&format!("arith|{}|acc={}", last_class(last), acc > 0));
    col.event_n("arith_accept", acc);
    col.event_n("arith_reject", rej);
    if col.want_sample() {
        col.sample(json!({"last": last, "wire_values": n, "accepted": acc, "rejected": rej}));
    }
    if let Some((w, got, exp)) = first_bad {
        let kind = match (got, exp) {
            (Some(_), None) => "accepts-stale-or-far",
            (None, Some(_)) => "rejects-fresh",
            _ => "wrong-counter",
        };
        col.violation(&format!("C05|arith|{}|last={}", kind, last_class(last)), "counter reconstruction differs from the statement's rule", json!({"last": last, "wire": w, "got": got, "expected": exp, "mismatches_for_this_last": bad}));
    }
}

#[derive(Clone, Copy, Debug, PartialEq)]
enum FK {
    Fresh1,
    Fresh2,
    FreshBig,   // gap 16383
    FreshMax,   // gap 16384
    TooFar,     // gap 16385..
    Replay,
    Stale,
    OtherEpoch, // right low half, MIC computed with another high half
    BitFlip,
    ForeignKey,
    Oversize,
    /// authentic and fresh, MACPayload exactly the maximum of the window's data rate
    ExactMax,
}

const KINDS: [FK; 12] = [FK::Fresh1, FK::Fresh2, FK::FreshBig, FK::FreshMax, FK::TooFar, FK::Replay, FK::Stale, FK::OtherEpoch, FK::BitFlip, FK::ForeignKey, FK::Oversize, FK::ExactMax];

#[derive(Clone)]
struct Built {
    bytes: Vec<u8>,
    kind: FK,
    /// counter the network used for MIC/encryption
    fcnt: u32,
    port: Option<u8>,
    payload: Vec<u8>,
    devstatus: bool,
    confirmed: bool,
}

fn build_frame(net: &Net, last: Option<u32>, kind: FK, rng: &mut Prng) -> Option<Built> {
    let l = last.map(|x| x as u64);
    let base = l.map(|x| x + 1).unwrap_or(0);
    let fcnt: u64 = match kind {
        FK::Fresh1 | FK::BitFlip | FK::ForeignKey | FK::Oversize | FK::OtherEpoch | FK::ExactMax => match l {
            None => rng.below(0x1_0000),
            Some(x) => x + 1,
        },
        FK::Fresh2 => match l {
            None => rng.below(0x1_0000),
            Some(x) => x + 2,
        },
        FK::FreshBig => l? + 16383,
        FK::FreshMax => l? + 16384,
        FK::TooFar => l? + 16385 + rng.below(40_000),
        FK::Replay => l?,
        FK::Stale => {
            let x = l?;
            if x == 0 {
                return None;
            }
            x - 1 - rng.below(x.min(20_000))
        }
    };
    let _ = base;
    if fcnt > 0xFFFF_FFFF {
        return None;
    }
    let mut fcnt = fcnt as u32;
    if kind == FK::OtherEpoch {
        // same wire value, other high half
        fcnt = if fcnt >= 0x1_0000 && rng.bool() { fcnt - 0x1_0000 } else { fcnt.checked_add(0x1_0000)? };
    }
    let devstatus = rng.chance(1, 3) && !matches!(kind, FK::Oversize | FK::ExactMax);
    let confirmed = rng.chance(1, 4);
    let in_fopts = rng.bool();
    let (port, payload, fopts): (Option<u8>, Vec<u8>, Vec<u8>) = if kind == FK::Oversize {
        (Some(rng.range(1, 223) as u8), rng.bytes(190), vec![])
    } else if kind == FK::ExactMax {
        // 7 (FHDR) + 1 (FPort) + 51 = 59 bytes of MACPayload: the limit of SF12/SF11/SF10 at 125 kHz in the
        // plans this kind is used for
        (Some(rng.range(1, 223) as u8), rng.bytes(51), vec![])
    } else if devstatus && !in_fopts {
        (Some(0), dev_status_req(), vec![])
    } else {
        let n = rng.below(9) as usize;
        let fo = if devstatus { dev_status_req() } else { vec![] };
        if rng.chance(1, 5) {
            (None, vec![], fo)
        } else {
            (Some(rng.range(1, 223) as u8), rng.bytes(n), fo)
        }
    };
    let key_net = if kind == FK::ForeignKey {
        let mut n2 = net.clone();
        n2.nwk[rng.below(16) as usize] ^= 1 << rng.below(8);
        n2
    } else {
        net.clone()
    };
    // one frame in eight carries RFU bits in its MHDR (a network of a later specification may set them): type,
    // direction, counter and MIC (over the MHDR as sent) make it as authentic and as fresh as without
    let mhdr_rfu = if rng.chance(1, 8) { rng.range(1, 8) as u8 } else { 0 };
    let mut bytes = key_net.downlink(&Down { fcnt, confirmed, ack: rng.bool(), adr: rng.bool(), f_pending: rng.bool(), f_opts: &fopts, port, payload: &payload, mhdr_rfu });
    if kind == FK::BitFlip {
        // flip a bit anywhere except MHDR (keeps it a data downlink) and FCnt/FOptsLen (which
        // would change the class); DevAddr flips are excluded too (foreign-address policy)
        let n = bytes.len();
        let mut pos: Vec<usize> = (8..n).collect();
        pos.retain(|p| *p < n);
        let p = *rng.pick(&pos);
        bytes[p] ^= 1 << rng.below(8);
    }
    Some(Built { bytes, kind, fcnt, port, payload, devstatus, confirmed })
}

/// Reference verdict for a delivered frame.
fn ref_accepts(net: &Net, last: Option<u32>, b: &Built) -> Option<u32> {
    let v = lrv_core::refcodec::decode_data(&b.bytes).ok()?;
    if v.uplink() {
        return None;
    }
    let n = ref_next(last, v.fcnt16)?;
    if lrv_core::refcodec::verify_data_mic(&b.bytes, &net.nwk, n) == Some(true) {
        Some(n)
    } else {
        None
    }
}

fn session_case(idx: u64, rng: &mut Prng, col: &mut Collector) {
    let front = FRONTS[(idx % 3) as usize];
    let reg = regions::ALL[((idx / 3) % 9) as usize];
    let start: Option<u32> = *rng.pick(&[None, Some(0), Some(0xFFF0), Some(0xFFFF), Some(0x1_FFFF), Some(0xFFFF_FFFF - 20_000), Some(0xFFFF_FFFE), Some(0xBFF0), Some(0x7FFF_FFF0)]);
    let net = Net { nwk: rng.arr(), app: rng.arr(), addr: rng.next_u32() };
    let creds = default_creds(rng);
    let opts = DevOpts { rng_seed: Some(rng.next_u64()), ..Default::default() };
    // build the session through the public (serde) surface
    let mut tmp: Dev = Dev::new(Front::Nb, reg, creds.clone(), &opts);
    tmp.join_abp(net.nwk, net.app, net.addr);
    let mut sj = tmp.session_json().expect("session");
    sj["fcnt_down"] = json!(start);
    let fcnt_up0 = rng.below(1000) as u32;
    sj["fcnt_up"] = json!(fcnt_up0);
    let session: lorawan_device::mac::Session = match serde_json::from_value(sj.clone()) {
        Ok(s) => s,
        Err(e) => {
            col.event("harness_session_json_rejected");
            col.notes.insert("session_json_error".into(), json!(e.to_string()));
            return;
        }
    };
    let mut dev: Dev = Dev::new_with_session(front, reg, creds, &opts, session);
    let mut last = start;
    let nframes = col.tier.pick(40, 120, 6) as usize;
    let mut pending_devstatus: Option<(bool, String)> = None; // expectation for the next uplink
    let mut up_min = fcnt_up0;
    let mut history: Vec<String> = vec![];
    // one application in three is lazy: it leaves delivered downlinks in the device's queue for a while
    // (acceptance must not depend on that; the payload comparison waits until the queue was emptied)
    let lazy_app = rng.chance(1, 3);
    let mut untaken = 0usize;
    let mut t = 0usize;
    while t < nframes {
        t += 1;
        let ev_start = dev.log.borrow().ev.len();
        // choose frames for this transaction
        let kind = *rng.pick(&KINDS);
        let kind = if kind == FK::ExactMax && !matches!(reg, regions::Reg::EU868 | regions::Reg::EU433 | regions::Reg::IN865) { FK::Fresh1 } else { kind };
        let Some(b1) = build_frame(&net, last, kind, rng) else { continue };
        // (Class C listening runs at the RX2 rate - the plan's default one here -, so frames at and beyond
        // its size limit are heard there too)
        let classc = front == Front::AsyncC && rng.chance(1, 4);
        if classc && matches!(b1.kind, FK::Oversize | FK::ExactMax) {
            col.event("size_limit_frames_in_classc");
        }
        let in_rx2 = rng.bool();
        // the window's data rate decides whether an oversized frame is *clearly* oversized:
        // only generate it for RX2 of regions whose default RX2 rate is SF12/SF10 (limit <= 123+)
        if b1.kind == FK::Oversize {
            let (_, dr2) = reg.rx2_default();
            let (sf, bw) = reg.lora_dr(dr2).unwrap();
            let clearly = (bw == 125_000 && sf >= 9) || (bw == 500_000 && sf >= 11);
            if !clearly {
                continue;
            }
        }
        let mut script = Script::default();
        let mut second: Option<Built> = None;
        if classc {
            // (every other time the very same frame is heard a second time while the device still listens:
            // whatever the first copy was, the second one is a replay)
            let twice = rng.bool() && !matches!(b1.kind, FK::Oversize);
            let q = if in_rx2 { &mut script.between } else { &mut script.pre_rx1 };
            q.push(b1.bytes.clone());
            if twice {
                q.push(b1.bytes.clone());
                second = Some(b1.clone());
                col.event("classc_frame_heard_twice");
            }
        } else if b1.kind == FK::Oversize || b1.kind == FK::ExactMax {
            // RX2 runs at the plan's default rate here (its payload limit is known)
            script.rx2.push(b1.bytes.clone());
            if b1.kind == FK::ExactMax {
                col.event("exact_max_delivered");
            }
        } else if in_rx2 {
            script.rx2.push(b1.bytes.clone());
        } else {
            script.rx1.push(b1.bytes.clone());
            // a second frame after a rejected first one (nb: same window; async: RX2)
            if ref_accepts(&net, last, &b1).is_none() && rng.chance(1, 3) {
                if let Some(b2) = build_frame(&net, last, *rng.pick(&[FK::Fresh1, FK::Fresh2, FK::Replay, FK::BitFlip]), rng) {
                    if front == Front::Nb {
                        script.rx1.push(b2.bytes.clone());
                    } else {
                        script.rx2.push(b2.bytes.clone());
                    }
                    second = Some(b2);
                }
            }
        }
        let dlen = rng.below(5) as usize;
        let data = rng.bytes(dlen);
        let port = rng.range(1, 200) as u8;
        let confirmed_up = rng.chance(1, 5);
        let resp = dev.transact(Action::Send { data: &data, port, confirmed: confirmed_up }, &script);
        // ---- the uplink of this transaction: check pending MAC expectation ----------------
        let tx: Vec<Vec<u8>> = dev.log.borrow().ev[ev_start..].iter().filter_map(|e| if let Ev::Tx { bytes, .. } = e { Some(bytes.clone()) } else { None }).collect();
        if let Some(txb) = tx.first() {
            if let Some(u) = net.decode_uplink(txb, up_min) {
                up_min = u.fcnt;
                if let Some((expect, why)) = pending_devstatus.take() {
                    let cmds = parse_uplink_cmds(&u.mac_bytes()).unwrap_or_default();
                    let has = cmds.iter().any(|c| c.0 == 0x06);
                    if has != expect {
                        col.violation(
                            &format!("C05|session|mac-{}|{}", if expect { "not-executed-for-accepted" } else { "executed-for-rejected" }, why),
                            "MAC command execution does not follow acceptance",
                            json!({"history": history, "front": front.name(), "region": reg.name(), "expected_DevStatusAns": expect, "uplink_mac": hex(&u.mac_bytes())}),
                        );
                    } else if has {
                        col.event("mac_answered");
                    }
                }
            }
        }
        // ---- model -------------------------------------------------------------------------
        let before = last;
        let mut exp_resp_n: Option<u32> = None; // Class A acceptance
        let mut exp_payloads: Vec<(u8, Vec<u8>)> = vec![];
        let mut delivered: Vec<(&Built, bool)> = vec![]; // (frame, class A?)
        if classc {
            delivered.push((&b1, false));
            if let Some(b2) = &second {
                delivered.push((b2, false));
            }
        } else {
            delivered.push((&b1, true));
            if let Some(b2) = &second {
                delivered.push((b2, true));
            }
        }
        let mut ended = false;
        let mut oversize_seen = false;
        for (b, class_a) in delivered.iter() {
            if ended {
                break;
            }
            if b.kind == FK::Oversize {
                oversize_seen = true;
                col.event("rejected_oversize");
                continue;
            }
            match ref_accepts(&net, last, b) {
                Some(n) => {
                    last = Some(n);
                    if let Some(p) = b.port {
                        if p != 0 {
                            exp_payloads.push((p, b.payload.clone()));
                        }
                    }
                    if *class_a {
                        exp_resp_n = Some(n);
                        ended = true;
                        col.event("accepted");
                        if b.devstatus {
                            pending_devstatus = Some((true, format!("{:?}", b.kind)));
                        }
                    } else {
                        col.event("accepted_classc");
                    }
                    if let (Some(bf), Some(nn)) = (before, Some(n)) {
                        if bf >> 16 != nn >> 16 {
                            col.event("epoch_crossed");
                        }
                    }
                }
                None => {
                    match b.kind {
                        FK::Replay | FK::Stale => col.event("rejected_replay"),
                        FK::TooFar => col.event("rejected_far_future"),
                        FK::BitFlip | FK::ForeignKey | FK::OtherEpoch => col.event("rejected_bad_mic"),
                        _ => col.event("rejected_other"),
                    }
                    if *class_a && b.devstatus && pending_devstatus.is_none() {
                        pending_devstatus = Some((false, format!("{:?}", b.kind)));
                    }
                }
            }
        }
        let winkind = if classc { "classC" } else if in_rx2 || b1.kind == FK::ExactMax || b1.kind == FK::Oversize { "rx2" } else { "rx1" };
        let verdict = if exp_resp_n.is_some() || (classc && last != before) { "accept" } else { "reject" };
        col.eval(&format!("sess|{}|{:?}|{}|{}|{}", last_class(before), b1.kind, verdict, winkind, front.name()));
        history.push(format!("{:?}@{}:fcnt={}:{}", b1.kind, winkind, b1.fcnt, verdict));
        if history.len() > 12 {
            history.remove(0);
        }
        if col.want_sample() && t == 3 {
            col.sample(json!({"front": front.name(), "region": reg.name(), "start_last": start, "frames_so_far": history, "frame": hex(&b1.bytes)}));
        }
        // ---- compare -----------------------------------------------------------------------
        let ctx = |what: &str| json!({"what": what, "front": front.name(), "region": reg.name(), "start_last": start, "last_before": before, "frame_kind": format!("{:?}", b1.kind), "frame_fcnt": b1.fcnt, "frame_confirmed": b1.confirmed, "frame": hex(&b1.bytes), "second": second.as_ref().map(|b| format!("{:?} fcnt={}", b.kind, b.fcnt)), "window": winkind, "response": format!("{:?}", resp), "recent": history});
        let sigc = format!("{}|{:?}|last={}|{}", if front == Front::Nb { "nb" } else { "async" }, b1.kind, last_class(before), if classc { "classC" } else { "classA" });
        if let Resp::Panic(m, l) = &resp {
            // panics are C04's business, but a panic on acceptance path breaks "acts on" too
            col.violation(&format!("C05|session|panic|{}", l.rsplit_once(':').map(|x| x.0).unwrap_or(l)), "device panicked while handling a downlink", json!({"ctx": ctx("panic"), "msg": m}));
            return;
        }
        match (&resp, exp_resp_n) {
            (Resp::DownlinkReceived(n), Some(e)) => {
                if *n != e {
                    col.violation(&format!("C05|session|wrong-counter-reported|{}", sigc), "DownlinkReceived carries a counter other than the reference N", ctx("counter"));
                }
            }
            (Resp::DownlinkReceived(_), None) => {
                col.violation(&format!("C05|session|accepted-but-reference-rejects|{}", sigc), "device acted on a frame the reference rejects", ctx("accept"));
            }
            (Resp::SessionExpired, Some(_)) => { /* uplink counter exhausted: C06's business */ }
            (_, Some(_)) => {
                if !oversize_seen {
                    col.violation(&format!("C05|session|rejected-but-reference-accepts|{}", sigc), "device did not act on an authentic fresh frame", ctx("reject"));
                }
            }
            _ => {}
        }
        let got_last = dev.fcnt_down().flatten();
        if dev.fcnt_down().is_some() && got_last != last {
            col.violation(
                &format!("C05|session|fcnt_down-differs|{}|{}", sigc, if got_last < last { "behind" } else { "ahead" }),
                "remembered downlink counter differs from the reference model",
                json!({"ctx": ctx("fcnt_down"), "device": got_last, "model": last}),
            );
            last = got_last; // resynchronise so one defect gives one witness per session
        }
        if lazy_app && rng.bool() {
            untaken += exp_payloads.len();
            if untaken > 0 {
                col.event("downlink_left_in_queue");
            }
            if matches!(resp, Resp::SessionExpired) {
                break;
            }
            continue;
        }
        let mut got_payloads = dev.take_downlinks();
        got_payloads.reverse(); // take_downlink pops the newest first
        let queue_was_clean = untaken == 0;
        untaken = 0;
        if queue_was_clean && got_payloads != exp_payloads {
            col.violation(
                &format!("C05|session|payload-differs|{}|got={}|exp={}", sigc, got_payloads.len(), exp_payloads.len()),
                "delivered application payloads differ from the reference plaintexts",
                json!({"ctx": ctx("payload"), "device": got_payloads.iter().map(|(p, d)| format!("{}:{}", p, hex(d))).collect::<Vec<_>>(), "model": exp_payloads.iter().map(|(p, d)| format!("{}:{}", p, hex(d))).collect::<Vec<_>>()}),
            );
        }
        if matches!(resp, Resp::SessionExpired) {
            break;
        }
    }
}


/// "fits the maximum size of the data rate it was received at": the network moves RX2 to a faster
/// rate (RXParamSetupReq), then sends in RX2 a frame that fits that rate but not the plan's
/// default RX2 rate. It is authentic and fresh, so it must be accepted; the twin frame on a device
/// whose RX2 was not moved is clearly oversized and must not be.
fn rx2_override_case(idx: u64, rng: &mut Prng, col: &mut Collector) {
    let front = FRONTS[(idx % 3) as usize];
    let reg = regions::ALL[((idx / 3) % 9) as usize];
    let moved = (idx / 27) % 2 == 0;
    let opts = DevOpts { rng_seed: Some(rng.next_u64()), ..Default::default() };
    let Some(mut link): Option<Link> = Link::abp(front, reg, rng, &opts) else {
        col.event("harness_session_json_rejected");
        return;
    };
    // default RX2 rates and their MACPayload limits: EU868/EU433 DR0 and IN865 DR2 59, US915/AU915
    // DR8 53..61, AS923 DR2 123 (its table differs). The frame below has 110 octets of MACPayload
    // (AS923: 200) and RX2 is moved to a rate whose limit is 123 or more (AS923: 250)
    let (f2, _) = reg.rx2_default();
    let fast: u8 = if reg.fixed() { *rng.pick(&[10u8, 11, 12, 13]) } else if reg.is_as923() { *rng.pick(&[4u8, 5]) } else { *rng.pick(&[3u8, 4, 5]) };
    let frm_len = if reg.is_as923() { 192 } else { 102 };
    if moved {
        let t = link.deliver_mac(&rx_param_setup_req(fast, f2 / 100), rng.bool(), rng.bool());
        if let Resp::Panic(m, l) = &t.resp {
            col.violation(&format!("C05|panic|rx2-override|{}", short_loc(l)), "device panicked", json!({"msg": m, "loc": l}));
            return;
        }
        // the answer goes out with the next uplink; the parameters are in force at once
        if link.dev.snapshot().rx2_data_rate != Some(fast) {
            col.event("rx2_override_not_taken");
            return;
        }
        col.event("rx2_override_in_force");
    }
    // MACPayload: FHDR 7 + FPort 1 + FRMPayload
    let payload = rng.bytes(frm_len);
    let fcnt = link.fdown + 1 + rng.below(3) as u32;
    let frame = link.net.downlink(&Down { fcnt, port: Some(rng.range(1, 200) as u8), payload: &payload, confirmed: rng.chance(1, 4), ..Default::default() });
    let before = link.dev.fcnt_down();
    let t = link.txn(&[1, 2], 7, false, &Script::rx2(frame.clone()));
    if let Resp::Panic(m, l) = &t.resp {
        col.violation(&format!("C05|panic|rx2-override|{}", short_loc(l)), "device panicked", json!({"msg": m, "loc": l}));
        return;
    }
    let after = link.dev.fcnt_down();
    let delivered = link.dev.take_downlinks();
    let accepted = matches!(t.resp, Resp::DownlinkReceived(_));
    col.eval(&format!("rx2-override|{}|{}|moved={}|dr{}|{}", reg.name(), front.name(), moved, fast, t.resp.kind()));
    let ctx = json!({"region": reg.name(), "front": front.name(), "rx2_moved_to_dr": if moved { Some(fast) } else { None }, "frame_len": frame.len(), "response": format!("{:?}", t.resp), "fcnt_down_before": before, "fcnt_down_after": after});
    if moved {
        if !accepted || after != Some(Some(fcnt)) || delivered.len() != 1 || delivered[0].1 != payload {
            col.violation(&format!("C05|rx2-override|fitting-frame-not-accepted|{}|{}", if reg.fixed() { "fixed" } else { "dynamic" }, front.name()), "an authentic fresh frame that fits the data rate RX2 was moved to (but not the plan's default RX2 rate) was not accepted in RX2", ctx);
        } else {
            col.event("rx2_override_big_frame_accepted");
        }
    } else if accepted || after != before || !delivered.is_empty() {
        col.violation(&format!("C05|rx2-override|oversized-accepted|{}|{}", if reg.fixed() { "fixed" } else { "dynamic" }, front.name()), "a frame far beyond the size limit of the plan's default RX2 rate was accepted in an RX2 window at that rate", ctx);
    } else {
        col.event("rx2_default_big_frame_dropped");
    }
}


/// RX1 at every (uplink data rate, RX1DROffset) pair the region allows - including the pairs whose table
/// cell names a rate the device does not implement, where it listens at a substitute rate: a small
/// authentic fresh frame fits the size limit of whatever rate RX1 is opened at and must be accepted.
fn rx1_offset_case(idx: u64, rng: &mut Prng, col: &mut Collector) {
    let front = FRONTS[(idx % 3) as usize];
    let reg = regions::ALL[((idx / 3) % 9) as usize];
    let off = ((idx / 27) % 8) as u8;
    let dslot = ((idx / 216) % 8) as usize;
    if off > reg.max_rx1_offset() {
        return;
    }
    let opts = DevOpts { rng_seed: Some(rng.next_u64()), ..Default::default() };
    let Some(mut link): Option<Link> = Link::abp(front, reg, rng, &opts) else {
        col.event("harness_session_json_rejected");
        return;
    };
    let (f2, d2) = reg.rx2_default();
    let t = link.deliver_mac(&rx_param_setup_req((off << 4) | d2, f2 / 100), rng.bool(), rng.bool());
    if let Resp::Panic(m, l) = &t.resp {
        col.violation(&format!("C05|panic|rx1-offset|{}", short_loc(l)), "device panicked", json!({"msg": m, "loc": l}));
        return;
    }
    if link.dev.snapshot().rx1_dr_offset != off {
        col.event("rx1_offset_not_taken");
        return;
    }
    let drs = crate::c12::uplink_drs(reg);
    let dr = drs[dslot % drs.len()];
    link.dev.set_datarate(dr);
    // MACPayload of 8..12 octets: within the limit of every rate of every plan
    let plen = rng.below(5) as usize;
    let payload = rng.bytes(plen);
    let fcnt = link.fdown + 1 + rng.below(3) as u32;
    let frame = link.net.downlink(&Down { fcnt, port: Some(rng.range(1, 200) as u8), payload: &payload, confirmed: rng.chance(1, 4), ..Default::default() });
    let before = link.dev.fcnt_down();
    let t = link.txn(&[1, 2], 7, false, &Script::rx1(frame.clone()));
    if let Resp::Panic(m, l) = &t.resp {
        col.violation(&format!("C05|panic|rx1-offset|{}", short_loc(l)), "device panicked", json!({"msg": m, "loc": l}));
        return;
    }
    let after = link.dev.fcnt_down();
    let delivered = link.dev.take_downlinks();
    let accepted = matches!(t.resp, Resp::DownlinkReceived(_));
    col.eval(&format!("rx1-offset|{}|{}|off={}|dr{}|{}", reg.name(), front.name(), off, dr, t.resp.kind()));
    if !accepted || after != Some(Some(fcnt)) || delivered.len() != 1 || delivered[0].1 != payload {
        col.violation(
            &format!("C05|rx1-offset|small-frame-not-accepted|{}|off={}|updr={}", reg.name(), off, dr),
            "an authentic fresh frame of a few octets, received in RX1, was not accepted",
            json!({"region": reg.name(), "front": front.name(), "rx1_dr_offset": off, "uplink_dr": dr, "frame_len": frame.len(), "response": format!("{:?}", t.resp), "fcnt_down_before": before, "fcnt_down_after": after}),
        );
    } else {
        col.event("rx1_offset_small_frame_accepted");
    }
}


/// The uplink counter of the session is at its last value (2^32-1). A downlink that is authentic
/// and fresh is still acted on - whatever the call then reports - so the device must remember its
/// counter N: a replay of it, or of anything older, must never be taken again.
fn exhausted_case(idx: u64, rng: &mut Prng, col: &mut Collector) {
    let front = FRONTS[(idx % 3) as usize];
    let reg = regions::ALL[((idx / 3) % 9) as usize];
    let start: Option<u32> = *rng.pick(&[None, Some(0), Some(7), Some(0xFFFF), Some(0x1_0000), Some(0x7FFF_0000)]);
    let up0 = if rng.chance(2, 3) { 0xFFFF_FFFFu32 } else { 0xFFFF_FFFE };
    let opts = DevOpts { rng_seed: Some(rng.next_u64()), ..Default::default() };
    let r: Result<(Dev, Net), String> = abp_dev(front, reg, rng, &opts, |sj| {
        sj["fcnt_up"] = json!(up0);
        if let Some(d) = start {
            sj["fcnt_down"] = json!(d);
        }
    });
    let Ok((mut dev, net)) = r else {
        col.event("harness_session_json_rejected");
        return;
    };
    let mut last = start;
    let place = rng.below(if front == Front::AsyncC { 3 } else { 2 });
    for round in 0..3u32 {
        let n = match last {
            None => rng.below(50) as u32,
            Some(l) => l + 1 + rng.below(5) as u32,
        };
        let cmds = if rng.bool() { rx_timing_setup_req(rng.range(1, 8) as u8) } else { vec![] };
        let frame = net.downlink(&Down { fcnt: n, port: Some(9), payload: &[round as u8], f_opts: &cmds, confirmed: rng.chance(1, 3), ..Default::default() });
        let mut script = Script::default();
        match place {
            0 => script.rx1.push(frame.clone()),
            1 => script.rx2.push(frame.clone()),
            _ => script.pre_rx1.push(frame.clone()),
        }
        let up_before = dev.fcnt_up();
        let resp = dev.transact(Action::Send { data: &[round as u8], port: 2, confirmed: false }, &script);
        if let Resp::Panic(m, l) = &resp {
            col.violation(&format!("C05|panic|up-counter-exhausted|{}", short_loc(l)), "device panicked", json!({"msg": m, "loc": l}));
            return;
        }
        let _ = dev.take_downlinks();
        let got = dev.fcnt_down();
        col.eval(&format!("exhausted|{}|{}|up={:x}|place={}|{}", reg.name(), front.name(), up_before.unwrap_or(0), place, resp.kind()));
        if matches!(resp, Resp::Error(_)) || dev.tx_since(0).is_empty() {
            // the stack refused to transmit at all: no receive opportunity, nothing to judge
            col.event("exhausted_no_receive_opportunity");
            return;
        }
        if up_before == Some(0xFFFF_FFFF) {
            col.event("downlink_at_exhausted_up_counter");
        }
        if got != Some(Some(n)) {
            col.violation(
                &format!("C05|up-counter-exhausted|accepted-counter-not-remembered|{}|up={:x}", if place == 2 { "classC" } else { "classA" }, up_before.unwrap_or(0)),
                "an authentic fresh downlink was received while the uplink counter is at its last values, but its counter was not remembered (a replay would be taken again)",
                json!({"region": reg.name(), "front": front.name(), "fcnt_up_before": up_before, "downlink_counter": n, "fcnt_down_after": got, "fcnt_down_before": last, "response": format!("{:?}", resp), "round": round}),
            );
            return;
        }
        last = Some(n);
        // the same frame again at the next opportunity: never taken twice
        let mut script = Script::default();
        match place {
            0 => script.rx1.push(frame.clone()),
            1 => script.rx2.push(frame.clone()),
            _ => script.pre_rx1.push(frame.clone()),
        }
        let resp2 = dev.transact(Action::Send { data: &[0x55], port: 2, confirmed: false }, &script);
        let delivered = dev.take_downlinks();
        if matches!(resp2, Resp::DownlinkReceived(_)) || !delivered.is_empty() || dev.fcnt_down() != Some(Some(n)) {
            col.violation("C05|up-counter-exhausted|replay-accepted", "a replayed downlink was accepted", json!({"region": reg.name(), "front": front.name(), "downlink_counter": n, "response": format!("{:?}", resp2)}));
            return;
        }
        col.event("exhausted_replay_rejected");
    }
}


/// Maximum MACPayload size M per downlink data rate (RP002, no dwell-time limit, not repeater
/// compatible): the harness' own table.
pub(crate) fn max_mac_payload(reg: regions::Reg, dr: u8) -> Option<usize> {
    use regions::Reg::*;
    let t: &[(u8, usize)] = match reg {
        EU868 | EU433 => &[(0, 59), (1, 59), (2, 59), (3, 123), (4, 250), (5, 250), (6, 250)],
        IN865 => &[(0, 59), (1, 59), (2, 59), (3, 123), (4, 250), (5, 250)],
        US915 | AU915 => &[(8, 61), (9, 137), (10, 250), (11, 250), (12, 250), (13, 250)],
        _ => &[(0, 59), (1, 59), (2, 123), (3, 123), (4, 250), (5, 250), (6, 250)], // AS923-1..4
    };
    t.iter().find(|x| x.0 == dr).map(|x| x.1)
}

/// RX2 is moved to each downlink data rate in turn; a frame whose MACPayload is exactly the
/// regional maximum for that rate must be accepted, one octet more must not.
fn size_boundary_case(idx: u64, rng: &mut Prng, col: &mut Collector) {
    let front = FRONTS[(idx % 3) as usize];
    let reg = regions::ALL[((idx / 3) % 9) as usize];
    let slot = ((idx / 27) % 8) as u8;
    let over = (idx / 216) % 2 == 1;
    let dr = if reg.fixed() { 8 + slot % 6 } else { slot % 7 };
    let Some(m) = max_mac_payload(reg, dr) else { return };
    if over && m >= 250 {
        return; // M + 1 would not fit a 255-octet PHYPayload
    }
    let opts = DevOpts { rng_seed: Some(rng.next_u64()), ..Default::default() };
    let Some(mut link): Option<Link> = Link::abp(front, reg, rng, &opts) else {
        col.event("harness_session_json_rejected");
        return;
    };
    let (f2, _) = reg.rx2_default();
    let _ = link.deliver_mac(&rx_param_setup_req(dr, f2 / 100), rng.bool(), rng.bool());
    if link.dev.snapshot().rx2_data_rate != Some(dr) {
        col.event("size_boundary_rate_not_taken");
        return;
    }
    let len = if over { m + 1 } else { m };
    // MACPayload = FHDR (7 + FOpts) + FPort (1) + FRMPayload. Half of the frames carry 1..15 octets of
    // FOpts (DevStatusReq, one octet each): they are part of the MACPayload the limit is about
    let k = if rng.bool() { 1 + rng.below(15) as usize } else { 0 };
    if k > 0 {
        col.event("size_boundary_frames_with_fopts");
    }
    let fopts = vec![0x06u8; k];
    let payload = rng.bytes(len - 8 - k);
    let fcnt = link.fdown + 1;
    let frame = link.net.downlink(&Down { fcnt, port: Some(rng.range(1, 200) as u8), payload: &payload, f_opts: &fopts, ..Default::default() });
    let before = link.dev.fcnt_down();
    let t = link.txn(&[3], 7, false, &Script::rx2(frame.clone()));
    if let Resp::Panic(mm, l) = &t.resp {
        col.violation(&format!("C05|panic|size-boundary|{}", short_loc(l)), "device panicked", json!({"msg": mm, "loc": l}));
        return;
    }
    let after = link.dev.fcnt_down();
    let delivered = link.dev.take_downlinks();
    let accepted = matches!(t.resp, Resp::DownlinkReceived(_)) || after != before || !delivered.is_empty();
    col.eval(&format!("size-boundary|{}|dr{}|{}|{}|{}", reg.name(), dr, if over { "M+1" } else { "M" }, front.name(), t.resp.kind()));
    let ctx = json!({"region": reg.name(), "front": front.name(), "rx2_data_rate": dr, "regional_max_mac_payload": m, "mac_payload_len": len, "phy_payload_len": frame.len(), "response": format!("{:?}", t.resp), "fcnt_down_before": before, "fcnt_down_after": after});
    if over {
        if accepted {
            col.violation(&format!("C05|size-boundary|accepted-above-maximum|{}|dr{}", reg.name(), dr), "a frame one octet longer than the regional maximum for the data rate it was received at was accepted", ctx);
        } else {
            col.event("size_boundary_over_dropped");
        }
    } else if !(matches!(t.resp, Resp::DownlinkReceived(_)) && after == Some(Some(fcnt)) && delivered.len() == 1 && delivered[0].1 == payload) {
        col.violation(&format!("C05|size-boundary|maximum-size-frame-not-accepted|{}|dr{}", reg.name(), dr), "an authentic fresh frame of exactly the regional maximum size for the data rate it was received at was not accepted", ctx);
    } else {
        col.event("size_boundary_max_accepted");
    }
}


/// A device whose radio buffer is exactly 255 octets (the largest PHYPayload): a maximum-size
/// downlink (MACPayload 250, PHYPayload 255) at a data rate that allows it must reach the MAC
/// whole and be accepted. The async device is built directly, with `N = 255`.
fn buffer_255_case(idx: u64, rng: &mut Prng, col: &mut Collector) {
    use lorawan_device::async_device;
    use std::cell::RefCell;
    use std::rc::Rc;
    let reg = regions::ALL[(idx % 9) as usize];
    let classc = (idx / 9) % 2 == 1;
    let phy_len: usize = *rng.pick(&[255usize, 255, 254, 200]);
    let log: Log = Rc::new(RefCell::new(LogInner { tx_done_ms: 0, snr: 5, lead_ms: LEAD_MS, ..Default::default() }));
    let srng = SRng { log: log.clone(), prng: Some(Prng::new(rng.next_u64())) };
    let mut dev: async_device::Device<AsRadio<20, 0>, AsTimer, SRng, 255, 4> =
        async_device::Device::new(region_config(reg, None), AsRadio { log: log.clone() }, AsTimer { log: log.clone() }, srng);
    if classc {
        dev.enable_class_c();
    }
    let net = Net { nwk: rng.arr(), app: rng.arr(), addr: rng.next_u32() };
    let jm = lorawan_device::JoinMode::ABP {
        nwkskey: lorawan_device::NwkSKey::from(net.nwk),
        appskey: lorawan_device::AppSKey::from(net.app),
        devaddr: lorawan_device::DevAddr::from_value(net.addr),
    };
    let _ = block_on(dev.join(&jm));
    // fastest uplink rate so that RX1 (offset 0) is a 250-octet window in every region
    let updr = if reg == regions::Reg::US915 { 4 } else { 5 };
    dev.set_datarate(lorawan_device::region::DR::from(updr));
    let payload = rng.bytes(phy_len - 13);
    let frame = net.downlink(&Down { fcnt: 1, port: Some(10), payload: &payload, ..Default::default() });
    assert_eq!(frame.len(), phy_len);
    {
        let mut l = log.borrow_mut();
        l.rx_single_queue.push_back(Some(frame.clone()));
        l.rx_single_queue.push_back(None);
    }
    let r = trap(|| block_on(dev.send(&[1, 2, 3], 1, false)));
    let resp = match r {
        Err(t) => {
            col.violation(&format!("C05|panic|buffer-255|{}", short_loc(&t.loc)), "device with a 255-octet radio buffer panicked on a maximum-size downlink", json!({"msg": t.msg, "loc": t.loc, "region": reg.name(), "phy_len": phy_len}));
            return;
        }
        Ok(r) => r,
    };
    let got = dev.take_downlink();
    let ok = matches!(resp, Ok(async_device::SendResponse::DownlinkReceived(1))) && got.as_ref().map(|d| d.data.as_slice() == payload.as_slice() && d.fport == 10).unwrap_or(false);
    col.eval(&format!("buffer-255|{}|phy{}|classc={}|{}", reg.name(), phy_len, classc, if ok { "accepted" } else { "not-accepted" }));
    if ok {
        col.event("buffer_255_max_frame_accepted");
    } else {
        col.violation(
            &format!("C05|buffer-255|frame-not-accepted|phy={}", if phy_len == 255 { "255" } else { "<255" }),
            "a device whose radio buffer holds exactly 255 octets did not accept an authentic fresh downlink that fits the window's data rate and the buffer",
            json!({"region": reg.name(), "class_c": classc, "phy_payload_len": phy_len, "response": format!("{:?}", resp.as_ref().map_err(|_| "error")), "delivered_len": got.map(|d| d.data.len())}),
        );
    }
}
